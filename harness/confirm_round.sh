#!/bin/bash
# confirm_round.sh <Cxx> <round-dir e.g. /tmp/seed/c04_3> : confirm out/1..3 of a seeding agent in scratch slot <Cxx> and keep them
# under /verif/seeded/<Cxx>-<next free number>
P=$1; D=$2
for i in 1 2 3; do
  [ -f $D/out/$i/patch.diff ] || continue
  [ -f $D/out/$i/.done ] && continue
  n=1; while [ -d /verif/seeded/$P-$n ]; do n=$((n+1)); done
  mkdir -p /verif/seeded/$P-$n   # reserve
  /venv/bin/python /verif/harness/confirm_seed_slot.py $D/out/$i $P-$n $P $P || rmdir /verif/seeded/$P-$n 2>/dev/null
  touch $D/out/$i/.done
done
