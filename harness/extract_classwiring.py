"""AST extractor for C15: regenerates lean/DefconModel/Gen/ClassWiring.lean from the defcon source.

What is extracted (see lean/DefconModel/Classes.lean for the data types):

* for every class of `objects/` whose ``__init__`` takes ``*Class`` parameters and stores them
  ("owner classes": Font, LayerSet, Layer, Glyph, Contour): the parameter list, the ordered list of
  class-related statements of ``__init__`` (``if p is None: p = C`` -> dflt, ``p = C`` -> force,
  ``self._a = p`` -> store) and the class-valued properties (``pointClass = property(_get_pointClass)``
  with ``return self._pointClass``);
* every CREATION SITE in any module of Lib/defcon (tests excluded): a call whose
  callee is a stored class slot (``self._xClass(...)``), a class property (``self.pointClass(...)``),
  ``self.__class__(...)`` or the NAME of one of the 17 role classes / Font (hard-coded), together with the
  source of every ``*Class`` keyword argument; plus every ``isinstance(x, <class expr>)`` guard that names
  a slot or a role class.

The extractor FAILS CLOSED (raises ExtractError) on every class-related shape it does not recognise:
a class-valued callee/keyword it cannot classify, a write to a ``_*Class`` attribute outside ``__init__``,
an ``__init__`` statement touching a ``*Class`` name in another way, ``*args/**kwargs`` or positional
arguments at a site that constructs an owner class.
"""
import ast
import os
import re

ROLE_CLASSES = ["Glyph", "Contour", "Point", "Component", "Anchor", "Image", "Guideline", "Lib", "Layer", "LayerSet",
                "Info", "Kerning", "Groups", "Features", "UnicodeData", "ImageSet", "DataSet"]
OWNER_CANDIDATES = {"Font", "LayerSet", "Layer", "Glyph", "Contour"}
KNOWN = set(ROLE_CLASSES) | {"Font"}
# classes DEFINED inside defcon as subclasses of a role class (`class _ReloadedInfo(Info)` in objects/font.py):
# name -> the role class it derives from; filled by `scan_repo` before the modules are scanned.  Instantiating one is a
# hard-coded instantiation of that role class.
DERIVED = {}



class ExtractError(Exception):
    pass


def _is_classy(name):
    return isinstance(name, str) and (name.endswith("Class") or name == "__class__")


def _mentions_class(node):
    for n in ast.walk(node):
        if isinstance(n, ast.Name) and (_is_classy(n.id) or n.id in KNOWN):
            return True
        if isinstance(n, ast.Attribute) and (_is_classy(n.attr) or n.attr in KNOWN):
            return True
    return False


def _self_attr(node):
    """`self.<attr>` -> attr, else None"""
    if isinstance(node, ast.Attribute) and isinstance(node.value, ast.Name) and node.value.id == "self":
        return node.attr
    return None


class ModuleScan(object):
    def __init__(self, relpath, src):
        self.rel = relpath
        self.tree = ast.parse(src)
        self.sites = []
        self.classes = {}      # name -> dict(params, init, props)
        self.where = relpath
        self._local = {}
        self._accounted = set()

    def err(self, node, msg):
        raise ExtractError("%s:%s: %s: %s" % (self.rel, getattr(node, "lineno", "?"), msg,
                                               ast.unparse(node)[:160] if isinstance(node, ast.AST) else node))

    # -- alias resolution ---------------------------------------------------------------
    def aliases_in(self, body_nodes, base):
        """names bound by import statements (anywhere under the given nodes) to a KNOWN class"""
        al = dict(base)
        for top in body_nodes:
            for n in ast.walk(top):
                if isinstance(n, ast.ImportFrom):
                    for a in n.names:
                        if a.name in KNOWN:
                            al[a.asname or a.name] = a.name
                        elif a.name in DERIVED:
                            al[a.asname or a.name] = DERIVED[a.name]
                        elif (a.asname or a.name) in al:
                            del al[a.asname or a.name]
        return al

    def run(self):
        mod_alias = {}
        for n in self.tree.body:
            if isinstance(n, ast.ClassDef) and n.name in KNOWN:
                mod_alias[n.name] = n.name
            elif isinstance(n, ast.ClassDef) and n.name in DERIVED:
                mod_alias[n.name] = DERIVED[n.name]
        mod_alias = self.aliases_in([n for n in self.tree.body if isinstance(n, (ast.ImportFrom, ast.Import))], mod_alias)
        # names rebound at module level to something else are not tracked: look for assignments to KNOWN names
        for n in ast.walk(self.tree):
            if isinstance(n, (ast.Assign, ast.AugAssign, ast.AnnAssign)):
                targets = n.targets if isinstance(n, ast.Assign) else [n.target]
                for t in targets:
                    elts = t.elts if isinstance(t, (ast.Tuple, ast.List)) else [t]
                    for x in elts:
                        if isinstance(x, ast.Name) and x.id in KNOWN:
                            self.err(n, "a role class name is rebound")
        for n in self.tree.body:
            if isinstance(n, ast.ClassDef):
                self.scan_class(n, mod_alias)
            elif isinstance(n, (ast.FunctionDef, ast.AsyncFunctionDef)):
                self.scan_function(n, None, n.name, mod_alias, None)
            else:
                self.scan_loose(n, mod_alias, "<module>")

    # -- classes ------------------------------------------------------------------------
    def scan_class(self, cls, alias):
        info = dict(params=[], init=[], props=[], stores=set())
        getters = {}
        for n in cls.body:
            if isinstance(n, (ast.FunctionDef, ast.AsyncFunctionDef)):
                if n.name == "__init__":
                    self.scan_init(cls, n, alias, info)
                else:
                    g = self.simple_getter(n)
                    if g is not None:
                        getters[n.name] = g
                self.scan_function(n, cls.name, n.name, alias, info)
            elif isinstance(n, ast.ClassDef):
                self.err(n, "nested class")
            else:
                # class-level statements: properties and anything class-related
                p = self.property_def(n)
                if p is not None:
                    pname, getter = p
                    if getter in getters:
                        info["props"].append((pname, getters[getter]))
                        continue
                    if _is_classy(pname):
                        self.err(n, "class-valued property with an unrecognised getter")
                    continue
                self.scan_loose(n, alias, cls.name)
        # only classes that keep class slots (a parameter that is never stored, like Info's deprecated
        # guidelineClass, makes no wiring)
        if info["props"] or info["init"]:
            self.classes[cls.name] = info

    def simple_getter(self, fn):
        """`def _get_x(self): return self._xClass` -> "_xClass" """
        body = [s for s in fn.body if not (isinstance(s, ast.Expr) and isinstance(s.value, ast.Constant))]
        if len(body) == 1 and isinstance(body[0], ast.Return) and body[0].value is not None:
            a = _self_attr(body[0].value)
            if a is not None and a.startswith("_") and a.endswith("Class"):
                if len(fn.args.args) == 1:
                    return a
        return None

    def property_def(self, node):
        """`x = property(_get_x, ...)` -> (x, "_get_x")"""
        if isinstance(node, ast.Assign) and len(node.targets) == 1 and isinstance(node.targets[0], ast.Name):
            v = node.value
            if isinstance(v, ast.Call) and isinstance(v.func, ast.Name) and v.func.id == "property":
                getter = None
                if v.args and isinstance(v.args[0], ast.Name):
                    getter = v.args[0].id
                for k in v.keywords:
                    if k.arg == "fget" and isinstance(k.value, ast.Name):
                        getter = k.value.id
                if len(v.args) >= 2 and _is_classy(node.targets[0].id):
                    self.err(node, "class-valued property with a setter")
                return node.targets[0].id, getter
        return None

    def scan_init(self, cls, fn, alias, info):
        a = fn.args
        if a.vararg or a.kwarg:
            if cls.name in OWNER_CANDIDATES:
                self.err(fn, "*args/**kwargs in an owner __init__")
        names = [x.arg for x in a.args][1:] + [x.arg for x in a.kwonlyargs]
        defaults = [None] * (len(a.args) - len(a.defaults)) + list(a.defaults)
        cparams = []
        for x, d in list(zip(a.args, defaults))[1:] + list(zip(a.kwonlyargs, a.kw_defaults)):
            if x.arg.endswith("Class"):
                if not (isinstance(d, ast.Constant) and d.value is None):
                    self.err(fn, "class parameter %s does not default to None" % x.arg)
                cparams.append(x.arg)
        if not cparams:
            return
        info["params"] = cparams
        local_alias = self.aliases_in(fn.body, alias)
        for st in fn.body:
            self.init_stmt(cls, st, cparams, local_alias, info)

    def init_stmt(self, cls, st, cparams, alias, info):
        def class_name_of(expr):
            if isinstance(expr, ast.Name) and expr.id in alias:
                return alias[expr.id]
            return None
        # if p is None: [from x import C;] p = C
        if isinstance(st, ast.If):
            t = st.test
            if (isinstance(t, ast.Compare) and isinstance(t.left, ast.Name) and t.left.id in cparams
                    and len(t.ops) == 1 and isinstance(t.ops[0], ast.Is)
                    and isinstance(t.comparators[0], ast.Constant) and t.comparators[0].value is None
                    and not st.orelse):
                body = [s for s in st.body if not isinstance(s, (ast.ImportFrom, ast.Import))]
                if (len(body) == 1 and isinstance(body[0], ast.Assign) and len(body[0].targets) == 1
                        and isinstance(body[0].targets[0], ast.Name) and body[0].targets[0].id == t.left.id):
                    c = class_name_of(body[0].value)
                    if c is None:
                        self.err(st, "default of a class parameter is not a known class name")
                    info["init"].append(("dflt", t.left.id, c))
                    return
            # any other `if` (e.g. Info's `if guidelineClass is not None: _guidelineDeprecation()`) may read but
            # must not write class names or class slots
            self.no_class_writes(st)
            return
        if isinstance(st, ast.Assign) and len(st.targets) == 1:
            tgt, val = st.targets[0], st.value
            a = _self_attr(tgt)
            if a is not None and a.endswith("Class"):
                if isinstance(val, ast.Name) and val.id in cparams:
                    info["init"].append(("store", a, val.id))
                    info["stores"].add(a)
                    return
                self.err(st, "class slot stored from something that is not a class parameter")
            if isinstance(tgt, ast.Name) and tgt.id in cparams:
                c = class_name_of(val)
                if c is None:
                    self.err(st, "class parameter reassigned to an unknown value")
                info["init"].append(("force", tgt.id, c))
                return
        self.no_class_writes(st)

    def no_class_writes(self, st):
        for n in ast.walk(st):
            targets = []
            if isinstance(n, (ast.Assign, ast.Delete)):
                targets = n.targets
            elif isinstance(n, (ast.AugAssign, ast.AnnAssign, ast.For, ast.NamedExpr)):
                targets = [n.target]
            elif isinstance(n, ast.With):
                targets = [i.optional_vars for i in n.items if i.optional_vars is not None]
            for t in targets:
                for x in ast.walk(t):
                    if (isinstance(x, ast.Name) and x.id.endswith("Class")) or (
                            isinstance(x, ast.Attribute) and x.attr.endswith("Class")):
                        self.err(st, "unrecognised write to a class name in __init__")

    # -- functions: creation sites ------------------------------------------------------
    def scan_function(self, fn, clsname, qual, alias, info):
        alias = self.aliases_in(fn.body, alias)
        params = set(x.arg for x in fn.args.args + fn.args.kwonlyargs)
        owner = clsname if clsname is not None else qual
        base_id = "%s.%s" % (clsname, qual) if clsname is not None else qual
        found = []
        is_init = clsname is not None and qual == "__init__"
        # simple local aliases: `cls = self._anchorClass` (a name bound exactly once, to a class slot / property /
        # self.__class__) may be used as a callee or as a class keyword value
        binds = {}
        for n in ast.walk(fn):
            targets = []
            if isinstance(n, ast.Assign):
                targets = n.targets
            elif isinstance(n, (ast.AugAssign, ast.AnnAssign, ast.For, ast.NamedExpr)):
                targets = [n.target]
            elif isinstance(n, ast.With):
                targets = [i.optional_vars for i in n.items if i.optional_vars is not None]
            for t in targets:
                for x in ast.walk(t):
                    if isinstance(x, ast.Name):
                        binds.setdefault(x.id, []).append(n)
        self._local = {}
        self._accounted = set()
        for name, nodes in binds.items():
            if len(nodes) == 1 and isinstance(nodes[0], ast.Assign) and len(nodes[0].targets) == 1 \
                    and isinstance(nodes[0].targets[0], ast.Name) and name not in params:
                a = _self_attr(nodes[0].value)
                if a is not None and _is_classy(a):
                    self._local[name] = ("sameClass",) if a == "__class__" else (("slot", a) if a.startswith("_") else ("prop", a))
                    self._accounted.add(id(nodes[0].value))
        g = self.simple_getter(fn)
        if g is not None:
            for n in ast.walk(fn):
                if isinstance(n, ast.Return) and n.value is not None:
                    self._accounted.add(id(n.value))

        def visit(node, qual_id):
            for child in ast.iter_child_nodes(node):
                if isinstance(child, (ast.FunctionDef, ast.AsyncFunctionDef, ast.Lambda)):
                    # nested function: same owner, same site namespace (closures over self)
                    visit(child, qual_id)
                    continue
                if isinstance(child, ast.ClassDef):
                    self.err(child, "class defined inside a function")
                self.check_node(child, alias, is_init, found, owner)
                visit(child, qual_id)
        visit(fn, base_id)
        # every other read of a class slot / class property / self.__class__ is an unrecognised shape
        for n in ast.walk(fn):
            if isinstance(n, ast.Attribute) and n.attr == "__name__" and _self_attr(n.value) == "__class__":
                self._accounted.add(id(n.value))     # `self.__class__.__name__` in a __repr__
        for n in ast.walk(fn):
            if isinstance(n, ast.Attribute) and isinstance(n.ctx, ast.Load):
                a = _self_attr(n)
                if a is not None and _is_classy(a) and id(n) not in self._accounted:
                    self.err(n, "class slot read in an unrecognised position")
            if isinstance(n, ast.Name) and isinstance(n.ctx, ast.Load) and n.id in self._local \
                    and id(n) not in self._accounted:
                self.err(n, "local class alias used in an unrecognised position")
        self._local = {}
        # number the sites of this function in source order
        found.sort(key=lambda f: (f["line"], f["col"]))
        plain = [f for f in found if f["kind"] == "call"]
        guards = [f for f in found if f["kind"] == "guard"]
        for group, suffix in ((plain, ""), (guards, "?isinstance")):
            for i, f in enumerate(group):
                sid = base_id + suffix + ("#%d" % (i + 1) if len(group) > 1 else "")
                self.sites.append(dict(id=sid, owner=owner, cls=f["cls"], kwargs=f["kwargs"], line=f["line"],
                                       end_line=f["end_line"], col=f["col"], file=self.rel, guard=f["kind"] == "guard", nargs=f["nargs"], star=f["star"]))

    def scan_loose(self, node, alias, owner):
        found = []
        for n in [node] + [x for x in ast.walk(node) if x is not node]:
            self.check_node(n, alias, False, found, owner)
        if found:
            self.err(node, "creation site outside a function")

    def class_expr(self, f, alias):
        """classify a callee / class-valued expression; None = not class related"""
        a = _self_attr(f)
        if a is not None:
            if a == "__class__":
                self._accounted.add(id(f))
                return ("sameClass",)
            if a.endswith("Class"):
                self._accounted.add(id(f))
                return ("slot", a) if a.startswith("_") else ("prop", a)
            return None
        if isinstance(f, ast.Name):
            if f.id in getattr(self, "_local", {}):
                self._accounted.add(id(f))
                return self._local[f.id]
            if f.id in alias:
                return ("hard", alias[f.id])
            if _is_classy(f.id):
                return ("unknown", ast.unparse(f))
            return None
        if isinstance(f, ast.Attribute):
            if f.attr in KNOWN:
                return ("hard", f.attr)
            if _is_classy(f.attr):
                return ("unknown", ast.unparse(f))
            return None
        if isinstance(f, ast.Call) and isinstance(f.func, ast.Name) and f.func.id == "type":
            return ("unknown", ast.unparse(f))
        return None

    def check_node(self, n, alias, is_init, found, owner):
        # writes to class slots outside __init__
        if not is_init and isinstance(n, (ast.Assign, ast.AugAssign, ast.AnnAssign, ast.Delete)):
            targets = n.targets if isinstance(n, (ast.Assign, ast.Delete)) else [n.target]
            for t in targets:
                for x in ast.walk(t):
                    if isinstance(x, ast.Attribute) and x.attr.startswith("_") and x.attr.endswith("Class"):
                        self.err(n, "class slot written outside __init__")
                    if isinstance(x, ast.Attribute) and x.attr == "__class__":
                        self.err(n, "__class__ assigned")
        if not isinstance(n, ast.Call):
            return
        f = n.func
        if isinstance(f, ast.Name) and f.id in ("setattr", "delattr") and len(n.args) >= 2:
            k = n.args[1]
            if isinstance(k, ast.Constant) and isinstance(k.value, str) and k.value.endswith("Class"):
                self.err(n, "class slot written through setattr")
        if isinstance(f, ast.Name) and f.id in ("isinstance", "issubclass") and len(n.args) == 2:
            ce = self.class_expr(n.args[1], alias)
            if ce is not None:
                if ce[0] == "unknown":
                    self.err(n, "isinstance against an unrecognised class expression")
                found.append(dict(kind="guard", cls=ce, kwargs=[], line=n.lineno, end_line=n.end_lineno or n.lineno,
                                  col=n.col_offset, nargs=0, star=False))
            elif _mentions_class(n.args[1]):
                self.err(n, "isinstance against an unrecognised class expression")
            return
        ce = self.class_expr(f, alias)
        class_kw = [k for k in n.keywords if k.arg is not None and k.arg.endswith("Class")]
        if ce is None:
            if class_kw:
                self.err(n, "class keyword passed to a call that is not a recognised creation site")
            return
        if ce[0] == "unknown":
            self.err(n, "call through an unrecognised class-valued expression")
        kwargs = []
        for k in class_kw:
            v = k.value
            a = _self_attr(v)
            if a is not None and a.endswith("Class"):
                self._accounted.add(id(v))
                kwargs.append((k.arg, ("slot", a) if a.startswith("_") else ("prop", a)))
            elif isinstance(v, ast.Name) and v.id in self._local and self._local[v.id][0] in ("slot", "prop"):
                self._accounted.add(id(v))
                kwargs.append((k.arg, self._local[v.id]))
            elif isinstance(v, ast.Constant) and v.value is None:
                kwargs.append((k.arg, ("none",)))
            else:
                kwargs.append((k.arg, ("other", ast.unparse(v))))
        star = any(k.arg is None for k in n.keywords) or any(isinstance(a, ast.Starred) for a in n.args)
        positional = len(n.args)
        found.append(dict(kind="call", cls=ce, kwargs=kwargs, line=n.lineno, end_line=n.end_lineno or n.lineno,
                          col=n.col_offset, nargs=positional, star=star))


def scan_repo(repo, with_entries=False):
    root = os.path.join(repo, "Lib", "defcon")
    if not os.path.isdir(os.path.join(root, "objects")):
        raise ExtractError("missing source directory %s/objects" % root)
    # every module of the package except its tests
    files = []
    for d, dirs, fns in os.walk(root):
        dirs[:] = sorted(x for x in dirs if x not in ("test", "__pycache__"))
        for fn in sorted(fns):
            if fn.endswith(".py"):
                files.append(os.path.relpath(os.path.join(d, fn), root))
    files.sort()
    sources = dict((rel, open(os.path.join(root, rel)).read()) for rel in files)
    # subclasses of the role classes defined inside defcon itself (to a fixed point, by name)
    DERIVED.clear()
    bases = {}
    for rel in files:
        for n in ast.walk(ast.parse(sources[rel])):
            if isinstance(n, ast.ClassDef) and n.name not in KNOWN:
                for b in n.bases:
                    bn = b.id if isinstance(b, ast.Name) else (b.attr if isinstance(b, ast.Attribute) else None)
                    if bn is not None:
                        bases.setdefault(n.name, []).append(bn)
    grew = True
    while grew:
        grew = False
        for name, bs in sorted(bases.items()):
            if name in DERIVED:
                continue
            for b in bs:
                if b in KNOWN or b in DERIVED:
                    DERIVED[name] = b if b in KNOWN else DERIVED[b]
                    grew = True
                    break
    classes, sites = {}, []
    for rel in files:
        ms = ModuleScan(rel, sources[rel])
        ms.run()
        for k, v in ms.classes.items():
            if k in classes:
                raise ExtractError("class %s defined twice" % k)
            classes[k] = v
        sites.extend(ms.sites)
    ids = [s["id"] for s in sites]
    if len(set(ids)) != len(ids):
        raise ExtractError("duplicate site id: %s" % sorted(i for i in ids if ids.count(i) > 1))
    if with_entries:
        return classes, sites, scan_entries(sources, sites)
    return classes, sites


# ----------------------------------------------------------------------------------------
# Entry points that accept an object (C15, `foreign_objects_converted`)
# ----------------------------------------------------------------------------------------

ENTRY_RE = re.compile(r"^(insert|append)[A-Z]")
# the list setters hand every element to an entry point
LIST_SETTERS = [("Glyph", "_set_anchors"), ("Glyph", "_set_guidelines"), ("Font", "_set_guidelines")]
# receivers other than `self` an entry point may forward to: attribute of self / local bound to `self.<attr>` -> class
RECEIVER_OWNER = {"_glyphSet": "Layer", "font": "Font"}


def _object_param(fn):
    """the parameter that carries the object: `insertAnchor(self, index, anchor)` -> "anchor"; `*args` -> "*" """
    a = fn.args
    if a.vararg is not None:
        return "*"
    names = [x.arg for x in a.args][1:]
    m = ENTRY_RE.match(fn.name)
    want = fn.name[len(m.group(1)):]
    want = want[0].lower() + want[1:]
    if want in names:
        return want
    return None


def _passes(call, P):
    """does the call hand the object itself over (as a positional / keyword argument, or by *args)?"""
    if P == "*":
        return any(isinstance(x, ast.Starred) and isinstance(x.value, ast.Name) and x.value.id == "args" for x in call.args)
    for x in list(call.args) + [k.value for k in call.keywords]:
        if isinstance(x, ast.Name) and x.id == P:
            return True
    return False


def classify_entry(rel, cls, fn, site_ids, methods):
    """-> ("adopt",) | ("convertUnless", guard id, factory id) | ("rebuild", factory id) | ("delegate", entry id)"""
    def err(msg, node=None):
        raise ExtractError("%s:%s: entry point %s.%s: %s" % (rel, getattr(node or fn, "lineno", "?"), cls, fn.name, msg))
    P = _object_param(fn)
    if P is None:
        err("cannot tell which parameter carries the object")
    names = {P}
    # aliases `source = glyph`
    rebinds = []
    for n in ast.walk(fn):
        if isinstance(n, ast.Assign):
            for t in n.targets:
                for x in ast.walk(t):
                    if isinstance(x, ast.Name) and x.id == P and isinstance(x.ctx, ast.Store):
                        rebinds.append(n)
            if len(n.targets) == 1 and isinstance(n.targets[0], ast.Name) and isinstance(n.value, ast.Name) \
                    and n.value.id == P and n.targets[0].id != P:
                names.add(n.targets[0].id)
        elif isinstance(n, (ast.AugAssign, ast.AnnAssign, ast.For, ast.NamedExpr, ast.Delete)):
            targets = n.targets if isinstance(n, ast.Delete) else [n.target]
            for t in targets:
                for x in ast.walk(t):
                    if isinstance(x, ast.Name) and x.id == P and isinstance(x.ctx, (ast.Store, ast.Del)):
                        err("the object parameter is rebound in an unrecognised way", n)
    # the conversion shape: `if not isinstance(P, <cls>): P = self.<factory>(kw=P)`
    convert = None
    for st in fn.body:
        if isinstance(st, ast.If) and isinstance(st.test, ast.UnaryOp) and isinstance(st.test.op, ast.Not):
            c = st.test.operand
            if isinstance(c, ast.Call) and isinstance(c.func, ast.Name) and c.func.id == "isinstance" and len(c.args) == 2 \
                    and isinstance(c.args[0], ast.Name) and c.args[0].id == P:
                if st.orelse or len(st.body) != 1 or convert is not None:
                    err("unrecognised conversion shape", st)
                b = st.body[0]
                if not (isinstance(b, ast.Assign) and len(b.targets) == 1 and isinstance(b.targets[0], ast.Name)
                        and b.targets[0].id == P and isinstance(b.value, ast.Call) and _self_attr(b.value.func) is not None
                        and _passes(b.value, P)):
                    err("unrecognised conversion shape", st)
                convert = (b, _self_attr(b.value.func))
    for n in rebinds:
        if convert is None or n is not convert[0]:
            err("the object parameter is rebound in an unrecognised way", n)
    guards = [n for n in ast.walk(fn) if isinstance(n, ast.Call) and isinstance(n.func, ast.Name)
              and n.func.id == "isinstance" and len(n.args) == 2 and isinstance(n.args[0], ast.Name) and n.args[0].id in names]
    if len(guards) != (1 if convert else 0):
        err("isinstance test of the object outside the conversion shape")
    stores, copies, forwards = [], [], []
    for n in ast.walk(fn):
        if not isinstance(n, ast.Call) or not isinstance(n.func, ast.Attribute):
            continue
        if not any(_passes(n, q) for q in names):
            continue
        f = n.func
        recv = f.value
        if f.attr in ("insert", "append") and _self_attr(recv) is not None and _self_attr(recv).startswith("_"):
            stores.append(n)                      # self._anchors.insert(index, anchor)
        elif f.attr == "copyDataFromGlyph" and isinstance(recv, ast.Name):
            copies.append((n, recv.id))           # dest.copyDataFromGlyph(glyph)
        elif isinstance(recv, ast.Name) and recv.id == "self":
            if convert is not None and n is convert[0].value:
                continue
            forwards.append((n, cls, f.attr))     # self.insertAnchor(len(..), anchor)
        elif _self_attr(recv) in RECEIVER_OWNER:
            forwards.append((n, RECEIVER_OWNER[_self_attr(recv)], f.attr))      # self._glyphSet.insertGlyph(glyph, ..)
        elif isinstance(recv, ast.Name) and recv.id in RECEIVER_OWNER:
            forwards.append((n, RECEIVER_OWNER[recv.id], f.attr))               # font.appendGuideline(*args, **kwargs)
        else:
            err("the object is handed to an unrecognised receiver", n)
    if stores:
        if len(stores) != 1 or copies:
            err("the object is stored more than once")
        if convert is not None:
            factory = "%s.%s" % (cls, convert[1])
            if factory not in site_ids:
                err("conversion through %s, which is not a creation site" % factory)
            return ("convertUnless", "%s.%s?isinstance" % (cls, fn.name), factory)
        return ("adopt",)
    if convert is not None:
        err("converted but never stored")
    if copies:
        # dest = self.<maker>(..); dest.copyDataFromGlyph(P); return dest
        if len(copies) != 1:
            err("copied more than once")
        if forwards:
            err("the object is copied and handed on as well", forwards[0][0])
        dest = copies[0][1]
        makers = [n for n in ast.walk(fn) if isinstance(n, ast.Assign) and len(n.targets) == 1
                  and isinstance(n.targets[0], ast.Name) and n.targets[0].id == dest]
        if len(makers) != 1 or not (isinstance(makers[0].value, ast.Call) and _self_attr(makers[0].value.func) is not None):
            err("the object the data are copied into is not made by a method of self")
        if any(_passes(makers[0].value, q) for q in names):
            err("the object is handed to the maker of its copy")
        maker = _self_attr(makers[0].value.func)
        factory = "%s.%s" % (cls, maker)
        if factory not in site_ids:
            inner = set()
            for n in ast.walk(methods.get((cls, maker)) or ast.Module(body=[], type_ignores=[])):
                if isinstance(n, ast.Call) and _self_attr(n.func) is not None and ("%s.%s" % (cls, _self_attr(n.func))) in site_ids:
                    inner.add("%s.%s" % (cls, _self_attr(n.func)))
            if len(inner) != 1:
                err("cannot tell which creation site %s uses" % factory)
            factory = inner.pop()
        return ("rebuild", factory)
    fw = [x for x in forwards if ENTRY_RE.match(x[2])]
    if len(fw) == 1 and len(forwards) == 1:
        return ("delegate", "%s.%s" % (fw[0][1], fw[0][2]))
    err("the object is neither stored, copied nor forwarded to another entry point")


def classify_list_setter(rel, cls, fn):
    """`for x in value: self.appendX(x)` -> ("delegate", "<cls>.appendX")"""
    params = [x.arg for x in fn.args.args][1:]
    found = []
    for n in ast.walk(fn):
        if isinstance(n, ast.For) and isinstance(n.target, ast.Name) and isinstance(n.iter, ast.Name) and n.iter.id in params:
            if len(n.body) == 1 and isinstance(n.body[0], ast.Expr) and isinstance(n.body[0].value, ast.Call):
                c = n.body[0].value
                if isinstance(c.func, ast.Attribute) and isinstance(c.func.value, ast.Name) and c.func.value.id == "self" \
                        and ENTRY_RE.match(c.func.attr) and len(c.args) == 1 and isinstance(c.args[0], ast.Name) \
                        and c.args[0].id == n.target.id and not c.keywords:
                    found.append("%s.%s" % (cls, c.func.attr))
                    continue
            raise ExtractError("%s:%d: list setter %s.%s: unrecognised loop" % (rel, n.lineno, cls, fn.name))
    if len(found) != 1:
        raise ExtractError("%s:%d: list setter %s.%s: unrecognised shape" % (rel, fn.lineno, cls, fn.name))
    return ("delegate", found[0])


def scan_entries(sources, sites):
    site_ids = set(s["id"] for s in sites)
    methods = {}
    trees = {}
    for rel in sorted(sources):
        if not rel.startswith("objects" + os.sep):
            continue
        trees[rel] = ast.parse(sources[rel])
        for c in trees[rel].body:
            if isinstance(c, ast.ClassDef):
                for fn in c.body:
                    if isinstance(fn, (ast.FunctionDef, ast.AsyncFunctionDef)):
                        methods[(c.name, fn.name)] = fn
    entries = []
    for rel in sorted(trees):
        for c in trees[rel].body:
            if not isinstance(c, ast.ClassDef):
                continue
            for fn in c.body:
                if not isinstance(fn, (ast.FunctionDef, ast.AsyncFunctionDef)):
                    continue
                if ENTRY_RE.match(fn.name):
                    how = classify_entry(rel, c.name, fn, site_ids, methods)
                elif (c.name, fn.name) in LIST_SETTERS:
                    how = classify_list_setter(rel, c.name, fn)
                else:
                    continue
                entries.append(dict(id="%s.%s" % (c.name, fn.name), owner=c.name, how=how, file=rel, line=fn.lineno))
    missing = [x for x in LIST_SETTERS if ("%s.%s" % x) not in set(e["id"] for e in entries)]
    if missing:
        raise ExtractError("list setters not found: %s" % missing)
    return entries


# ----------------------------------------------------------------------------------------
# Lean emission
# ----------------------------------------------------------------------------------------

def _q(s):
    return '"' + s.replace("\\", "\\\\").replace('"', '\\"') + '"'


def _src(x):
    if x[0] == "slot":
        return ".slot " + _q(x[1])
    if x[0] == "prop":
        return ".prop " + _q(x[1])
    if x[0] == "none":
        return ".none"
    return ".other"


def _cls(x):
    if x[0] == "slot":
        return ".slot " + _q(x[1])
    if x[0] == "prop":
        return ".prop " + _q(x[1])
    if x[0] == "sameClass":
        return ".sameClass"
    return ".hard " + _q(x[1])


def _how(h):
    if h[0] == "adopt":
        return ".adopt"
    return ".%s %s" % (h[0], " ".join(_q(x) for x in h[1:]))


def emit_lean(classes, sites, entries=()):
    out = []
    out.append("/- GENERATED by harness/extract_classwiring.py from $DEFCON_REPO/Lib/defcon on every run of ./check C15.")
    out.append("   Do not edit: the obligations of Props/C15.lean are re-checked over exactly this table. -/")
    out.append("import DefconModel.Classes")
    out.append("")
    out.append("namespace DefconModel.Gen.ClassWiring")
    out.append("open DefconModel.Classes")
    out.append("")
    out.append("def classes : List ClassDef := [")
    order = [c for c in ["Font", "LayerSet", "Layer", "Glyph", "Contour"] if c in classes] + sorted(
        c for c in classes if c not in OWNER_CANDIDATES)
    items = []
    for c in order:
        info = classes[c]
        init = []
        for st in info["init"]:
            if st[0] == "dflt":
                init.append(".dflt %s %s" % (_q(st[1]), _q(st[2])))
            elif st[0] == "force":
                init.append(".force %s %s" % (_q(st[1]), _q(st[2])))
            else:
                init.append(".store %s %s" % (_q(st[1]), _q(st[2])))
        items.append("  { name := %s,\n    params := [%s],\n    init := [%s],\n    props := [%s] }" % (
            _q(c), ", ".join(_q(p) for p in info["params"]),
            ",\n             ".join(init),
            ", ".join("(%s, %s)" % (_q(p), _q(a)) for p, a in info["props"])))
    out.append(",\n".join(items))
    out.append("]")
    out.append("")
    out.append("def sites : List Site := [")
    items = []
    for s in sites:
        items.append("  -- %s:%d\n  { id := %s, owner := %s, guard := %s, cls := %s, nargs := %d, star := %s,\n    kwargs := [%s] }" % (
            s["file"], s["line"], _q(s["id"]), _q(s["owner"]), "true" if s["guard"] else "false", _cls(s["cls"]),
            s["nargs"], "true" if s["star"] else "false",
            ", ".join("(%s, %s)" % (_q(k), _src(v)) for k, v in s["kwargs"])))
    out.append(",\n".join(items))
    out.append("]")
    out.append("")
    out.append("def entries : List Entry := [")
    out.append(",\n".join("  -- %s:%d\n  { id := %s, owner := %s, how := %s }" % (
        e["file"], e["line"], _q(e["id"]), _q(e["owner"]), _how(e["how"])) for e in entries))
    out.append("]")
    out.append("")
    out.append("def wiring : Wiring := { classes := classes, sites := sites, entries := entries }")
    out.append("")
    out.append("end DefconModel.Gen.ClassWiring")
    return "\n".join(out) + "\n"


def strip_lines(text):
    """the table without the `-- file:line` comments (line numbers move with unrelated edits)"""
    return "\n".join(l for l in text.split("\n") if not l.lstrip().startswith("-- "))


def extract(repo, lean_dir):
    classes, sites, entries = scan_repo(repo, with_entries=True)
    text = emit_lean(classes, sites, entries)
    path = os.path.join(lean_dir, "DefconModel", "Gen", "ClassWiring.lean")
    os.makedirs(os.path.dirname(path), exist_ok=True)
    old = open(path).read() if os.path.exists(path) else None
    changed = []
    if old is None or strip_lines(old) != strip_lines(text):
        with open(path, "w") as f:
            f.write(text)
        changed.append("Gen/ClassWiring.lean")
    info = dict(table="Gen/ClassWiring.lean", classes=len(classes), sites=len(sites), entries=len(entries),
                hardcoded=[s["id"] for s in sites if s["cls"][0] == "hard"],
                same_class=[s["id"] for s in sites if s["cls"][0] == "sameClass"],
                obligations=0)
    return changed, info


if __name__ == "__main__":
    import sys
    c, s, e = scan_repo(sys.argv[1] if len(sys.argv) > 1 else os.environ.get("DEFCON_REPO", "/repo"), with_entries=True)
    sys.stdout.write(emit_lean(c, s, e))
