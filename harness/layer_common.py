"""Shared by C07 and C09: correspondence of M-Layer / M-Layers with defcon.Layer and a shadow-spec oracle.

A case = glyph records on disk (default layer `disk`, further layers `extra`) + variant (how much is read before
the ops / memory-only twin) + operations.  An operation `["on", L, op]` addresses layer L through the Layer API;
a bare operation goes through the Font API where there is one (font[n], font.newGlyph, font.insertGlyph,
del font[n], font.unicodeData) and so reaches whichever layer is the default one at that moment.  After every
op all layer-level queries of the addressed layer are compared.
"""
import os
import plistlib
import shutil
import tempfile

from sexp import Atom, opt

NAMES = ["A", "B", "C", "D", "E", "F", "a.alt", "f_i"]
CODES = [65, 66, 67, 97, 0xE000]
IMAGES = ["i1.png", "i2.png"]
VARIANTS = ["unread", "partial", "full", "memory"]
DEFAULT = "fg"                      # name of the default layer of a case with several layers
EXTRA_LAYERS = ["bg", "sk"]
# names for pseudoUnicodeForGlyphName: suffixed / ligature names whose base is one of NAMES, and names it refuses
PSEUDO_PROBES = NAMES + ["A.sc", "B_C.liga", "D.x_y", ".A", "_B", "Z.alt", "E_"]

# outline kinds: 0 none; 2 closed line contour;
# 1 single move point, 3 off-curve only contour: len(glyph) > 0 but no point ends a segment.  The loaded path of
# glyphsWithOutlines used to list these and the fast GLIF scan did not (finding F33, repaired in /repo: both apply
# the scan's test); they stay in the generator, in every case now.
COHERENT_KINDS = [0, 2]
INCOHERENT_KINDS = [1, 3]


def kind_flags(kind):
    return (kind != 0, kind == 2)


def is_multi(case):
    return bool(case.get("multi"))


def default_name(case):
    return DEFAULT if is_multi(case) else ""


def unwrap(op):
    """(layer name or None, inner op)"""
    if op[0] == "on":
        return op[1], op[2]
    return None, op


def inner_kind(op):
    return unwrap(op)[1][0]


# ---------------------------------------------------------------------------------------
# generation
# ---------------------------------------------------------------------------------------

BASES = ["A", "B", "C"]            # never carry components
COMPOSITES = ["D", "E", "F", "a.alt", "f_i"]   # may reference BASES only: the component graph stays acyclic


def gen_unicodes(rng, lo, hi, dup_rate):
    us = rng.sample(CODES, rng.randint(lo, hi))
    if us and dup_rate and rng.random() < dup_rate:
        # a list that repeats a code point (the setter keeps it as it is)
        for _ in range(rng.randint(1, 2)):
            us.insert(rng.randrange(len(us) + 1), rng.choice(us))
    return us


def gen_rec(rng, name, incoherent=False, uni_rate=0.6, dup_rate=0.0):
    us = []
    if rng.random() < uni_rate:
        us = gen_unicodes(rng, 1, 2, dup_rate)
    comps = []
    if name in COMPOSITES and rng.random() < 0.5:
        comps = [rng.choice(BASES) for _ in range(rng.randint(1, 2))]
    image = rng.choice(IMAGES) if rng.random() < 0.25 else None
    kinds = COHERENT_KINDS + (INCOHERENT_KINDS if incoherent else [])
    return dict(unicodes=us, comps=comps, image=image, kind=rng.choice(kinds))


def gen_layer_ops(rng, present, nops, uni_weight, incoherent, opts, unis):
    """ops on ONE layer over NAMES; `present` = the names the layer shows (updated); `unis` = name -> current list
    (as far as the generator knows it; only used to build re-assignments that reorder or repeat)"""
    ops = []
    dup_rate = opts.get("dup_rate", 0.0)
    for _ in range(nops):
        r = rng.random()
        name = rng.choice(NAMES)
        if rng.random() < 0.03 * uni_weight:
            rec = gen_rec(rng, name, incoherent)
            ops.append(["reload", name, rec])
            if name in present:
                unis[name] = list(rec["unicodes"])
            continue
        if opts.get("lookup_pre") and rng.random() < opts["lookup_pre"]:
            q = rng.random()
            if q < 0.4:
                ops.append(["rev", rng.choice(CODES)])
            elif q < 0.7:
                ops.append(["fwd", rng.choice(NAMES)])
            else:
                ops.append(["pseudo", rng.choice(PSEUDO_PROBES)])
            continue
        if opts.get("save_pre") and rng.random() < opts["save_pre"]:
            ops.append(["save"])
            continue
        if r < 0.09:
            ops.append(["get", name])
        elif r < 0.20:
            ops.append(["new", name])
            present.add(name)
            unis[name] = []
        elif r < 0.30:
            rec = gen_rec(rng, name, incoherent, dup_rate=dup_rate)
            ops.append(["insert", name, rec])
            present.add(name)
            unis[name] = list(rec["unicodes"])
        elif r < 0.43:
            ops.append(["delete", name])
            present.discard(name)
            unis.pop(name, None)
        elif r < 0.56:
            cls = BASES if name in BASES else COMPOSITES
            free = [n for n in cls if n not in present]
            taken = [n for n in cls if n in present and n != name]
            if name in present and taken and rng.random() < opts.get("rename_onto_rate", 0.0):
                # onto a name that is present: the glyph there is replaced
                new = rng.choice(taken)
            elif name in present and free:
                new = rng.choice(free)
            else:
                new = name
            ops.append(["rename", name, new])
            if name in present and new != name:
                present.discard(name)
                present.add(new)
                unis[new] = unis.pop(name, [])
        elif r < 0.56 + 0.15 * uni_weight:
            cur = list(unis.get(name, []))
            if cur and rng.random() < opts.get("reassign_rate", 0.0):
                # a re-assignment that only reorders, only adds a repetition, or only drops one
                how = rng.choice(["reverse", "repeat", "dedup", "rotate"])
                if how == "reverse":
                    us = cur[::-1]
                elif how == "repeat":
                    us = cur + [rng.choice(cur)]
                elif how == "dedup":
                    us = sorted(set(cur), key=cur.index)
                else:
                    us = cur[1:] + cur[:1]
            else:
                us = gen_unicodes(rng, 0, 2, dup_rate)
            q = rng.random()
            if q < opts.get("setter_rate", 0.0):
                v = rng.choice(CODES + [None])
                ops.append(["setUnicode", name, v])
                us = [] if v is None else [v]
            elif q < opts.get("setter_rate", 0.0) + opts.get("via_rate", 0.0):
                # read-modify-write on the list the getter hands out, or a scribble on it that is never assigned
                if rng.random() < 0.7:
                    ops.append(["setUnicodesVia", name, us])
                else:
                    ops.append(["scribble", name, us])
                    us = cur
            else:
                ops.append(["setUnicodes", name, us])
            if name in present:
                unis[name] = list(us)
        elif r < 0.80:
            rec = gen_rec(rng, name, incoherent)
            ops.append(["edit", name, rec["comps"], rec["image"], rec["kind"]])
        elif r < 0.84:
            ops.append(["setWidth", name, rng.choice([100, 250, 640])])
        elif r < 0.87:
            if rng.random() < opts.get("bounds_rate", 0.0):
                ops.append(["bounds", name])
            else:
                ops.append(["readOutline", name])
        elif r < 0.91:
            ops.append(["save"])
        elif r < 0.94:
            # another program rewrites the glyph's file (new unicodes, components, image, outline) and the layer is told
            # to reload it - whether or not the glyph has been read; where there is no file to rewrite (memory-only twin,
            # glyph not saved yet) the same content is assigned in memory
            rec = gen_rec(rng, name, incoherent)
            ops.append(["reload", name, rec])
            if name in present:
                unis[name] = list(rec["unicodes"])
        elif rng.random() < opts.get("lookup_rate", 0.0):
            q = rng.random()
            if q < 0.4:
                ops.append(["rev", rng.choice(CODES)])
            elif q < 0.7:
                ops.append(["fwd", rng.choice(NAMES)])
            else:
                ops.append(["pseudo", rng.choice(PSEUDO_PROBES)])
        else:
            ops.append(["touchUni"])
    return ops


READS_MAP = ("touchUni", "rev", "fwd", "pseudo")


def gen_ops(rng, disk_names, nops, uni_weight, incoherent, opts=None, disk_unis=None):
    """single layer (the default one), first access to the unicode data at a random position"""
    opts = opts or {}
    present = set(disk_names)
    unis = dict(disk_unis or {})
    ops = gen_layer_ops(rng, present, nops, uni_weight, incoherent, opts, unis)
    if not any(o[0] in READS_MAP for o in ops) and rng.random() < 0.8:
        ops.insert(rng.randrange(len(ops) + 1), ["touchUni"])
    return ops


def cached_then_edited(rng, disk):
    """a derived answer is asked for, something it depends on is edited, it is asked for again: the bounds of a
    composite glyph before and after an edit of the outline of its base glyph"""
    comps = [(n, rec) for n, rec in disk if rec["comps"]]
    if not comps:
        return []
    names = set(n for n, _ in disk)
    # rather a composite whose base glyph is in the font
    comps = [(n, rec) for n, rec in comps if any(b in names for b in rec["comps"])] or comps
    n, rec = rng.choice(comps)
    base = rng.choice([b for b in rec["comps"] if b in names] or rec["comps"])
    cur = dict((a, b) for a, b in disk).get(base)
    kinds = [k for k in COHERENT_KINDS if cur is None or k != cur["kind"]]
    newkind = rng.choice(kinds)
    image = None if cur is None else cur["image"]
    pre = [["get", base]] if rng.random() < 0.3 else []
    return pre + [["bounds", n], ["edit", base, [], image, newkind], ["bounds", n]]


def gen_group(rng, maxops, uni_weight=1.0, incoherent_rate=0.1, opts=None):
    """one content + op list, yielded in all four variants"""
    opts = opts or {}
    incoherent = rng.random() < incoherent_rate
    disk_names = rng.sample(NAMES, rng.randint(0, 6))
    disk = [[n, gen_rec(rng, n, incoherent)] for n in disk_names]
    pre = [n for n in disk_names if rng.random() < 0.5]
    rng.shuffle(pre)
    multi = bool(opts.get("multi_rate")) and rng.random() < opts["multi_rate"]
    if not multi:
        ops = gen_ops(rng, disk_names, rng.randint(3, maxops), uni_weight, incoherent, opts,
                      {n: list(r["unicodes"]) for n, r in disk})
        if opts.get("scenario_rate") and rng.random() < opts["scenario_rate"]:
            sc = cached_then_edited(rng, disk)
            k = rng.randrange(len(ops) + 1)
            ops[k:k] = sc
        for v in VARIANTS:
            yield dict(disk=disk, variant=v, preread=pre if v == "partial" else (sorted(disk_names) if v == "full" else []),
                       ops=ops, incoherent=incoherent)
        return
    # several layers: each has its own glyphs (same names, other code points) and its own unicode data
    extra = []
    for ln in EXTRA_LAYERS[:rng.randint(1, 2)]:
        names = rng.sample(NAMES, rng.randint(0, 4))
        extra.append([ln, [[n, gen_rec(rng, n, incoherent)] for n in names]])
    layers = {DEFAULT: (set(disk_names), {n: list(r["unicodes"]) for n, r in disk})}
    for ln, gl in extra:
        layers[ln] = (set(n for n, _ in gl), {n: list(r["unicodes"]) for n, r in gl})
    default = DEFAULT
    ops = []
    fresh = [ln for ln in EXTRA_LAYERS if ln not in layers]
    for _ in range(rng.randint(3, maxops)):
        r = rng.random()
        if r < 0.08 and len(layers) > 1:
            default = rng.choice(sorted(layers))
            ops.append(["setDefault", default])
            continue
        if r < 0.11 and fresh:
            ln = fresh.pop(0)
            layers[ln] = (set(), {})
            ops.append(["newLayer", ln])
            continue
        if r < 0.17:
            ops.append(["save"])
            continue
        ln = rng.choice(sorted(layers))
        present, unis = layers[ln]
        one = gen_layer_ops(rng, present, 1, uni_weight, incoherent, opts, unis)[0]
        if one[0] == "save":
            one = ["touchUni"]
        if ln == default and rng.random() < 0.5:
            ops.append(one)                       # through the Font API
        else:
            ops.append(["on", ln, one])
    if not any(inner_kind(o) in READS_MAP for o in ops) and rng.random() < 0.8:
        ln = rng.choice([DEFAULT] + [e[0] for e in extra])
        ops.insert(0 if rng.random() < 0.3 else rng.randrange(len(ops) + 1), ["on", ln, ["touchUni"]])
    pre_extra = {ln: [n for n, _ in gl if rng.random() < 0.5] for ln, gl in extra}
    for v in VARIANTS:
        yield dict(disk=disk, extra=extra, multi=True, variant=v,
                   preread=pre if v == "partial" else (sorted(disk_names) if v == "full" else []),
                   preread_extra={ln: (pre_extra[ln] if v == "partial" else (sorted(n for n, _ in gl) if v == "full" else []))
                                  for ln, gl in extra},
                   ops=ops, incoherent=incoherent)


# ---------------------------------------------------------------------------------------
# model side
# ---------------------------------------------------------------------------------------

def dedup(us):
    us = list(us)
    return sorted(set(us), key=us.index)


def enc_rec(rec):
    ol, of = kind_flags(rec["kind"])
    return [list(rec["unicodes"]), list(rec["comps"]), opt(rec["image"]), ol, of]


def enc_inner(op):
    k = op[0]
    if k in ("get", "new", "delete"):
        return [Atom(k), op[1]]
    if k == "insert":
        return [Atom("insert"), op[1], enc_rec(op[2])]
    if k == "rename":
        return [Atom("rename"), op[1], op[2]]
    if k in ("setUnicodes", "setUnicodesVia"):
        return [Atom("setUnicodes"), op[1], list(op[2])]
    if k == "setUnicode":
        return [Atom("setUnicode"), op[1], opt(op[2])]
    if k == "scribble":
        return [Atom("get"), op[1]]
    if k == "edit":
        ol, of = kind_flags(op[4])
        return [Atom("edit"), op[1], list(op[2]), opt(op[3]), ol, of]
    if k in ("save", "touchUni"):
        return [Atom(k)]
    if k == "reload":
        # what glifLib reads from a file never repeats a code point
        rec = dict(op[2], unicodes=dedup(op[2]["unicodes"]))
        return [Atom("reload"), op[1], enc_rec(rec)]
    if k in ("readOutline", "bounds"):
        return [Atom("get"), op[1]]
    if k == "setWidth":
        return [Atom("touch"), op[1]]
    if k in ("fwd", "pseudo"):
        return [Atom(k), op[1]]
    if k == "rev":
        return [Atom("rev"), op[1]]
    raise ValueError(op)


def enc_op(op):
    k = op[0]
    if k == "on":
        return [Atom("on"), op[1], enc_inner(op[2])]
    if k in ("setDefault", "newLayer"):
        return [Atom(k), op[1]]
    return enc_inner(op)


def setup_ops(case):
    """the operations that bring the font into the case's starting state (reads / the memory-only twin's inserts)"""
    seq = []
    if case["variant"] == "memory":
        for n, rec in case["disk"]:
            seq.append(["insert", n, rec])
        for ln, gl in case.get("extra", []):
            for n, rec in gl:
                seq.append(["on", ln, ["insert", n, rec]])
    else:
        for n in case["preread"]:
            seq.append(["get", n])
        for ln, _ in case.get("extra", []):
            for n in case.get("preread_extra", {}).get(ln, []):
                seq.append(["on", ln, ["get", n]])
    return seq


def model_lines(case):
    lines = []
    mem = case["variant"] == "memory"

    def enc_disk(gl):
        return [] if mem else [[n, enc_rec(rec)] for n, rec in gl]
    if is_multi(case):
        lines.append([Atom("initf"), DEFAULT, [[DEFAULT, enc_disk(case["disk"])]] +
                      [[ln, enc_disk(gl)] for ln, gl in case.get("extra", [])]])
    else:
        lines.append([Atom("init"), enc_disk(case["disk"])])
    for op in setup_ops(case) + list(case["ops"]):
        lines.append(enc_op(op))
    return lines


# ---------------------------------------------------------------------------------------
# implementation side
# ---------------------------------------------------------------------------------------

def draw_kind(pen, kind):
    if kind == 1:
        pen.beginPath()
        pen.addPoint((10, 10), "move")
        pen.endPath()
    elif kind == 2:
        pen.beginPath()
        pen.addPoint((0, 0), "line")
        pen.addPoint((100, 0), "line")
        pen.addPoint((50, 80), "line")
        pen.endPath()
    elif kind == 3:
        pen.beginPath()
        pen.addPoint((0, 0), None)
        pen.addPoint((100, 0), None)
        pen.addPoint((50, 80), None)
        pen.endPath()


def image_dict(fileName):
    return dict(fileName=fileName, xScale=1, xyScale=0, yxScale=0, yScale=1, xOffset=0, yOffset=0, color=None)


class _G(object):
    pass


def _write_glyph(gs, n, rec):
    g = _G()
    g.width = 500
    g.unicodes = list(rec["unicodes"])
    if rec["image"] is not None:
        g.image = image_dict(rec["image"])
        del g.image["color"]

    def draw(pen, rec=rec):
        draw_kind(pen, rec["kind"])
        for b in rec["comps"]:
            pen.addComponent(b, (1, 0, 0, 1, 0, 0))
    gs.writeGlyph(n, g, draw)


def write_ufo(path, disk, extra=None, default=None):
    """written with ufoLib only (independent of defcon)"""
    from fontTools.ufoLib import UFOWriter
    w = UFOWriter(path)
    if extra is None:
        gs = w.getGlyphSet()
        for n, rec in disk:
            _write_glyph(gs, n, rec)
        gs.writeContents()
        w.writeLayerContents()
    else:
        order = [default]
        gs = w.getGlyphSet(layerName=default, defaultLayer=True)
        for n, rec in disk:
            _write_glyph(gs, n, rec)
        gs.writeContents()
        for ln, gl in extra:
            gs = w.getGlyphSet(layerName=ln, defaultLayer=False)
            for n, rec in gl:
                _write_glyph(gs, n, rec)
            gs.writeContents()
            order.append(ln)
        w.writeLayerContents(order)
    w.close()


def layer_dir(ufo, layer_name):
    """the directory of a layer, from layercontents.plist as it stands (a save after a change of default layer moves them)"""
    p = os.path.join(ufo, "layercontents.plist")
    if os.path.exists(p):
        with open(p, "rb") as f:
            for ln, d in plistlib.load(f):
                if ln == layer_name:
                    return os.path.join(ufo, d)
    return os.path.join(ufo, "glyphs")


def write_one_glif(glyphs_dir, name, rec):
    """another program rewrites the file of a glyph that the glyph set lists (ufoLib only; contents.plist untouched)"""
    from fontTools.ufoLib.glifLib import GlyphSet
    gs = GlyphSet(glyphs_dir)
    assert name in gs.contents
    _write_glyph(gs, name, rec)
    gs.close() if hasattr(gs, "close") else None


def apply_rec(glyph, rec, with_unicodes=True):
    if with_unicodes:
        glyph.unicodes = list(rec["unicodes"])
    glyph.clearComponents()
    for b in rec["comps"]:
        c = glyph.instantiateComponent()
        c.baseGlyph = b
        glyph.appendComponent(c)
    glyph.image = None if rec["image"] is None else image_dict(rec["image"])
    glyph.clearContours()
    draw_kind(glyph.getPointPen(), rec["kind"])


def _bounds_pair(g):
    def t(b):
        return None if b is None else list(b)
    return [t(g.bounds), t(g.controlPointBounds)]


def twin_bounds(content, name):
    """the bounds of glyph `name` in a font that holds `content` purely in memory (built through the API)"""
    from defcon import Font
    f = Font()
    keep = []
    for n in sorted(content, key=lambda x: (x not in BASES, x)):
        g = f.newGlyph(n)
        apply_rec(g, content[n])
        keep.append(g)
    return _bounds_pair(f[name])


class Impl(object):
    def __init__(self, case, tmpd):
        from defcon import Font
        self.tmpd = tmpd
        self.keep = []          # keep every object alive
        self.unilists = {}
        self.reloaded = 0
        self.reloaded_unread = 0
        self.touched = set()    # layers whose unicode data have been asked for
        self.case = case
        self.multi = is_multi(case)
        self.last_bounds = None
        self.last_lookup = None
        if case["variant"] == "memory":
            self.font = Font()
            if self.multi:
                self.font.layers.defaultLayer.name = DEFAULT
                for ln, _ in case.get("extra", []):
                    self.keep.append(self.font.newLayer(ln))
        else:
            path = os.path.join(tmpd, "f.ufo")
            if self.multi:
                write_ufo(path, case["disk"], case.get("extra", []), DEFAULT)
            else:
                write_ufo(path, case["disk"])
            self.font = Font(path)
        for l in self.font.layers:
            self.keep.append(l)

    def layer_of(self, lname):
        if lname is None:
            return self.font.layers.defaultLayer
        return self.font.layers[lname]

    def key_of(self, layer):
        return layer.name if self.multi else ""

    def snapshot(self, status, layer=None, via_font=False):
        if layer is None:
            layer = self.font.layers.defaultLayer
        keys = [Atom("set")] + sorted(layer.keys())
        comps = set()
        for base, refs in layer.componentReferences.items():
            for r in refs:
                comps.add((base, r))
        images = set()
        for fn, refs in layer.imageReferences.items():
            for r in refs:
                images.add((fn, r))
        outl = [Atom("set")] + sorted(set(layer.glyphsWithOutlines))
        self.last_outlines = outl[1:]
        if self.key_of(layer) in self.touched:
            # an operation that went through the Font API is followed by a look at font.unicodeData
            ud = self.font.unicodeData if via_font else layer.unicodeData
            uni = [Atom("set")] + [[c, [Atom("set")] + list(names)] for c, names in ud.items()]
        else:
            uni = Atom("none")
        # len / contains / iteration agree with keys()
        assert len(layer) == len(layer.keys())
        return [status,
                [Atom("keys"), keys],
                [Atom("comps"), [Atom("set")] + [[b, r] for b, r in sorted(comps)]],
                [Atom("images"), [Atom("set")] + [[f, r] for f, r in sorted(images)]],
                [Atom("outlines"), outl],
                [Atom("uni"), uni]]

    def do(self, op):
        lname, inner = unwrap(op)
        k = inner[0]
        font = self.font
        via_font = lname is None
        self.last_lookup = None
        self.last_bounds = None
        if k == "setDefault":
            layer = font.layers[inner[1]]
            font.layers.defaultLayer = layer
            assert font.layers.defaultLayer is layer
            # what font.unicodeData shows from now on is the new default layer's map
            return self.snapshot(Atom("ok"), layer, via_font=True)
        if k == "newLayer":
            layer = font.newLayer(inner[1])
            self.keep.append(layer)
            return self.snapshot(Atom("ok"), layer)
        layer = self.layer_of(lname)
        status = Atom("ok")
        try:
            if k == "get":
                self.keep.append(font[inner[1]] if via_font else layer[inner[1]])
            elif k == "new":
                if inner[1] in layer._glyphs:
                    self.keep.append(layer._glyphs[inner[1]])
                self.keep.append(font.newGlyph(inner[1]) if via_font else layer.newGlyph(inner[1]))
            elif k == "insert":
                from defcon import Glyph
                src = Glyph()
                src.name = "src"
                apply_rec(src, inner[2])
                self.keep.append(src)
                if inner[1] in layer._glyphs:
                    self.keep.append(layer._glyphs[inner[1]])
                if via_font:
                    self.keep.append(font.insertGlyph(src, name=inner[1]))
                else:
                    self.keep.append(layer.insertGlyph(src, name=inner[1]))
            elif k == "delete":
                if inner[1] in layer._glyphs:
                    self.keep.append(layer._glyphs[inner[1]])
                if via_font:
                    del font[inner[1]]
                else:
                    del layer[inner[1]]
            elif k == "rename":
                g = layer[inner[1]]
                self.keep.append(g)
                if inner[2] in layer._glyphs:
                    self.keep.append(layer._glyphs[inner[2]])
                g.name = inner[2]
            elif k == "setUnicodes":
                g = layer[inner[1]]
                self.keep.append(g)
                # the caller keeps ONE list object per glyph object, edits it in place and assigns it again: the glyph
                # must have taken a copy, or the comparison with the "old" value sees no change
                lst = self.unilists.setdefault(id(g), [])
                lst[:] = list(inner[2])
                g.unicodes = lst
            elif k == "setUnicodesVia":
                # read - modify in place - write: the list the getter hands out must be the caller's own
                g = layer[inner[1]]
                self.keep.append(g)
                lst = g.unicodes
                lst[:] = list(inner[2])
                g.unicodes = lst
            elif k == "scribble":
                # the caller scribbles on the list the getter handed out and never assigns it: nothing may change
                g = layer[inner[1]]
                self.keep.append(g)
                lst = g.unicodes
                lst[:] = list(inner[2])
                self.keep.append(lst)
            elif k == "setUnicode":
                g = layer[inner[1]]
                self.keep.append(g)
                g.unicode = inner[2]
            elif k == "edit":
                g = layer[inner[1]]
                self.keep.append(g)
                apply_rec(g, dict(comps=inner[2], image=inner[3], kind=inner[4]), with_unicodes=False)
                g.dirty = True
            elif k == "setWidth":
                g = layer[inner[1]]
                self.keep.append(g)
                g.width = inner[2]
            elif k == "reload":
                name, rec = inner[1], inner[2]
                if name not in layer:
                    raise KeyError(name)
                gs = layer._glyphSet
                if font.path is not None and gs is not None and name in gs.contents and os.path.isdir(font.path):
                    # the glyph is NOT read first: reloadGlyphs has to cope with glyphs that have and have not been read
                    if name in layer._glyphs:
                        self.keep.append(layer._glyphs[name])
                    else:
                        self.reloaded_unread += 1
                    write_one_glif(layer_dir(font.path, layer.name), name, rec)
                    layer.reloadGlyphs([name])
                    self.keep.append(layer[name])
                    self.reloaded += 1
                else:
                    g = layer[name]
                    self.keep.append(g)
                    g.unicodes = dedup(rec["unicodes"])
                    apply_rec(g, rec, with_unicodes=False)
                    g.width = 500
                    g.dirty = True
            elif k == "readOutline":
                g = layer[inner[1]]
                self.keep.append(g)
                len(g)
                g.bounds
            elif k == "bounds":
                g = layer[inner[1]]
                self.keep.append(g)
                self.last_bounds = _bounds_pair(g)
            elif k == "save":
                if font.path is None:
                    font.save(os.path.join(self.tmpd, "m.ufo"))
                else:
                    font.save()
            elif k == "touchUni":
                self.touched.add(self.key_of(layer))
                ud = font.unicodeData if via_font else layer.unicodeData
                self.keep.append(ud)
            elif k in ("fwd", "pseudo"):
                self.touched.add(self.key_of(layer))
                ud = font.unicodeData if via_font else layer.unicodeData
                v = ud.unicodeForGlyphName(inner[1]) if k == "fwd" else ud.pseudoUnicodeForGlyphName(inner[1])
                self.last_lookup = v
                status = [Atom("ok"), opt(v)]
            elif k == "rev":
                self.touched.add(self.key_of(layer))
                ud = font.unicodeData if via_font else layer.unicodeData
                c = inner[1]
                res = ud.glyphNameForUnicode(c)
                lst = list(ud.get(c) or [])
                has = c in ud
                self.last_lookup = (res, has)
                ans = Atom("none") if (res is None and not lst) else (Atom("member") if res in lst else Atom("bad"))
                status = [Atom("ok"), bool(has), ans]
            else:
                raise ValueError(op)
        except KeyError:
            status = [Atom("err"), Atom("KeyError")]
        return self.snapshot(status, layer, via_font=via_font)


# ---------------------------------------------------------------------------------------
# shadow specification (abstract content) and oracle
# ---------------------------------------------------------------------------------------

def spec_base(n):
    """the name pseudoUnicodeForGlyphName falls back to (its documented rule), None where it gives up"""
    if n.startswith(".") or n.startswith("_"):
        return None
    if "." not in n and "_" not in n:
        return None
    return n.split(".")[0].split("_")[0]


class Shadow(object):
    def __init__(self, case):
        mem = case["variant"] == "memory"
        self.multi = is_multi(case)
        self.default = default_name(case)
        self.layers = {self.default: {} if mem else {n: dict(rec, width=500) for n, rec in case["disk"]}}
        for ln, gl in case.get("extra", []):
            self.layers[ln] = {} if mem else {n: dict(rec, width=500) for n, rec in gl}
        self.touched = set()
        self.cur = self.default

    @property
    def g(self):
        return self.layers[self.default]

    def do(self, op):
        lname, inner = unwrap(op)
        k = inner[0]
        if k == "setDefault":
            self.default = inner[1]
            self.cur = inner[1]
            return True
        if k == "newLayer":
            self.layers[inner[1]] = {}
            self.cur = inner[1]
            return True
        ln = self.default if lname is None else lname
        self.cur = ln
        g = self.layers[ln]
        if k == "get":
            return inner[1] in g
        if k == "new":
            g[inner[1]] = dict(unicodes=[], comps=[], image=None, kind=0, width=0)
        elif k == "insert":
            g[inner[1]] = dict(inner[2], width=0)
        elif k == "delete":
            if inner[1] not in g:
                return False
            del g[inner[1]]
        elif k == "rename":
            if inner[1] not in g:
                return False
            if inner[1] != inner[2]:
                g[inner[2]] = g.pop(inner[1])      # a glyph stored under the new name is replaced
        elif k in ("setUnicodes", "setUnicodesVia"):
            if inner[1] not in g:
                return False
            g[inner[1]] = dict(g[inner[1]], unicodes=list(inner[2]))
        elif k == "setUnicode":
            if inner[1] not in g:
                return False
            g[inner[1]] = dict(g[inner[1]], unicodes=[] if inner[2] is None else [inner[2]])
        elif k == "scribble":
            return inner[1] in g
        elif k == "edit":
            if inner[1] not in g:
                return False
            g[inner[1]] = dict(g[inner[1]], comps=list(inner[2]), image=inner[3], kind=inner[4])
        elif k == "setWidth":
            if inner[1] not in g:
                return False
            g[inner[1]] = dict(g[inner[1]], width=inner[2])
        elif k == "reload":
            if inner[1] not in g:
                return False
            g[inner[1]] = dict(inner[2], unicodes=dedup(inner[2]["unicodes"]), width=500)
        elif k in ("readOutline", "bounds"):
            return inner[1] in g
        elif k in READS_MAP:
            self.touched.add(ln)
        return True

    def expected(self):
        g = self.layers[self.cur]
        keys = sorted(g)
        comps = sorted({(b, n) for n, r in g.items() for b in r["comps"]})
        images = sorted({(r["image"], n) for n, r in g.items() if r["image"] is not None})
        outl = sorted(n for n, r in g.items() if r["kind"] == 2)
        uni = None
        if self.cur in self.touched:
            uni = {}
            for n, r in g.items():
                for c in r["unicodes"]:
                    uni.setdefault(c, set()).add(n)
        return dict(keys=keys, comps=comps, images=images, outlines=outl, uni=uni)

    def first_code(self, layer_name, n):
        r = self.layers[layer_name].get(n)
        if r is None or not r["unicodes"]:
            return None
        return r["unicodes"][0]


def read_back(path, layer_name=None):
    """{name: (unicodes, comps, image, kind, width)} of a layer (the default one if not named), read with ufoLib only"""
    from fontTools.ufoLib import UFOReader
    res = {}
    with UFOReader(path, validate=False) as r:
        gs = r.getGlyphSet(layer_name) if layer_name else r.getGlyphSet()
        for n in gs.keys():
            o = _G()
            o.width = 0
            o.unicodes = []
            o.image = None

            class P(object):
                def __init__(s):
                    s.comps = []
                    s.contours = []

                def beginPath(s, **k):
                    s.cur = []

                def addPoint(s, pt, segmentType=None, **k):
                    s.cur.append(segmentType)

                def endPath(s):
                    s.contours.append(s.cur)

                def addComponent(s, base, tr, **k):
                    s.comps.append(base)
            pen = P()
            gs.readGlyph(n, o, pen)
            if not pen.contours:
                kind = 0
            elif any(t in ("line", "curve", "qcurve") for c in pen.contours for t in c):
                kind = 2
            elif any(t == "move" for c in pen.contours for t in c):
                kind = 1
            else:
                kind = 3
            res[n] = (list(o.unicodes or []), pen.comps, (o.image or {}).get("fileName"), kind, int(o.width or 0))
    return res


def _observed(snap, impl):
    def items(x):
        return list(x[1][1:]) if isinstance(x[1], list) else None
    d = {}
    d["keys"] = sorted(str(x) for x in items(snap[1]))
    d["comps"] = sorted((str(a), str(b)) for a, b in items(snap[2]))
    d["images"] = sorted((str(a), str(b)) for a, b in items(snap[3]))
    d["outlines"] = sorted(str(x) for x in impl.last_outlines)
    u = snap[5][1]
    if isinstance(u, list):
        d["uni"] = {int(e[0]): set(str(x) for x in e[1][1:]) for e in u[1:]}
        d["uni_lists"] = {int(e[0]): [str(x) for x in e[1][1:]] for e in u[1:]}
    else:
        d["uni"] = None
    return d


MUTATING = ("delete", "rename", "new", "insert", "setUnicodes", "setUnicodesVia", "setUnicode", "edit", "setWidth", "reload")


def run_case(case, prop, judged):
    """judged: the query names whose mismatch is a violation of `prop` (C07: all; C09: uni and the look-ups)"""
    tmpd = tempfile.mkdtemp(prefix="vlayer_")
    try:
        impl = Impl(case, tmpd)
        shadow = Shadow(case)
        outs = []
        viol = []
        stats = {"variant." + case["variant"]: 1}
        if is_multi(case):
            stats["cases_with_several_layers"] = 1
        if case.get("incoherent"):
            stats["cases_with_segmentless_contours"] = 1
        seq = [None] + setup_ops(case) + list(case["ops"])
        n_setup = len(seq) - len(case["ops"])
        uni_checked = 0
        for i, op in enumerate(seq):
            if op is None:
                snap = impl.snapshot(Atom("ok"))
                ok_expected = True
                k = "open"
            else:
                snap = impl.do(op)
                ok_expected = shadow.do(op)
                k = inner_kind(op)
                stats["op." + k] = stats.get("op." + k, 0) + 1
                if op[0] == "on":
                    stats["ops_on_named_layer"] = stats.get("ops_on_named_layer", 0) + 1
                    if op[1] != shadow.default:
                        stats["ops_on_non_default_layer"] = stats.get("ops_on_non_default_layer", 0) + 1
            outs.append(snap)
            if viol:
                continue
            exp = shadow.expected()
            obs = _observed(snap, impl)
            status_ok = snap[0] == "ok" or (isinstance(snap[0], list) and snap[0][0] == "ok")
            if status_ok != bool(ok_expected):
                viol.append(dict(clause="%s/op-outcome" % prop, signature="%s/op-outcome/%s" % (prop, k),
                                 step=i - n_setup, op=op, expected_ok=bool(ok_expected), observed=str(snap[0])))
                continue
            if not status_ok:
                stats["err.KeyError"] = stats.get("err.KeyError", 0) + 1
            if k == "save" and "saved" in judged and impl.font.path is not None:
                for ln, content in shadow.layers.items():
                    got = read_back(impl.font.path, ln if shadow.multi else None)
                    want = {n: (dedup(r["unicodes"]), list(r["comps"]), r["image"], r["kind"], r.get("width", 500))
                            for n, r in content.items()}
                    if got != want:
                        bad = sorted(n for n in set(got) | set(want) if got.get(n) != want.get(n))
                        n0 = bad[0]
                        what = "missing" if n0 not in got else ("leftover" if n0 not in want else "content")
                        viol.append(dict(clause="%s/saved-differs" % prop, signature="%s/saved-differs/%s" % (prop, what),
                                         step=i - n_setup, op=op, glyph=n0, expected=want.get(n0), observed=got.get(n0),
                                         variant=case["variant"], layer=ln))
                        break
                if viol:
                    continue
            if k == "bounds" and "bounds" in judged and status_ok:
                # the reference of the property: a font holding the same content purely in memory
                want = twin_bounds(shadow.layers[shadow.cur], unwrap(op)[1][1])
                stats["bounds_checked"] = stats.get("bounds_checked", 0) + 1
                if impl.last_bounds != want:
                    prev = inner_kind(seq[i - 1]) if i > 0 and seq[i - 1] is not None else "open"
                    viol.append(dict(clause="%s/query-differs/bounds" % prop,
                                     signature="%s/query-differs/bounds/after-%s" % (prop, prev), step=i - n_setup, op=op,
                                     expected=want, observed=impl.last_bounds, variant=case["variant"]))
                    continue
            if "uni" in judged and status_ok and k in ("fwd", "pseudo", "rev"):
                arg = unwrap(op)[1][1]
                bad = None
                stats["lookups_checked"] = stats.get("lookups_checked", 0) + 1
                if k == "rev":
                    res, has = impl.last_lookup
                    carriers = sorted(n for n, r in shadow.layers[shadow.cur].items() if arg in r["unicodes"])
                    if (res is None) != (not carriers) or (res is not None and res not in carriers):
                        bad = dict(what="glyphNameForUnicode", expected_one_of=carriers, observed=res)
                    elif bool(has) != bool(carriers):
                        bad = dict(what="code-in-unicodeData", expected=bool(carriers), observed=bool(has))
                elif shadow.cur == shadow.default:
                    # the data of the layer the font looks glyphs up in: the glyph's own first code point
                    want = shadow.first_code(shadow.cur, arg)
                    if k == "pseudo" and want is None:
                        b = spec_base(arg)
                        want = None if b is None else shadow.first_code(shadow.cur, b)
                    if impl.last_lookup != want:
                        bad = dict(what=k, expected=want, observed=impl.last_lookup)
                if bad:
                    viol.append(dict(clause="%s/lookup-%s" % (prop, k), signature="%s/lookup-%s/%s" % (prop, k, bad["what"]),
                                     step=i - n_setup, op=op, variant=case["variant"], **bad))
                    continue
            for q in ("keys", "comps", "images", "outlines", "uni"):
                if q not in judged:
                    continue
                if q == "uni":
                    if exp["uni"] is None:
                        continue
                    uni_checked += 1
                    e = {c: s for c, s in exp["uni"].items() if s}
                    o = obs["uni"] or {}
                    content = shadow.layers[shadow.cur]
                    lists = obs.get("uni_lists") or {}
                    # a name is listed under a code point at most as often as the glyph's own list repeats it
                    dup = sorted((c, n) for c, l in lists.items() for n in set(l)
                                 if n in content and l.count(n) > max(1, content[n]["unicodes"].count(c)))
                    empty = sorted(c for c, l in lists.items() if not l)
                    if e != {c: s for c, s in o.items() if s} or dup or empty:
                        stale = sorted((c, n) for c, s in o.items() for n in s if n not in e.get(c, set()))
                        missing = sorted((c, n) for c, s in e.items() for n in s if n not in o.get(c, set()))
                        kind = "stale" if stale else ("missing" if missing else ("empty-entry" if empty else "duplicate-entry"))
                        viol.append(dict(clause="%s/unicode-map-%s" % (prop, kind),
                                         signature="%s/unicode-map-%s/after-%s" % (prop, kind, k),
                                         step=i - n_setup, op=op, stale=stale, missing=missing, duplicate=dup, empty=empty,
                                         variant=case["variant"], layer=shadow.cur))
                        break
                elif exp[q] != obs[q]:
                    sig = "%s/query-differs/%s/after-%s" % (prop, q, k)
                    viol.append(dict(clause="%s/query-differs/%s" % (prop, q), signature=sig, step=i - n_setup, op=op,
                                     expected=exp[q], observed=obs[q], variant=case["variant"]))
                    break
        stats["uni_checked_steps"] = uni_checked
        stats["len"] = len(case["ops"])
        stats["reloads_from_file"] = impl.reloaded
        stats["reloads_of_unread_glyphs"] = impl.reloaded_unread
        nontrivial = any(inner_kind(o) in MUTATING for o in case["ops"]) and \
            (len(case["disk"]) > 0 or any(gl for _, gl in case.get("extra", [])))
        return dict(out=outs, viol=viol, info=dict(nontrivial=nontrivial, stats=stats))
    finally:
        shutil.rmtree(tmpd, ignore_errors=True)


def neighbourhood(case, step, rng):
    ops = case["ops"]
    # step indexes the output lines; translate to op index conservatively
    k = max(0, min(len(ops), step))
    prefix = ops[:k + 1]
    layers = [None] + ([DEFAULT] + [ln for ln, _ in case.get("extra", [])] if is_multi(case) else [])

    def on(ln, op):
        return op if ln is None else ["on", ln, op]
    for v in VARIANTS:
        pre = [] if v in ("unread", "memory") else sorted(n for n, _ in case["disk"])
        pre_x = {ln: ([] if v in ("unread", "memory") else sorted(n for n, _ in gl)) for ln, gl in case.get("extra", [])}
        c2 = dict(case, variant=v, preread=pre, preread_extra=pre_x)
        yield dict(c2, ops=prefix)
        for ln in layers:
            yield dict(c2, ops=prefix + [on(ln, ["touchUni"])])
            yield dict(c2, ops=[on(ln, ["touchUni"])] + prefix)
            yield dict(c2, ops=prefix + [["save"], on(ln, ["touchUni"])])
            for c in CODES[:3]:
                yield dict(c2, ops=[on(ln, ["touchUni"])] + prefix + [on(ln, ["rev", c])])
            for n in NAMES[:6]:
                yield dict(c2, ops=prefix + [on(ln, ["delete", n]), on(ln, ["touchUni"])])
                yield dict(c2, ops=prefix + [on(ln, ["new", n]), on(ln, ["touchUni"])])
                yield dict(c2, ops=[on(ln, ["touchUni"])] + prefix + [on(ln, ["fwd", n])])
