"""Shared by C07 and C09: correspondence of M-Layer with defcon.Layer and a shadow-spec oracle.

A case = glyph records on disk + variant (how much is read before the ops / memory-only twin)
+ operations on the default layer.  After every op all layer-level queries are compared.
"""
import os
import shutil
import tempfile

from sexp import Atom, opt

NAMES = ["A", "B", "C", "D", "E", "F", "a.alt", "f_i"]
CODES = [65, 66, 67, 97, 0xE000]
IMAGES = ["i1.png", "i2.png"]
VARIANTS = ["unread", "partial", "full", "memory"]

# outline kinds: 0 none; 2 closed line contour;
# 1 single move point, 3 off-curve only contour: len(glyph) > 0 but no point ends a segment.  The loaded path of
# glyphsWithOutlines used to list these and the fast GLIF scan did not (finding F33, repaired in /repo: both apply
# the scan's test); they stay in the generator, in every case now.
COHERENT_KINDS = [0, 2]
INCOHERENT_KINDS = [1, 3]


def kind_flags(kind):
    return (kind != 0, kind == 2)


# ---------------------------------------------------------------------------------------
# generation
# ---------------------------------------------------------------------------------------

BASES = ["A", "B", "C"]            # never carry components
COMPOSITES = ["D", "E", "F", "a.alt", "f_i"]   # may reference BASES only: the component graph stays acyclic


def gen_rec(rng, name, incoherent=False, uni_rate=0.6):
    us = []
    if rng.random() < uni_rate:
        us = rng.sample(CODES, rng.randint(1, 2))
    comps = []
    if name in COMPOSITES and rng.random() < 0.5:
        comps = [rng.choice(BASES) for _ in range(rng.randint(1, 2))]
    image = rng.choice(IMAGES) if rng.random() < 0.25 else None
    kinds = COHERENT_KINDS + (INCOHERENT_KINDS if incoherent else [])
    return dict(unicodes=us, comps=comps, image=image, kind=rng.choice(kinds))


def gen_ops(rng, disk_names, nops, uni_weight, incoherent):
    """ops over NAMES, keeping renames inside the domain (target not present) and the component
    graph acyclic is not needed here (no decomposition, no bounds)."""
    present = set(disk_names)
    ops = []
    touched = False
    for _ in range(nops):
        r = rng.random()
        name = rng.choice(NAMES)
        if rng.random() < 0.03 * uni_weight:
            ops.append(["reload", name, gen_rec(rng, name, incoherent)])
            continue
        if r < 0.10:
            ops.append(["get", name])
        elif r < 0.22:
            ops.append(["new", name])
            present.add(name)
        elif r < 0.32:
            ops.append(["insert", name, gen_rec(rng, name, incoherent)])
            present.add(name)
        elif r < 0.47:
            ops.append(["delete", name])
            present.discard(name)
        elif r < 0.60:
            free = [n for n in (BASES if name in BASES else COMPOSITES) if n not in present]
            if name in present and free:
                new = rng.choice(free)
                ops.append(["rename", name, new])
                present.discard(name)
                present.add(new)
            else:
                ops.append(["rename", name, name])
        elif r < 0.60 + 0.15 * uni_weight:
            us = rng.sample(CODES, rng.randint(0, 2))
            ops.append(["setUnicodes", name, us])
        elif r < 0.80:
            rec = gen_rec(rng, name, incoherent)
            ops.append(["edit", name, rec["comps"], rec["image"], rec["kind"]])
        elif r < 0.84:
            ops.append(["setWidth", name, rng.choice([100, 250, 640])])
        elif r < 0.87:
            ops.append(["readOutline", name])
        elif r < 0.91:
            ops.append(["save"])
        elif r < 0.94:
            # another program rewrites the glyph's file (new unicodes, components, image, outline) and the layer is told
            # to reload it; where there is no file to rewrite (memory-only twin, glyph not saved yet) the same content is
            # assigned in memory
            ops.append(["reload", name, gen_rec(rng, name, incoherent)])
        else:
            ops.append(["touchUni"])
            touched = True
    if not touched and rng.random() < 0.8:
        ops.insert(rng.randrange(len(ops) + 1), ["touchUni"])
    return ops


def gen_group(rng, maxops, uni_weight=1.0, incoherent_rate=0.1):
    """one content + op list, yielded in all four variants"""
    incoherent = rng.random() < incoherent_rate
    disk_names = rng.sample(NAMES, rng.randint(0, 6))
    disk = [[n, gen_rec(rng, n, incoherent)] for n in disk_names]
    ops = gen_ops(rng, disk_names, rng.randint(3, maxops), uni_weight, incoherent)
    pre = [n for n in disk_names if rng.random() < 0.5]
    rng.shuffle(pre)
    for v in VARIANTS:
        yield dict(disk=disk, variant=v, preread=pre if v == "partial" else (sorted(disk_names) if v == "full" else []),
                   ops=ops, incoherent=incoherent)


# ---------------------------------------------------------------------------------------
# model side
# ---------------------------------------------------------------------------------------

def enc_rec(rec):
    ol, of = kind_flags(rec["kind"])
    return [list(rec["unicodes"]), list(rec["comps"]), opt(rec["image"]), ol, of]


def enc_op(op):
    k = op[0]
    if k in ("get", "new", "delete"):
        return [Atom(k), op[1]]
    if k == "insert":
        return [Atom("insert"), op[1], enc_rec(op[2])]
    if k == "rename":
        return [Atom("rename"), op[1], op[2]]
    if k == "setUnicodes":
        return [Atom("setUnicodes"), op[1], list(op[2])]
    if k == "edit":
        ol, of = kind_flags(op[4])
        return [Atom("edit"), op[1], list(op[2]), opt(op[3]), ol, of]
    if k in ("save", "touchUni"):
        return [Atom(k)]
    if k == "reload":
        rec = op[2]
        ol, of = kind_flags(rec["kind"])
        return [Atom("seq"), [Atom("get"), op[1]], [Atom("setUnicodes"), op[1], list(rec["unicodes"])],
                [Atom("edit"), op[1], list(rec["comps"]), opt(rec["image"]), ol, of]]
    if k == "readOutline":
        return [Atom("get"), op[1]]
    if k == "setWidth":
        return [Atom("touch"), op[1]]
    raise ValueError(op)


def model_lines(case):
    lines = []
    if case["variant"] == "memory":
        lines.append([Atom("init"), []])
        for n, rec in case["disk"]:
            lines.append([Atom("insert"), n, enc_rec(rec)])
    else:
        lines.append([Atom("init"), [[n, enc_rec(rec)] for n, rec in case["disk"]]])
        for n in case["preread"]:
            lines.append([Atom("get"), n])
    for op in case["ops"]:
        lines.append(enc_op(op))
    return lines


# ---------------------------------------------------------------------------------------
# implementation side
# ---------------------------------------------------------------------------------------

def draw_kind(pen, kind):
    if kind == 1:
        pen.beginPath()
        pen.addPoint((10, 10), "move")
        pen.endPath()
    elif kind == 2:
        pen.beginPath()
        pen.addPoint((0, 0), "line")
        pen.addPoint((100, 0), "line")
        pen.addPoint((50, 80), "line")
        pen.endPath()
    elif kind == 3:
        pen.beginPath()
        pen.addPoint((0, 0), None)
        pen.addPoint((100, 0), None)
        pen.addPoint((50, 80), None)
        pen.endPath()


def image_dict(fileName):
    return dict(fileName=fileName, xScale=1, xyScale=0, yxScale=0, yScale=1, xOffset=0, yOffset=0, color=None)


class _G(object):
    pass


def write_ufo(path, disk):
    """written with ufoLib only (independent of defcon)"""
    from fontTools.ufoLib import UFOWriter
    w = UFOWriter(path)
    gs = w.getGlyphSet()
    for n, rec in disk:
        g = _G()
        g.width = 500
        g.unicodes = list(rec["unicodes"])
        if rec["image"] is not None:
            g.image = image_dict(rec["image"])
            del g.image["color"]

        def draw(pen, rec=rec):
            draw_kind(pen, rec["kind"])
            for b in rec["comps"]:
                pen.addComponent(b, (1, 0, 0, 1, 0, 0))
        gs.writeGlyph(n, g, draw)
    gs.writeContents()
    w.writeLayerContents()
    w.close()


def write_one_glif(glyphs_dir, name, rec):
    """another program rewrites the file of a glyph that the glyph set lists (ufoLib only; contents.plist untouched)"""
    from fontTools.ufoLib.glifLib import GlyphSet
    gs = GlyphSet(glyphs_dir)
    g = _G()
    g.width = 500
    g.unicodes = list(rec["unicodes"])
    if rec["image"] is not None:
        g.image = image_dict(rec["image"])
        del g.image["color"]

    def draw(pen):
        draw_kind(pen, rec["kind"])
        for b in rec["comps"]:
            pen.addComponent(b, (1, 0, 0, 1, 0, 0))
    assert name in gs.contents
    gs.writeGlyph(name, g, draw)
    gs.close() if hasattr(gs, "close") else None


def apply_rec(glyph, rec, with_unicodes=True):
    if with_unicodes:
        glyph.unicodes = list(rec["unicodes"])
    glyph.clearComponents()
    for b in rec["comps"]:
        c = glyph.instantiateComponent()
        c.baseGlyph = b
        glyph.appendComponent(c)
    glyph.image = None if rec["image"] is None else image_dict(rec["image"])
    glyph.clearContours()
    draw_kind(glyph.getPointPen(), rec["kind"])


class Impl(object):
    def __init__(self, case, tmpd):
        from defcon import Font
        self.tmpd = tmpd
        self.keep = []          # keep every object alive
        self.unilists = {}
        self.reloaded = 0
        self.touched = False
        self.case = case
        if case["variant"] == "memory":
            self.font = Font()
        else:
            path = os.path.join(tmpd, "f.ufo")
            write_ufo(path, case["disk"])
            self.font = Font(path)
        self.layer = self.font.layers.defaultLayer

    def snapshot(self, status):
        layer = self.layer
        keys = [Atom("set")] + sorted(layer.keys())
        comps = set()
        for base, refs in layer.componentReferences.items():
            for r in refs:
                comps.add((base, r))
        images = set()
        for fn, refs in layer.imageReferences.items():
            for r in refs:
                images.add((fn, r))
        outl = [Atom("set")] + sorted(set(layer.glyphsWithOutlines))
        self.last_outlines = outl[1:]
        if self.touched:
            ud = layer.unicodeData
            uni = [Atom("set")] + [[c, [Atom("set")] + list(names)] for c, names in ud.items()]
        else:
            uni = Atom("none")
        # len / contains / iteration agree with keys()
        assert len(layer) == len(layer.keys())
        return [status,
                [Atom("keys"), keys],
                [Atom("comps"), [Atom("set")] + [[b, r] for b, r in sorted(comps)]],
                [Atom("images"), [Atom("set")] + [[f, r] for f, r in sorted(images)]],
                [Atom("outlines"), outl],
                [Atom("uni"), uni]]

    def do(self, op):
        layer = self.layer
        k = op[0]
        try:
            if k == "get":
                self.keep.append(layer[op[1]])
            elif k == "new":
                self.keep.append(layer.newGlyph(op[1]))
            elif k == "insert":
                from defcon import Glyph
                src = Glyph()
                src.name = "src"
                apply_rec(src, op[2])
                self.keep.append(src)
                self.keep.append(layer.insertGlyph(src, name=op[1]))
            elif k == "delete":
                if op[1] in layer._glyphs:
                    self.keep.append(layer._glyphs[op[1]])
                del layer[op[1]]
            elif k == "rename":
                g = layer[op[1]]
                self.keep.append(g)
                g.name = op[2]
            elif k == "setUnicodes":
                g = layer[op[1]]
                self.keep.append(g)
                # the caller keeps ONE list object per glyph object, edits it in place and assigns it again: the glyph
                # must have taken a copy, or the comparison with the "old" value sees no change
                lst = self.unilists.setdefault(id(g), [])
                lst[:] = list(op[2])
                g.unicodes = lst
            elif k == "edit":
                g = layer[op[1]]
                self.keep.append(g)
                apply_rec(g, dict(comps=op[2], image=op[3], kind=op[4]), with_unicodes=False)
                g.dirty = True
            elif k == "setWidth":
                g = layer[op[1]]
                self.keep.append(g)
                g.width = op[2]
            elif k == "reload":
                g = layer[op[1]]
                self.keep.append(g)
                rec = op[2]
                gs = layer._glyphSet
                if self.font.path is not None and gs is not None and op[1] in gs.contents and os.path.isdir(self.font.path):
                    write_one_glif(os.path.join(self.font.path, "glyphs"), op[1], rec)
                    layer.reloadGlyphs([op[1]])
                    self.reloaded += 1
                else:
                    g.unicodes = list(rec["unicodes"])
                    apply_rec(g, rec, with_unicodes=False)
                    g.width = 500
                    g.dirty = True
            elif k == "readOutline":
                g = layer[op[1]]
                self.keep.append(g)
                len(g)
                g.bounds
            elif k == "save":
                if self.font.path is None:
                    self.font.save(os.path.join(self.tmpd, "m.ufo"))
                else:
                    self.font.save()
            elif k == "touchUni":
                self.touched = True
                layer.unicodeData
            else:
                raise ValueError(op)
            status = Atom("ok")
        except KeyError:
            status = [Atom("err"), Atom("KeyError")]
        return self.snapshot(status)


# ---------------------------------------------------------------------------------------
# shadow specification (abstract content) and oracle
# ---------------------------------------------------------------------------------------

class Shadow(object):
    def __init__(self, disk):
        self.g = {n: dict(rec, width=500) for n, rec in disk}
        self.touched = False

    def do(self, op):
        k = op[0]
        g = self.g
        if k == "get":
            return op[1] in g
        if k == "new":
            g[op[1]] = dict(unicodes=[], comps=[], image=None, kind=0, width=0)
        elif k == "insert":
            g[op[1]] = dict(op[2], width=0)
        elif k == "delete":
            if op[1] not in g:
                return False
            del g[op[1]]
        elif k == "rename":
            if op[1] not in g:
                return False
            if op[1] != op[2]:
                g[op[2]] = g.pop(op[1])
        elif k == "setUnicodes":
            if op[1] not in g:
                return False
            g[op[1]] = dict(g[op[1]], unicodes=list(op[2]))
        elif k == "edit":
            if op[1] not in g:
                return False
            g[op[1]] = dict(g[op[1]], comps=list(op[2]), image=op[3], kind=op[4])
        elif k == "setWidth":
            if op[1] not in g:
                return False
            g[op[1]] = dict(g[op[1]], width=op[2])
        elif k == "reload":
            if op[1] not in g:
                return False
            g[op[1]] = dict(op[2], width=500)
        elif k == "readOutline":
            return op[1] in g
        elif k == "touchUni":
            self.touched = True
        return True

    def expected(self):
        g = self.g
        keys = sorted(g)
        comps = sorted({(b, n) for n, r in g.items() for b in r["comps"]})
        images = sorted({(r["image"], n) for n, r in g.items() if r["image"] is not None})
        outl = sorted(n for n, r in g.items() if r["kind"] == 2)
        uni = None
        if self.touched:
            uni = {}
            for n, r in g.items():
                for c in r["unicodes"]:
                    uni.setdefault(c, set()).add(n)
        return dict(keys=keys, comps=comps, images=images, outlines=outl, uni=uni)


def read_back(path):
    """{name: (unicodes, comps, image, kind, width)} of the default layer, read with ufoLib only"""
    from fontTools.ufoLib import UFOReader
    res = {}
    with UFOReader(path, validate=False) as r:
        gs = r.getGlyphSet()
        for n in gs.keys():
            o = _G()
            o.width = 0
            o.unicodes = []
            o.image = None

            class P(object):
                def __init__(s):
                    s.comps = []
                    s.contours = []

                def beginPath(s, **k):
                    s.cur = []

                def addPoint(s, pt, segmentType=None, **k):
                    s.cur.append(segmentType)

                def endPath(s):
                    s.contours.append(s.cur)

                def addComponent(s, base, tr, **k):
                    s.comps.append(base)
            pen = P()
            gs.readGlyph(n, o, pen)
            if not pen.contours:
                kind = 0
            elif any(t in ("line", "curve", "qcurve") for c in pen.contours for t in c):
                kind = 2
            elif any(t == "move" for c in pen.contours for t in c):
                kind = 1
            else:
                kind = 3
            res[n] = (list(o.unicodes or []), pen.comps, (o.image or {}).get("fileName"), kind, int(o.width or 0))
    return res


def _observed(snap, impl):
    def items(x):
        return list(x[1][1:]) if isinstance(x[1], list) else None
    d = {}
    d["keys"] = sorted(str(x) for x in items(snap[1]))
    d["comps"] = sorted((str(a), str(b)) for a, b in items(snap[2]))
    d["images"] = sorted((str(a), str(b)) for a, b in items(snap[3]))
    d["outlines"] = sorted(str(x) for x in impl.last_outlines)
    u = snap[5][1]
    if isinstance(u, list):
        d["uni"] = {int(e[0]): set(str(x) for x in e[1][1:]) for e in u[1:]}
        d["uni_lists"] = {int(e[0]): [str(x) for x in e[1][1:]] for e in u[1:]}
    else:
        d["uni"] = None
    return d


def run_case(case, prop, judged):
    """judged: the query names whose mismatch is a violation of `prop` (C07: all; C09: uni)"""
    tmpd = tempfile.mkdtemp(prefix="vlayer_")
    try:
        impl = Impl(case, tmpd)
        shadow = Shadow(case["disk"] if case["variant"] != "memory" else [])
        outs = []
        viol = []
        stats = {"variant." + case["variant"]: 1}
        seq = []
        if case.get("incoherent"):
            stats["cases_with_segmentless_contours"] = 1
        if case["variant"] == "memory":
            seq.append(None)
            for n, rec in case["disk"]:
                seq.append(["insert", n, rec])
        else:
            seq.append(None)
            for n in case["preread"]:
                seq.append(["get", n])
        seq.extend(case["ops"])
        n_setup = len(seq) - len(case["ops"])
        uni_checked = 0
        for i, op in enumerate(seq):
            if op is None:
                snap = impl.snapshot(Atom("ok"))
                ok_expected = True
            else:
                snap = impl.do(op)
                ok_expected = shadow.do(op)
                stats["op." + op[0]] = stats.get("op." + op[0], 0) + 1
            outs.append(snap)
            if viol:
                continue
            exp = shadow.expected()
            obs = _observed(snap, impl)
            status_ok = snap[0] == "ok"
            if status_ok != bool(ok_expected):
                viol.append(dict(clause="%s/op-outcome" % prop, signature="%s/op-outcome/%s" % (prop, op[0]),
                                 step=i - n_setup, op=op, expected_ok=bool(ok_expected), observed=str(snap[0])))
                continue
            if not status_ok:
                stats["err.KeyError"] = stats.get("err.KeyError", 0) + 1
            if op is not None and op[0] == "save" and "saved" in judged and impl.font.path is not None:
                got = read_back(impl.font.path)
                want = {n: (list(r["unicodes"]), list(r["comps"]), r["image"], r["kind"], r.get("width", 500))
                        for n, r in shadow.g.items()}
                if got != want:
                    bad = sorted(n for n in set(got) | set(want) if got.get(n) != want.get(n))
                    n0 = bad[0]
                    what = "missing" if n0 not in got else ("leftover" if n0 not in want else "content")
                    viol.append(dict(clause="%s/saved-differs" % prop, signature="%s/saved-differs/%s" % (prop, what),
                                     step=i - n_setup, op=op, glyph=n0, expected=want.get(n0), observed=got.get(n0),
                                     variant=case["variant"]))
                    continue
            for q in ("keys", "comps", "images", "outlines", "uni"):
                if q not in judged:
                    continue
                if q == "uni":
                    if exp["uni"] is None:
                        continue
                    uni_checked += 1
                    e = {c: s for c, s in exp["uni"].items() if s}
                    o = obs["uni"] or {}
                    dup = [c for c, l in (obs.get("uni_lists") or {}).items() if len(l) != len(set(l))]
                    if e != o or dup:
                        stale = sorted((c, n) for c, s in o.items() for n in s if n not in e.get(c, set()))
                        missing = sorted((c, n) for c, s in e.items() for n in s if n not in o.get(c, set()))
                        kind = "stale" if stale else ("missing" if missing else "duplicate-or-empty-entry")
                        viol.append(dict(clause="%s/unicode-map-%s" % (prop, kind),
                                         signature="%s/unicode-map-%s/after-%s" % (prop, kind, op[0] if op else "open"),
                                         step=i - n_setup, op=op, stale=stale, missing=missing, variant=case["variant"]))
                        break
                elif exp[q] != obs[q]:
                    sig = "%s/query-differs/%s/after-%s" % (prop, q, op[0] if op else "open")
                    viol.append(dict(clause="%s/query-differs/%s" % (prop, q), signature=sig, step=i - n_setup, op=op,
                                     expected=exp[q], observed=obs[q], variant=case["variant"]))
                    break
        stats["uni_checked_steps"] = uni_checked
        stats["len"] = len(case["ops"])
        nontrivial = any(o[0] in ("delete", "rename", "new", "insert", "setUnicodes", "edit", "setWidth", "reload") for o in case["ops"]) and len(case["disk"]) > 0
        return dict(out=outs, viol=viol, info=dict(nontrivial=nontrivial, stats=stats))
    finally:
        shutil.rmtree(tmpd, ignore_errors=True)


def neighbourhood(case, step, rng):
    ops = case["ops"]
    # step indexes the output lines; translate to op index conservatively
    k = max(0, min(len(ops), step))
    prefix = ops[:k + 1]
    for v in VARIANTS:
        c2 = dict(case, variant=v, preread=[] if v in ("unread", "memory") else sorted(n for n, _ in case["disk"]))
        yield dict(c2, ops=prefix)
        yield dict(c2, ops=prefix + [["touchUni"]])
        yield dict(c2, ops=[["touchUni"]] + prefix)
        yield dict(c2, ops=prefix + [["save"], ["touchUni"]])
        for n in NAMES[:6]:
            yield dict(c2, ops=prefix + [["delete", n], ["touchUni"]])
            yield dict(c2, ops=prefix + [["new", n], ["touchUni"]])
