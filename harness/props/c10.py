"""C10 - identifiers stay unique and the identifier registry matches what is in use.

Correspondence with M-Ident (lean/DefconModel/Ident.lean) + direct oracle.

The implementation adaptor drives the REAL defcon objects (Font, Glyph, Contour, Point, Component,
Anchor, Guideline, the glyph point pens, Layer.insertGlyph / reloadGlyphs, serialisation) in process.
A case is a list of operations on a small world: three glyphs G0..G2 (either in the default layer
of one font, or stand-alone `Glyph()` objects), the font's own guidelines, and a "limbo" of objects
that were removed from a container and may be re-inserted anywhere.  After EVERY operation (also a
rejected one) the adaptor reads, first, `container.identifiers` of every container and, then, the
identifiers carried by the objects that are in it.

Round 3 additions: the whole life cycle of SHALLOW glyphs (contours read from a GLIF and not looked at yet).  The
adaptor no longer looks at the contours of a shallow glyph before a call (it used to list them in order to know what
the call removes: that listing was the first touch, never the call); every operation that affects identifiers is
exercised as the first touch of a shallow glyph - as its target and as its source -, the model knows which calls
load the contours and when (`preload`, `penEnd`), the load state is compared after every operation, and every case
that runs on a shallow glyph is run a second time on a fully loaded twin (`twin_oracle`).

Round 2 additions: calls the container has to refuse (removePoint / remove<Kind> with an object that is not in it,
the strangers being real Point / Contour / ... objects the history produced: replaced by reverse(), removed, owned by
a sibling or by another container; anchor / guideline dicts with an identifier and an invalid colour), and re-opened
fonts that are left unread so that the next guideline call is the first thing that touches fontinfo.plist.

Identifiers: the model uses naturals; 0..25 map to a ten-letter string ("AAAAAAAAAA", ...), others
to a ten-digit decimal.  `makeRandomIdentifier`'s randomness (`random.choice` inside
defcon.tools.identifiers) is replaced by a scripted source, so that the candidates are model inputs
and the retry loop is exercised with real collisions.
"""
import os
import shutil
import tempfile
import warnings

from sexp import Atom, opt

MODEL = "ident"
SHRINKABLE = True
RULE = ("op sequences over 3 glyphs (in a font, or stand-alone) + font guidelines + a limbo of removed objects; "
        "identifiers drawn from a pool of 6 on a random subset of objects (high collision rate); 62 op kinds: "
        "insert/re-insert/remove/clear of contours, components, anchors, guidelines; point insert/remove; "
        "Contour.clear/reverse/removeSegment/split/setStartPoint; identifier setters and generateIdentifier* with "
        "scripted candidates; insertions during which an observer of the container's *WillBeAdded notification gives "
        "the incoming object its identifier; pen drawing with/without skipConflictingIdentifiers; decompose (nested); "
        "copyDataFromGlyph; Layer.insertGlyph; (de)serialisation; external edit + reloadGlyphs; reopen (lazy "
        "loading of contours; of the font's guidelines: the re-opened font is left unread, so that the next guideline "
        "operation is the first thing that touches fontinfo.plist); calls the container has to refuse: removePoint / "
        "remove<Kind> with an object that is not in it (a Point object replaced by reverse() or removed before, a "
        "point of a sibling contour / another glyph / a detached contour, a free-standing Point carrying a registered "
        "identifier, a detached object, an object of another container), anchor / guideline dicts with an identifier "
        "AND an invalid colour through insert / append / instantiate / the anchors / guidelines setters; "
        "plus every point-type pattern up to length 4 (sampled: 5) x every point-list edit; plus directed families "
        "(stale point after each point-list edit, strangers carrying an identifier in use, first guideline call on an "
        "unread font); plus the life cycle of shallow glyphs (a UFO is opened; a few calls that do not look at contours, "
        "with identifiers colliding with those the shallow records reserve; then a call that is the FIRST to touch the "
        "shallow contours: clear, clearContours, setDataFromSerialization over / from it, copyDataFromGlyph from / into "
        "it, drawPoints from it, drawing into it with and without skipConflictingIdentifiers, appendContour, "
        "insertContour at an index, re-insertion of a removed contour, removeContour / removePoint with a stranger, "
        "every call that names a contour by index, decomposeComponent(s) of a component whose base is shallow / into a "
        "shallow glyph, Layer.reloadGlyphs, Layer.insertGlyph of it in the same layer / through another layer / "
        "through another font, len(glyph); then calls that ask for the released / reserved identifiers again); "
        "lazily loaded contours are observed as the records they are, the load state of every glyph is part of the "
        "comparison, and every case that runs on a shallow glyph is run again on a twin world in which every glyph is "
        "fully loaded after every operation (same outcome, registries and identifiers in use required); a third of "
        "the shallow cases a second time with an explicit read access to every glyph after every operation; plus the "
        "corpus of regression/witness histories; non-trivial = at least one successful registry-changing op AND at "
        "least one rejected duplicate or generated identifier; distinct = distinct op lists")
ASSUMPTIONS = [
    "identifiers of points are given at construction or by Contour.generateIdentifierForPoint (Point.identifier "
    "is a plain attribute of a parent-less object; writing it directly bypasses every registry by design)",
    "Anchor/Guideline identifiers are written through the `identifier` property, not through the dict API "
    "(`anchor['identifier'] = ...` is raw storage)",
    "an object is inserted only while it is detached (or instantiated by that same container): inserting an "
    "object owned by another container is C11's subject (F17)",
    "component graph acyclic (glyph i references only glyphs j > i or a missing name)",
    "rejection of a duplicate leaves the container unchanged is claimed for single-object operations; a composite "
    "(copyDataFromGlyph, drawing a whole outline, deserialising, reloading) stops at the first rejected object "
    "and keeps what it had inserted before",
    "GLIF files written behind the font's back for reload/reopen are well formed with unique identifiers "
    "(fontTools.glifLib refuses others before defcon sees them)",
    "python asserts enabled (no -O): they are defcon's rejection mechanism",
    "Font.instantiateGuideline(dict) is not the FIRST call on a re-opened, still unread font (the harness reads the "
    "font's guidelines first): that call is finding F70, witnessed by a scripted scenario on the real code",
    "while a re-opened font is unread its guidelines are not observed (reading them is what loads them): the "
    "observation reports what the harness wrote to fontinfo.plist, the real registry and guidelines are compared "
    "from the first guideline call on; Font.appendGuideline is not used on an unread font (it computes the index "
    "before the lazy read and inserts at 0: an ordering matter, not C10's)",
    "while a glyph's contours are shallow loaded the contours and the identifiers they carry are read off the shallow "
    "records (Glyph._shallowLoadedContours, a private attribute: every public way to look at contours deepens them); "
    "the loaded-twin comparison uses public API only (len(glyph) to load, glyph.identifiers, the objects' identifiers)",
    "the Contour objects a call makes and removes while it loads a shallow glyph (clear, clearContours, "
    "setDataFromSerialization, reloadGlyphs as the first touch) are collected from Glyph.ContourWillBeDeleted",
    "Contour.reverse is exercised on contours fontTools' PointToSegmentPen can draw before and after the reversal "
    "(reverse reads Contour.clockwise twice; on other contours that raises PenError or not depending on the cached "
    "area representation, which is C03's subject); the probe uses fontTools itself",
]
TRUSTED = [
    "random.choice inside defcon.tools.identifiers replaced by a scripted character source (candidates = model inputs)",
    "fontTools 4.43 ReverseContourPointPen / PointToSegmentPen contour validity ported into the model and validated "
    "by the same differential runs",
    "index arguments are reduced modulo the current length by identical glue on both sides",
]

TYPES = [None, "move", "line", "curve", "qcurve"]
KINDS = ["contour", "component", "anchor", "guideline"]
NGLYPH = 3
FONT = 3           # container number of the font (guidelines only)
MISSING = 9        # component base that is not in the layer
LIMBO_CAP = 4
POOL = [0, 1, 2, 3, 4, 5]
STALE_CAP = 12
# values defcon.objects.color.Color refuses with ValueError (0-255 components, a missing / extra component, a
# negative component)
BAD_COLORS = ["1,0,0,255", (255, 0, 0, 255), "1,0,0", (0, 0, -1, 1), "1,0,0,1,1", "0.5,2,0,1"]
REFUSED = ("rmAbsentPoint", "rmAbsent", "rmForeign", "insAnchorBad", "insGuideBad")


def id2s(n):
    if n is None:
        return None
    if n < 26:
        return chr(65 + n) * 10
    return "%010d" % n


def s2id(s):
    if s is None:
        return None
    if len(s) == 10 and s[0].isalpha() and s == s[0] * 10 and s[0].isupper():
        return ord(s[0]) - 65
    if len(s) == 10 and s.isdigit():
        return int(s)
    return 999999  # an identifier nobody scripted: shows up as a divergence


# ---------------------------------------------------------------------------------------
# generation
# ---------------------------------------------------------------------------------------

def _pid(rng, p_none=0.5):
    return None if rng.random() < p_none else rng.choice(POOL)


SHAPES = [
    [2, 2, 2], [2, 2, 2, 2], [1, 2, 2], [1, 2], [3, 2, 0, 0], [0, 0, 3, 2, 2], [2, 0, 0, 3, 0, 0, 3],
    [1, 0, 0, 3, 2], [1, 2, 0], [1, 0, 0, 3, 0, 0], [0, 3, 2, 0], [0, 4, 0, 4], [0, 0, 0], [2], [1], [],
    [4, 0, 2], [3, 0, 0, 3, 0, 0], [2, 0, 0, 3], [1, 2, 0, 0], [2, 3, 2], [0, 2, 2], [2, 1, 2],
]


def gen_points(rng):
    r = rng.random()
    if r < 0.85:
        shape = list(rng.choice(SHAPES))
    else:
        shape = [rng.randrange(5) for _ in range(rng.randint(0, 5))]
    return [[t, _pid(rng, 0.55)] for t in shape]


def gen_contour(rng):
    return [_pid(rng, 0.45), gen_points(rng)]


def gen_unique_data(rng, t, with_comps=True):
    """well-formed glyph content with unique identifiers (for files written behind the font's back)"""
    ids = list(POOL) + [6, 7]
    rng.shuffle(ids)

    def take(p):
        if ids and rng.random() < p:
            return ids.pop()
        return None
    good = [[2, 2, 2], [1, 2, 2], [3, 2, 0, 0], [2, 0, 0, 3, 0, 0, 3], [1, 0, 0, 3, 2], [0, 0, 3, 2, 2], [1, 2]]
    contours = []
    for _ in range(rng.randint(0, 2)):
        cid = take(0.5)
        contours.append([cid, [[ty, take(0.4)] for ty in rng.choice(good)]])
    comps = []
    if with_comps:
        for _ in range(rng.randint(0, 2)):
            bases = [b for b in range(t + 1, NGLYPH)] + [MISSING]
            comps.append([rng.choice(bases), take(0.5)])
    anchors = [take(0.6) for _ in range(rng.randint(0, 2))]
    guides = [take(0.6) for _ in range(rng.randint(0, 2))]
    return dict(contours=contours, comps=comps, anchors=anchors, guides=guides)


def gen_cands(rng, fresh):
    """candidates for makeRandomIdentifier: some colliding pool values, then a fresh one"""
    n = rng.choice([0, 0, 1, 1, 2, 3])
    c = [rng.choice(POOL) for _ in range(n)]
    r = rng.random()
    if r < 0.93:
        c.append(fresh())
    elif r < 0.97:
        pass                      # script runs out (only if every candidate collides)
    else:
        c = [rng.choice(POOL) for _ in range(52)] + [fresh()]   # may hit the 50-retries limit
    return c


def gen_tagged(rng):
    """an insertion during which an observer of the container's `*WillBeAdded` notification gives the incoming,
    so far unidentified, object an identifier (re-entrancy between announcement, check and registration)"""
    t = rng.randrange(NGLYPH)
    R = lambda: rng.randrange(12)
    r = rng.random()
    if r < 0.4:
        c = gen_contour(rng)
        inner = ["insContour", t, R(), None, c[1]]
    elif r < 0.6:
        inner = ["insComp", t, R(), rng.choice([b for b in range(t + 1, NGLYPH)] + [MISSING]), None]
    elif r < 0.8:
        inner = ["insAnchor", t, R(), None, rng.random() < 0.5]
    else:
        inner = ["insGuide", rng.choice([0, 1, 2, FONT, FONT]), R(), None, rng.random() < 0.5]
    return ["tagged", rng.choice(POOL), inner]


def effective(op):
    """what an operation amounts to on the unchanged code: a tagged insertion is the insertion of the object
    carrying the tag (the model is given this form; the implementation gets the observer)"""
    if op[0] != "tagged":
        return op
    inner = list(op[2])
    if inner[0] == "insContour":
        inner[3] = op[1]
    elif inner[0] == "insComp":
        inner[4] = op[1]
    else:
        inner[3] = op[1]
    return inner


class _Tagger(object):

    def __init__(self, value):
        self.value = value
        self.fired = 0

    def cb(self, notification):
        if self.value is None:
            return
        v, self.value = self.value, None
        self.fired += 1
        notification.data["object"].identifier = v


class _Collector(object):
    """observer of a container's `*WillBeDeleted` notification: the objects a call removed, in removal order"""

    def __init__(self):
        self.objs = []

    def cb(self, notification):
        self.objs.append(notification.data["object"])


class _Removal(object):

    def __init__(self, world, t, kinds):
        self.w, self.t, self.kinds = world, t, kinds

    def __enter__(self):
        w, t = self.w, self.t
        self.col = None
        self.olds = {}
        for kind in self.kinds:
            if kind == 0 and w.shallow(t):
                self.col = _Collector()
                w.keep.append(self.col)
                w.glyphs[t].addObserver(self.col, "cb", "Glyph.ContourWillBeDeleted")
                self.glyph = w.glyphs[t]
            else:
                self.olds[kind] = w.children(t, kind)
        return self

    def __exit__(self, *exc):
        w, t = self.w, self.t
        for kind in self.kinds:
            if kind not in self.olds:
                self.glyph.removeObserver(self.col, "Glyph.ContourWillBeDeleted")
                for o in self.col.objs:
                    w.to_limbo(0, o)
                continue
            now = w.children_now(t, kind)
            for o in reversed(self.olds[kind]):
                if not any(o is x for x in now):
                    w.to_limbo(kind, o)
        return False


def gen_refused(rng):
    """calls the container has to refuse without touching anything (the last two: composites cut short)"""
    t = rng.randrange(NGLYPH)
    tg = rng.choice([0, 1, 2, FONT, FONT])
    R = lambda: rng.randrange(12)
    r = rng.random()
    if r < 0.30:
        # [.., how, k, ident]: which stranger (0 stale, 1 sibling contour, 2 other glyph, 3 detached contour,
        # 4 free-standing Point carrying `ident`)
        return ["rmAbsentPoint", t, R(), rng.randrange(5), R(), rng.choice(POOL)]
    if r < 0.42:
        kind = rng.randrange(4)
        return ["rmAbsent", kind, rng.choice([0, 1, 2, FONT]) if kind == 3 else t, R()]
    if r < 0.55:
        kind = rng.randrange(4)
        a, b = rng.sample([0, 1, 2, FONT] if kind == 3 else [0, 1, 2], 2)
        return ["rmForeign", kind, a, b, R()]
    if r < 0.72:
        return ["insAnchorBad", t, R(), _pid(rng, 0.15), rng.randrange(3), rng.randrange(len(BAD_COLORS))]
    if r < 0.86:
        return ["insGuideBad", tg, R(), _pid(rng, 0.15), rng.randrange(3), rng.randrange(len(BAD_COLORS))]
    vs = [_pid(rng, 0.4) for _ in range(rng.randint(0, 2))]
    tail = [_pid(rng, 0.4) for _ in range(rng.randint(0, 1))]
    if r < 0.93:
        return ["setAnchorsBad", t, vs, _pid(rng, 0.15), tail, rng.randrange(len(BAD_COLORS))]
    return ["setGuidesBad", tg, vs, _pid(rng, 0.15), tail, rng.randrange(len(BAD_COLORS))]


def gen_reopen(rng):
    fg = rng.sample(POOL, rng.randint(0, 2))
    return ["reopen", [gen_unique_data(rng, i) for i in range(NGLYPH)],
            [i if rng.random() < 0.6 else None for i in fg],
            [rng.randrange(NGLYPH), rng.choice(POOL)] if rng.random() < 0.5 else None,
            rng.random() < 0.5]


def gen_op(rng, standalone, fresh, can_disk):
    if rng.random() < 0.07:
        return gen_refused(rng)
    # round 3: read accesses, the copy through another font / layer, and more re-opened (shallow) worlds
    if rng.random() < 0.015:
        return ["load", rng.randrange(NGLYPH), rng.randrange(5)]
    if not standalone and rng.random() < 0.008:
        t = rng.randrange(NGLYPH - 1)
        return ["insertGlyphVia", t, rng.randrange(t + 1, NGLYPH), rng.random() < 0.5]
    if can_disk and rng.random() < 0.012:
        return gen_reopen(rng)
    r = rng.random()
    if not standalone and r < 0.04:
        return gen_tagged(rng)
    r = (r - 0.04) / 0.96 if not standalone else r
    t = rng.randrange(NGLYPH)
    tg = rng.choice([0, 1, 2, FONT, FONT])       # container for guideline ops
    R = lambda: rng.randrange(12)
    if r < 0.10:
        return ["insContour", t, R(), ] + gen_contour(rng)
    if r < 0.13:
        return ["reinsContour", t, R(), R()]
    if r < 0.16:
        return ["rmContour", t, R()]
    if r < 0.17:
        return ["clearContours", t]
    if r < 0.22:
        return ["insPoint", t, R(), R(), rng.randrange(5), _pid(rng, 0.35)]
    if r < 0.25:
        return ["addPoint", t, R(), rng.choice([0, 2, 2, 3]), _pid(rng, 0.35)]
    if r < 0.28:
        return ["rmPoint", t, R(), R()]
    if r < 0.295:
        return ["clearContour", t, R()]
    if r < 0.33:
        return ["reverse", t, R()]
    if r < 0.37:
        return ["rmSegment", t, R(), R(), rng.random() < 0.4]
    if r < 0.40:
        return ["split", t, R(), R()]
    if r < 0.415:
        return ["setStart", t, R(), R()]
    if r < 0.44:
        return ["setContourId", t, R(), _pid(rng, 0.1)]
    if r < 0.46:
        return ["genContourId", t, R(), gen_cands(rng, fresh)]
    if r < 0.49:
        return ["genPointId", t, R(), R(), gen_cands(rng, fresh)]
    # components
    if r < 0.53:
        bases = [b for b in range(t + 1, NGLYPH)] + [MISSING]
        return ["insComp", t, R(), rng.choice(bases), _pid(rng, 0.4)]
    if r < 0.545:
        return ["reinsComp", t, R(), R()]
    if r < 0.56:
        return ["rmComp", t, R()]
    if r < 0.565:
        return ["clearComps", t]
    if r < 0.58:
        return ["setCompId", t, R(), _pid(rng, 0.1)]
    if r < 0.59:
        return ["genCompId", t, R(), gen_cands(rng, fresh)]
    if r < 0.62 and not standalone:
        return ["decompose", t, R()]
    if r < 0.63 and not standalone:
        return ["decomposeAll", t]
    # anchors
    if r < 0.665:
        return ["insAnchor", t, R(), _pid(rng, 0.35), rng.random() < 0.5]
    if r < 0.68:
        return ["reinsAnchor", t, R(), R()]
    if r < 0.695:
        return ["rmAnchor", t, R()]
    if r < 0.70:
        return ["clearAnchors", t]
    if r < 0.715:
        return ["setAnchorId", t, R(), _pid(rng, 0.1)]
    if r < 0.725:
        return ["genAnchorId", t, R(), gen_cands(rng, fresh)]
    if r < 0.735:
        return ["setAnchors", t, [_pid(rng, 0.4) for _ in range(rng.randint(0, 3))]]
    # guidelines (glyph or font)
    if r < 0.775:
        return ["insGuide", tg, R(), _pid(rng, 0.35), rng.random() < 0.5]
    if r < 0.79:
        return ["reinsGuide", tg, R(), R()]
    if r < 0.805:
        return ["rmGuide", tg, R()]
    if r < 0.81:
        return ["clearGuides", tg]
    if r < 0.825:
        return ["setGuideId", tg, R(), _pid(rng, 0.1)]
    if r < 0.835:
        return ["genGuideId", tg, R(), gen_cands(rng, fresh)]
    if r < 0.845:
        return ["setGuides", tg, [_pid(rng, 0.4) for _ in range(rng.randint(0, 3))]]
    # limbo (detached objects)
    if r < 0.86:
        return ["limboSetId", rng.randrange(4), R(), _pid(rng, 0.1)]
    if r < 0.865:
        return ["limboGenId", rng.randrange(4), R(), gen_cands(rng, fresh)]
    if r < 0.875:
        return ["limboAddPoint", R(), rng.choice([0, 2, 3]), _pid(rng, 0.3)]
    # composites
    if r < 0.885:
        return ["clearGlyph", t]
    if r < 0.915:
        contours = [gen_contour(rng) for _ in range(rng.randint(0, 2))]
        bases = [b for b in range(t + 1, NGLYPH)] + [MISSING]
        comps = [[rng.choice(bases), _pid(rng, 0.4)] for _ in range(rng.randint(0, 2))]
        return ["draw", t, contours, comps, rng.random() < 0.4]
    if r < 0.93 and t < NGLYPH - 1:
        return ["drawFrom", t, rng.randrange(t + 1, NGLYPH), rng.random() < 0.4]
    if r < 0.95 and t < NGLYPH - 1:
        return ["copyFrom", t, rng.randrange(t + 1, NGLYPH)]
    if r < 0.96 and t < NGLYPH - 1 and not standalone:
        return ["insertGlyph", t, rng.randrange(t + 1, NGLYPH)]
    if r < 0.97:
        return ["roundtrip", t]
    if r < 0.98 and t < NGLYPH - 1:
        return ["deserializeFrom", t, rng.randrange(t + 1, NGLYPH)]
    if r < 0.985:
        return ["fontRoundtrip"]
    if r < 0.9875:
        return ["instAnchor", t, _pid(rng, 0.2)]
    if r < 0.99:
        return ["instGuide", tg, _pid(rng, 0.2)]
    if can_disk:
        if r < 0.996:
            return ["reload", t, gen_unique_data(rng, t)]
        fg = rng.sample(POOL, rng.randint(0, 2))
        return ["reopen", [gen_unique_data(rng, i) for i in range(NGLYPH)],
                [i if rng.random() < 0.6 else None for i in fg],
                [rng.randrange(NGLYPH), rng.choice(POOL)] if rng.random() < 0.7 else None,
                rng.random() < 0.5]
    return ["rmContour", t, R()]


def gen_case(rng, maxlen):
    standalone = rng.random() < 0.25
    counter = [100]

    def fresh():
        counter[0] += 1
        return counter[0]
    can_disk = not standalone
    ops = []
    # a populated world first
    for _ in range(rng.randint(2, 5)):
        t = rng.randrange(NGLYPH)
        ops.append(["insContour", t, rng.randrange(4)] + gen_contour(rng))
    for _ in range(rng.randint(0, 3)):
        t = rng.randrange(NGLYPH)
        bases = [b for b in range(t + 1, NGLYPH)] + [MISSING]
        ops.append(["insComp", t, rng.randrange(4), rng.choice(bases), _pid(rng, 0.4)])
    for _ in range(rng.randint(0, 3)):
        ops.append(["insAnchor", rng.randrange(NGLYPH), rng.randrange(4), _pid(rng, 0.4), rng.random() < 0.5])
    for _ in range(rng.randint(0, 3)):
        ops.append(["insGuide", rng.choice([0, 1, 2, FONT, FONT]), rng.randrange(4), _pid(rng, 0.4), rng.random() < 0.5])
    for _ in range(rng.randint(3, maxlen)):
        ops.append(gen_op(rng, standalone, fresh, can_disk))
    # the lazily loaded glyph is most interesting when the very next op runs before anything looked at it
    return dict(ops=ops, standalone=standalone)


def gen_shape_cases(rng, tier):
    """every point-type pattern up to a length (sampled in the quick tier) x every contour-level operation that
    edits the point list: validates the ported segment / reversal / drawability rules"""
    import itertools
    shapes = [s for L in range(5) for s in itertools.product(range(5), repeat=L)]
    shapes += rng.sample(list(itertools.product(range(5), repeat=5)), 400)
    if tier == "quick":
        shapes = rng.sample(shapes, 120)
    for shape in shapes:
        ids = list(POOL) + [6, 7]
        pts = [[t, ids[i] if rng.random() < 0.8 else None] for i, t in enumerate(shape)]
        base = [["insContour", 0, 0, 8, pts]]
        tails = [[["reverse", 0, 0]], [["reverse", 0, 0], ["reverse", 0, 0]], [["clearContour", 0, 0]]]
        for si in range(max(1, len(shape))):
            tails.append([["rmSegment", 0, 0, si, False]])
            tails.append([["rmSegment", 0, 0, si, True]])
            tails.append([["split", 0, 0, si]])
            tails.append([["setStart", 0, 0, si]])
        if tier == "quick":
            tails = rng.sample(tails, min(len(tails), 4))
        for tail in tails:
            yield dict(ops=base + tail + [["rmContour", 0, 0], ["reinsContour", 0, 0, 0]],
                       standalone=rng.random() < 0.3)


def gen_stale_point_cases(rng, tier):
    """a Point object taken from a contour, then an operation that edits the point list (reverse() replaces every
    point by a new one carrying the same identifier), then removePoint with the old object, then an attempt to
    hand the identifier to somebody else"""
    n = 60 if tier == "quick" else 600
    good = [[2, 2, 2], [2, 2, 2, 2], [1, 2, 2], [3, 2, 0, 0], [2, 0, 0, 3, 0, 0, 3], [1, 0, 0, 3, 2], [0, 0, 3, 2, 2]]
    for _ in range(n):
        t = rng.randrange(NGLYPH)
        ids = list(POOL)
        rng.shuffle(ids)
        ops = []
        for ci in range(rng.randint(1, 2)):
            pts = [[ty, ids.pop() if ids and rng.random() < 0.7 else None] for ty in rng.choice(good)]
            ops.append(["insContour", t, ci, ids.pop() if ids and rng.random() < 0.4 else None, pts])
        edit = rng.choice([["reverse", t, 0], ["reverse", t, 0], ["rmPoint", t, 0, rng.randrange(4)],
                           ["rmSegment", t, 0, rng.randrange(3), rng.random() < 0.4], ["split", t, 0, rng.randrange(3)],
                           ["clearContour", t, 0], ["setStart", t, 0, rng.randrange(3)], ["rmContour", t, 0]])
        ops.append(edit)
        for _ in range(rng.randint(1, 2)):
            ops.append(["rmAbsentPoint", t, rng.randrange(2), rng.choice([0, 0, 0, 1, 3, 4]), rng.randrange(12),
                        rng.choice(POOL)])
        follow = rng.choice(POOL)
        ops.append(rng.choice([["insAnchor", t, 0, follow, rng.random() < 0.5], ["insGuide", t, 0, follow, True],
                               ["insPoint", t, 0, 0, 2, follow], ["insComp", t, 0, MISSING, follow],
                               ["genContourId", t, 0, [follow, 777]]]))
        ops.append(["rmContour", t, 0])
        yield dict(ops=ops, standalone=rng.random() < 0.3)


def gen_stranger_cases(rng, tier):
    """an identifier in use in a container is also carried by an object that is NOT in it (a detached one that
    used to be there, or one of another container: identifiers are only unique per container); that stranger is
    handed to the container's remove method, then somebody asks for the identifier"""
    n = 100 if tier == "quick" else 1000
    for _ in range(n):
        kind = rng.randrange(4)
        conts = [0, 1, 2, FONT, FONT] if kind == 3 else [0, 1, 2]
        t = rng.choice(conts)
        x = rng.choice(POOL)

        def ins(cont, k2, ident):
            if cont == FONT:
                k2 = 3
            if k2 == 0:
                pts = [[2, None], [2, None], [2, None]]
                if ident is not None and rng.random() < 0.5:
                    pts[rng.randrange(3)][1] = ident
                    return ["insContour", cont, 0, None, pts]
                return ["insContour", cont, 0, ident, pts]
            if k2 == 1:
                return ["insComp", cont, 0, MISSING, ident]
            if k2 == 2:
                return ["insAnchor", cont, 0, ident, rng.random() < 0.5]
            return ["insGuide", cont, 0, ident, rng.random() < 0.5]
        ops = []
        for _ in range(rng.randint(0, 2)):
            ops.append(ins(rng.choice(conts), rng.randrange(4), _pid(rng, 0.5)))
        if rng.random() < 0.5:
            # the stranger used to be in the container
            ops.append(ins(t, kind, x))
            ops.append([["rmContour", "rmComp", "rmAnchor", "rmGuide"][kind], t, 0])
            ops.append(ins(t, rng.randrange(4), x))
            ops.append(["rmAbsent", kind, t, rng.randrange(4)])
        else:
            src = rng.choice([c for c in sorted(set(conts)) if c != t])
            ops.append(ins(src, kind, x))
            ops.append(ins(t, rng.randrange(4), x))
            ops.append(["rmForeign", kind, t, src, rng.randrange(4)])
        ops.append(ins(t, rng.randrange(4), x))               # must be rejected: x is still in use
        ops.append(rng.choice([["clearGuides", t], ["rmGuide", t, 0], ["roundtrip", rng.randrange(NGLYPH)], ["fontRoundtrip"]]))
        yield dict(ops=ops, standalone=rng.random() < 0.3)


def _quiet_op(rng, t, ident):
    """a call on glyph `t` that does not look at its contours"""
    r = rng.random()
    if r < 0.16:
        return ["insAnchor", t, rng.randrange(4), ident(), rng.random() < 0.5]
    if r < 0.28:
        return ["insGuide", t, rng.randrange(4), ident(), rng.random() < 0.5]
    if r < 0.38:
        return ["insComp", t, rng.randrange(4), rng.choice([b for b in range(t + 1, NGLYPH)] + [MISSING]), ident()]
    if r < 0.45:
        return ["setAnchors", t, [ident() for _ in range(rng.randint(0, 3))]]
    if r < 0.52:
        return ["setGuides", t, [ident() for _ in range(rng.randint(0, 3))]]
    if r < 0.60:
        return ["genAnchorId", t, rng.randrange(4), [ident() or 0, ident() or 1, 901]]
    if r < 0.68:
        return ["setCompId", t, rng.randrange(4), ident()]
    if r < 0.74:
        return ["insAnchorBad", t, rng.randrange(4), ident(), rng.randrange(3), rng.randrange(len(BAD_COLORS))]
    if r < 0.80:
        return ["rmAnchor", t, rng.randrange(4)]
    if r < 0.86:
        return ["clearGuides", t]
    if r < 0.93:
        return ["instAnchor", t, ident()]
    return ["rmComp", t, rng.randrange(4)]


def _first_touch_op(rng, t, datas, ident):
    """a call that can be the FIRST thing to touch the shallow contours of glyph `t` - as the glyph it works on, or
    as the glyph it reads from"""
    lower = [u for u in range(NGLYPH) if u < t]
    higher = [u for u in range(NGLYPH) if u > t]
    stored = datas[t]["contours"]

    def contour():
        # an incoming contour: a stored one (the whole outline collides), or one with colliding / free identifiers
        if stored and rng.random() < 0.4:
            cid, pts = rng.choice(stored)
            return [cid, [list(q) for q in pts]]
        return [ident() if rng.random() < 0.6 else None,
                [[ty, ident() if rng.random() < 0.5 else None] for ty in rng.choice([[2, 2, 2], [1, 2, 2], [3, 2, 0, 0]])]]
    choices = [
        lambda: ["clearGlyph", t], lambda: ["clearContours", t], lambda: ["clearContours", t],
        lambda: ["roundtrip", t], lambda: ["roundtrip", t],
        lambda: ["draw", t, [contour() for _ in range(rng.randint(1, 2))], [], False],
        lambda: ["draw", t, [contour() for _ in range(rng.randint(1, 2))], [], True],
        lambda: ["draw", t, [], [[MISSING, ident()]], rng.random() < 0.5],
        lambda: ["insContour", t, rng.randrange(4)] + contour(),
        lambda: ["insContour", t, 99] + contour(),
        lambda: ["reinsContour", t, rng.randrange(4), rng.randrange(4)],
        lambda: ["rmAbsent", 0, t, rng.randrange(4)], lambda: ["rmAbsent", 0, t, rng.randrange(4)],
        lambda: ["load", t, rng.randrange(5)], lambda: ["rmContour", t, rng.randrange(4)], lambda: ["reverse", t, rng.randrange(4)],
        lambda: ["genPointId", t, rng.randrange(4), rng.randrange(4), [ident() or 0, 902]],
        lambda: ["insPoint", t, rng.randrange(4), rng.randrange(4), 2, ident()],
        lambda: ["setContourId", t, rng.randrange(4), ident()],
        lambda: ["rmAbsentPoint", t, rng.randrange(4), rng.randrange(5), rng.randrange(12), ident() or 0],
        lambda: ["decompose", t, rng.randrange(4)], lambda: ["decomposeAll", t],
        lambda: ["reload", t, gen_unique_data(rng, t)],
        lambda: ["tagged", ident() or 0, ["insContour", t, rng.randrange(4), None, [[2, None], [2, ident()]]]],
    ]
    if higher:
        choices += [
            lambda: ["deserializeFrom", t, rng.choice(higher)], lambda: ["copyFrom", t, rng.choice(higher)],
            lambda: ["copyFrom", t, rng.choice(higher)], lambda: ["copyFrom", t, rng.choice(higher)],
            lambda: ["drawFrom", t, rng.choice(higher), rng.random() < 0.5],
            lambda: ["drawFrom", t, rng.choice(higher), False], lambda: ["drawFrom", t, rng.choice(higher), True],
            lambda: ["rmForeign", 0, t, rng.choice(higher), rng.randrange(4)],
        ]
    if lower:
        # glyph `t` is the one that is read: drawn into / copied into / deserialised into / inserted as another
        # glyph, decomposed into a glyph that references it
        choices += [
            lambda: ["deserializeFrom", rng.choice(lower), t], lambda: ["deserializeFrom", rng.choice(lower), t],
            lambda: ["copyFrom", rng.choice(lower), t], lambda: ["copyFrom", rng.choice(lower), t],
            lambda: ["drawFrom", rng.choice(lower), t, False], lambda: ["drawFrom", rng.choice(lower), t, True],
            lambda: ["insertGlyph", rng.choice(lower), t], lambda: ["insertGlyphVia", rng.choice(lower), t, False],
            lambda: ["insertGlyphVia", rng.choice(lower), t, True],
            lambda: ["decompose", rng.choice(lower), rng.randrange(4)], lambda: ["decomposeAll", rng.choice(lower)],
            lambda: ["rmForeign", 0, rng.choice(lower), t, rng.randrange(4)],
        ]
    return rng.choice(choices)()


def gen_shallow_cases(rng, tier):
    """a UFO is opened: the glyphs hold their contours in the lazily loaded (shallow) form until something looks at
    them.  A few calls that do NOT look at contours (with identifiers that collide with those reserved by the
    shallow contours and points), then a call that is the first to touch the shallow contours - any of the calls
    that load them, replace them, or read them as a source -, then calls that ask for the identifiers again (the
    stored outline is drawn / inserted once more, anchors take the stored identifiers, the glyph is cleared, loaded,
    round-tripped).  Every case is also run on the fully loaded twin (see `twin_oracle`), and a third of them a second
    time with an explicit `load` of every glyph after every operation (the twin, through the model)."""
    n = 200 if tier == "quick" else 2400
    for _ in range(n):
        while True:
            datas = [gen_unique_data(rng, i) for i in range(NGLYPH)]
            if any(pid is not None for d in datas for c in d["contours"] for pid in [c[0]] + [q[1] for q in c[1]]):
                break
        for u in range(NGLYPH - 1):
            if rng.random() < 0.45:
                # a component whose base glyph will be shallow
                datas[u]["comps"].append([rng.randrange(u + 1, NGLYPH), None])
        stored = [sorted(_ids_of_data_raw(d)) for d in datas]
        then = None
        if rng.random() < 0.2:
            tt = rng.randrange(NGLYPH)
            then = [tt, rng.choice(stored[tt]) if stored[tt] and rng.random() < 0.6 else rng.choice(POOL)]
        ops = [["reopen", datas, [i if rng.random() < 0.6 else None for i in rng.sample(POOL, rng.randint(0, 2))],
                then, rng.random() < 0.5]]
        with_outline = [i for i in range(NGLYPH) if datas[i]["contours"]]
        for _round in range(rng.randint(1, 3)):
            t = rng.choice(with_outline) if rng.random() < 0.85 else rng.randrange(NGLYPH)

            def ident(t=t):
                if stored[t] and rng.random() < 0.65:
                    return rng.choice(stored[t])
                return _pid(rng, 0.2)
            if rng.random() < 0.45:
                # something for the limbo (taken from ANOTHER glyph, which that loads)
                u = rng.choice([x for x in range(NGLYPH) if x != t])
                ops.append(["rmContour", u, rng.randrange(4)])
            for _ in range(rng.randint(0, 3)):
                ops.append(_quiet_op(rng, t, ident))
            ops.append(_first_touch_op(rng, t, datas, ident))
            for _ in range(rng.randint(1, 3)):
                r = rng.random()
                if r < 0.25 and datas[t]["contours"]:
                    ops.append(["draw", t, [[c[0], [list(q) for q in c[1]]] for c in datas[t]["contours"]], [],
                                rng.random() < 0.25])
                elif r < 0.40 and datas[t]["contours"]:
                    c = rng.choice(datas[t]["contours"])
                    ops.append(["insContour", t, rng.randrange(4), c[0], [list(q) for q in c[1]]])
                elif r < 0.60:
                    ops.append(_quiet_op(rng, t, ident))
                elif r < 0.80:
                    ops.append(_first_touch_op(rng, t, datas, ident))
                elif r < 0.90:
                    ops.append(["reinsContour", rng.randrange(NGLYPH), rng.randrange(4), rng.randrange(4)])
                else:
                    ops.append(["load", rng.randrange(NGLYPH), rng.randrange(5)])
        case = dict(ops=ops, standalone=False)
        yield case
        if rng.random() < 0.34:
            loaded = []
            for op in ops:
                loaded.append(op)
                loaded.extend(["load", i] for i in range(NGLYPH))
            yield dict(ops=loaded, standalone=False)


def _ids_of_data_raw(d):
    res = set()
    for cid, pts in d["contours"]:
        res.add(cid)
        res.update(q[1] for q in pts)
    res.update(c[1] for c in d["comps"])
    res.update(d["anchors"])
    res.update(d["guides"])
    res.discard(None)
    return res


def gen_unread_font_cases(rng, tier):
    """a UFO with font guidelines is opened and the FIRST thing done to the font is a guideline call (insertion
    as dict or object, re-insertion, assignment, clearing, removal, setters ...), with a high rate of identifiers
    that collide with those stored in fontinfo.plist"""
    n = 80 if tier == "quick" else 800
    for _ in range(n):
        ops = []
        for _ in range(rng.randint(0, 2)):
            ops.append(["insGuide", rng.choice([0, FONT, FONT]), rng.randrange(4), _pid(rng, 0.3), rng.random() < 0.5])
        if rng.random() < 0.5:
            ops.append(["rmGuide", FONT, rng.randrange(4)])          # a detached guideline for reinsGuide
        fg = [i if rng.random() < 0.75 else None for i in rng.sample(POOL, rng.randint(1, 3))]
        stored = [i for i in fg if i is not None]
        ops.append(["reopen", [gen_unique_data(rng, i, with_comps=False) if rng.random() < 0.3 else
                               dict(contours=[], comps=[], anchors=[], guides=[]) for i in range(NGLYPH)],
                    fg, None, True])
        for _ in range(rng.randint(0, 1)):
            # calls that do not touch the font: it stays unread
            ops.append(["insAnchor", rng.randrange(NGLYPH), 0, _pid(rng, 0.5), rng.random() < 0.5])

        def ident():
            r = rng.random()
            if stored and r < 0.6:
                return rng.choice(stored)
            return _pid(rng, 0.2)
        r = rng.random()
        if r < 0.45:
            first = ["insGuide", FONT, rng.randrange(6), ident(), rng.random() < 0.7]
        elif r < 0.55:
            first = ["reinsGuide", FONT, rng.randrange(6), rng.randrange(4)]
        elif r < 0.70:
            first = ["setGuides", FONT, [ident() for _ in range(rng.randint(0, 3))]]
        elif r < 0.76:
            first = ["clearGuides", FONT]
        elif r < 0.82:
            first = ["rmGuide", FONT, rng.randrange(4)]
        elif r < 0.87:
            first = ["setGuideId", FONT, rng.randrange(4), ident()]
        elif r < 0.91:
            first = ["genGuideId", FONT, rng.randrange(4), [ident() or 0, 555]]
        elif r < 0.94:
            first = ["insGuideBad", FONT, rng.randrange(6), ident(), rng.randrange(3), rng.randrange(len(BAD_COLORS))]
        elif r < 0.97:
            first = ["setGuidesBad", FONT, [ident() for _ in range(rng.randint(0, 2))], ident(), [],
                     rng.randrange(len(BAD_COLORS))]
        else:
            first = ["tagged", ident() or 0, ["insGuide", FONT, rng.randrange(6), None, rng.random() < 0.5]]
        ops.append(first)
        ops.append(rng.choice([["insGuide", FONT, rng.randrange(6), ident(), rng.random() < 0.5],
                               ["rmGuide", FONT, rng.randrange(4)], ["fontRoundtrip"], ["clearGuides", FONT]]))
        yield dict(ops=ops, standalone=False)


def generate(rng, tier):
    n, maxlen = (2000, 25) if tier == "quick" else (12000, 60)
    for _ in range(n):
        yield gen_case(rng, maxlen)
    for c in gen_shape_cases(rng, tier):
        yield c
    for c in gen_stale_point_cases(rng, tier):
        yield c
    for c in gen_stranger_cases(rng, tier):
        yield c
    for c in gen_shallow_cases(rng, tier):
        yield c
    for c in gen_unread_font_cases(rng, tier):
        yield c


def neighbourhood(case, step, rng):
    """variants around a diverging step: the prefix, the prefix followed by the observations/ops the property
    talks about (remove + re-insert, clear, reverse, roundtrip, generate), and single-op deletions before it"""
    ops = case["ops"]
    prefix = ops[:step + 1]
    yield dict(case, ops=prefix)
    follow = []
    for t in range(NGLYPH):
        follow += [["rmContour", t, 0], ["reinsContour", t, 0, 0], ["clearContours", t], ["clearGlyph", t],
                   ["reverse", t, 0], ["roundtrip", t], ["genContourId", t, 0, [0, 1, 2, 3, 4, 5, 900]],
                   ["rmComp", t, 0], ["rmAnchor", t, 0], ["rmGuide", t, 0], ["clearContour", t, 0],
                   ["insAnchor", t, 0, 0, True], ["insAnchor", t, 0, 1, False]]
        if not case.get("standalone"):
            follow += [["tagged", 0, ["insContour", t, 0, None, [[2, None]]]], ["tagged", 1, ["insAnchor", t, 0, None, False]]]
    follow += [["rmGuide", FONT, 0], ["clearGuides", FONT], ["fontRoundtrip"]]
    for i in POOL:
        # is an identifier that should be in use still refused?  is one that should be free accepted?
        follow += [["insAnchor", 0, 0, i, True], ["insGuide", FONT, 0, i, True]]
    for f in follow:
        yield dict(case, ops=prefix + [f])
    for f in follow[:8]:
        for g in follow[:8]:
            yield dict(case, ops=prefix + [f, g])
    for i in range(len(prefix) - 1):
        yield dict(case, ops=prefix[:i] + prefix[i + 1:])
    yield case


# ---------------------------------------------------------------------------------------
# model side
# ---------------------------------------------------------------------------------------

def _enc_pts(pts):
    return [[p[0], opt(p[1])] for p in pts]


def _enc_contour(c):
    return [opt(c[0]), _enc_pts(c[1])]


def _enc_data(d):
    return [[_enc_contour(c) for c in d["contours"]], [[b, opt(i)] for b, i in d["comps"]],
            [opt(i) for i in d["anchors"]], [opt(i) for i in d["guides"]]]


def enc_op(op):
    op = effective(op)
    k = op[0]
    A = Atom(k)
    if k == "insContour":
        return [A, op[1], op[2], opt(op[3]), _enc_pts(op[4])]
    if k in ("reinsContour", "reinsComp", "reinsAnchor", "reinsGuide", "rmPoint", "split", "setStart"):
        return [A, op[1], op[2], op[3]]
    if k in ("rmContour", "rmComp", "rmAnchor", "rmGuide", "clearContour", "reverse", "decompose"):
        return [A, op[1], op[2]]
    if k in ("clearContours", "clearComps", "clearAnchors", "clearGuides", "clearGlyph", "decomposeAll", "roundtrip"):
        return [A, op[1]]
    if k == "insPoint":
        return [A, op[1], op[2], op[3], op[4], opt(op[5])]
    if k == "addPoint":
        return [A, op[1], op[2], op[3], opt(op[4])]
    if k == "rmSegment":
        return [A, op[1], op[2], op[3], bool(op[4])]
    if k in ("setContourId", "setCompId", "setAnchorId", "setGuideId"):
        return [A, op[1], op[2], opt(op[3])]
    if k in ("genContourId", "genCompId", "genAnchorId", "genGuideId"):
        return [A, op[1], op[2], list(op[3])]
    if k == "genPointId":
        return [A, op[1], op[2], op[3], list(op[4])]
    if k == "insComp":
        return [A, op[1], op[2], op[3], opt(op[4])]
    if k in ("insAnchor", "insGuide"):
        return [A, op[1], op[2], opt(op[3]), bool(op[4])]
    if k in ("setAnchors", "setGuides"):
        return [A, op[1], [opt(i) for i in op[2]]]
    if k == "limboSetId":
        return [A, op[1], op[2], opt(op[3])]
    if k == "limboGenId":
        return [A, op[1], op[2], list(op[3])]
    if k == "limboAddPoint":
        return [A, op[1], op[2], opt(op[3])]
    if k == "draw":
        return [A, op[1], [_enc_contour(c) for c in op[2]], [[b, opt(i)] for b, i in op[3]], bool(op[4])]
    if k == "drawFrom":
        return [A, op[1], op[2], bool(op[3])]
    if k in ("copyFrom", "insertGlyph", "deserializeFrom", "insertGlyphVia"):
        return [A, op[1], op[2]]
    if k == "load":
        return [A, op[1]]
    if k == "fontRoundtrip":
        return [A]
    if k in ("instAnchor", "instGuide"):
        return [A, op[1], opt(op[2])]
    if k == "reload":
        return [A, op[1], _enc_data(op[2])]
    if k == "reopen":
        return [A, [_enc_data(d) for d in op[1]], [opt(i) for i in op[2]],
                Atom("none") if op[3] is None else [Atom("some"), [op[3][0], op[3][1]]]]
    # the refused calls: which stranger / which invalid colour / which spelling is the implementation's business
    if k == "rmAbsentPoint":
        return [A, op[1], op[2]]
    if k == "rmAbsent":
        return [A, op[1], op[2], op[3]]
    if k == "rmForeign":
        return [A, op[1], op[2], op[3], op[4]]
    if k in ("insAnchorBad", "insGuideBad"):
        return [A, op[1], op[2], opt(op[3])]
    if k in ("setAnchorsBad", "setGuidesBad"):
        return [A, op[1], [opt(i) for i in op[2]]]
    raise ValueError(op)


def model_lines(case):
    return [enc_op(op) for op in case["ops"]]


# ---------------------------------------------------------------------------------------
# implementation side
# ---------------------------------------------------------------------------------------

class ScriptExhausted(Exception):
    pass


class _ScriptedRandom(object):
    """stands in for the `random` module inside defcon.tools.identifiers"""

    def __init__(self):
        self.queue = []

    def load(self, cands):
        self.queue = [ch for c in cands for ch in id2s(c)]

    def choice(self, seq):
        if not self.queue:
            raise ScriptExhausted()
        return self.queue.pop(0)


def _err(e):
    return [Atom("err"), Atom(type(e).__name__)]


class World(object):

    def __init__(self, standalone, uses_disk=False, twin=False):
        import defcon
        self.twin = twin        # the fully loaded twin: every glyph's contours are looked at after every operation
        import defcon.tools.identifiers as identmod
        self.defcon = defcon
        self.rand = _ScriptedRandom()
        self._identmod = identmod
        self._saved_random = identmod.random
        identmod.random = self.rand
        self.standalone = standalone
        self.tmp = None
        self.keep = []
        self.font = defcon.Font()
        if standalone:
            self.glyphs = [defcon.Glyph() for _ in range(NGLYPH)]
            for i, g in enumerate(self.glyphs):
                g.name = "G%d" % i
        else:
            self.glyphs = [self.font.newGlyph("G%d" % i) for i in range(NGLYPH)]
        self.keep.extend(self.glyphs)
        self.limbo = [[], [], [], []]
        self.npoints = 0
        self.changed = 0        # successful identifier-changing ops
        self.rejected = 0       # AssertionError results
        self.generated = 0
        self.gen_checks = []    # records for the generated-fresh clause of the oracle
        self.tagged_fired = 0
        self.stale = []         # Point objects that used to be in a contour of the world (replaced, removed, cleared)
        self.unread = None      # identifiers of the guidelines in fontinfo.plist while the re-opened font is unread
        self.unread_first = 0   # guideline calls that were the first thing to touch an unread font
        self.on_shallow = 0     # calls on a glyph whose contours were still shallow loaded
        self.src_shallow = {}   # calls that read a glyph whose contours were still shallow as their SOURCE
        self.first_touch = {}   # ... by operation kind, when the call also was what loaded them (or replaced them)
        self.extra_viol = []
        if uses_disk and not standalone:
            self.disk()         # saved while the glyphs are still empty

    def close(self):
        self._identmod.random = self._saved_random
        if self.tmp is not None:
            shutil.rmtree(self.tmp, ignore_errors=True)

    # -- helpers ------------------------------------------------------------------------

    def container(self, t):
        return self.font if t == FONT else self.glyphs[t]

    def new_point(self, typ, pid):
        self.npoints += 1
        k = self.npoints
        return self.defcon.Point((k * 10, (k * k * 3) % 97), segmentType=TYPES[typ], identifier=id2s(pid))

    def coords(self):
        self.npoints += 1
        k = self.npoints
        return (k * 10, (k * k * 3) % 97)

    def new_contour(self, cid, pts):
        c = self.defcon.Contour()
        self.keep.append(c)
        if cid is not None:
            c.identifier = id2s(cid)
        for typ, pid in pts:
            c.addPoint(self.coords(), TYPES[typ], identifier=id2s(pid))
        c.dirty = False
        return c

    def to_limbo(self, kind, obj):
        l = self.limbo[kind]
        l.append(obj)
        if len(l) > LIMBO_CAP:
            del l[0]

    def children(self, t, kind):
        c = self.container(t)
        if kind == 0:
            return list(c)
        if kind == 1:
            return c.components
        if kind == 2:
            return c.anchors
        return c.guidelines

    def shallow(self, t):
        """glyph `t` still holds its contours in the lazily loaded (shallow) form: plain records, no Contour /
        Point objects yet.  Read off the private attribute: every public way to look at contours deepens them."""
        return t != FONT and bool(self.glyphs[t]._shallowLoadedContours)

    def ncontours(self, t):
        """number of contours of glyph `t`, without looking at them while they are shallow"""
        if self.shallow(t):
            return len(self.glyphs[t]._shallowLoadedContours)
        return len(self.glyphs[t])

    def children_now(self, t, kind):
        """the children after a call, for the limbo bookkeeping: the contours of a glyph that is (again) shallow
        are new records, none of them is an object that existed before the call - and must not be deepened by
        the harness"""
        if kind == 0 and self.shallow(t):
            return []
        return self.children(t, kind)

    def base_name(self, b):
        return "G%d" % b if b != MISSING else "missing"

    def font_unread(self):
        """the re-opened font has not read fontinfo.plist (where its guidelines live) yet.  `_info` is read, not
        `info`: asking for `font.info` / `font.guidelines` is what triggers the read."""
        if self.unread is not None and self.font._info is not None:
            self.unread = None
        return self.unread is not None

    def nchildren(self, t, kind):
        """number of children, without making an unread font read its guidelines"""
        if t == FONT and self.font_unread():
            return len(self.unread)
        return len(self.children(t, kind))

    def removed_by(self, cont, t, kind, call):
        """run `call` (a clear / an assignment) and move the objects it removed to the limbo.  On an unread font
        the removed objects only exist once the call has made the font read them: they are collected from the
        `Font.GuidelineWillBeDeleted` notifications."""
        if t == FONT and self.font_unread():
            self.unread_first += 1
            col = _Collector()
            self.keep.append(col)
            cont.addObserver(col, "cb", "Font.GuidelineWillBeDeleted")
            try:
                call()
            finally:
                cont.removeObserver(col, "Font.GuidelineWillBeDeleted")
                for o in col.objs:
                    self.to_limbo(kind, o)
            return
        with self.removal(t, [kind]):
            call()

    def removal(self, t, kinds):
        """context: the objects of `kinds` that the enclosed call removes from container `t` go to the limbo, in
        removal order.  The children are listed before and after the call - except the contours of a glyph that is
        still shallow: listing them would be the read access that loads them, and the call is meant to be the first
        thing that touches them.  The Contour objects such a call makes and removes are collected from the glyph's
        `Glyph.ContourWillBeDeleted` notifications instead."""
        return _Removal(self, t, kinds)

    def note_stale(self, before, contour):
        now = list(contour)
        gone = [p for p in before if not any(p is q for q in now)]
        self.stale = (self.stale + gone)[-STALE_CAP:]

    def bad_dict(self, isA, ident, colour):
        d = dict(x=1, y=2, name="n", color=BAD_COLORS[colour % len(BAD_COLORS)])
        if not isA:
            d["angle"] = 0
        if ident is not None:
            d["identifier"] = id2s(ident)
        return d

    def check_extra(self, glyph, site):
        """a glyph outside the world (the copy `Layer.insertGlyph` made in another font): the property's first two
        clauses, on the spot"""
        carried = []
        for c in glyph:
            carried.append(c.identifier)
            carried.extend(p.identifier for p in c)
        for group in (glyph.components, glyph.anchors, glyph.guidelines):
            carried.extend(o.identifier for o in group)
        carried = [i for i in carried if i is not None]
        if len(carried) != len(set(carried)) or set(carried) != set(glyph.identifiers):
            self.extra_viol.append(dict(site=site, carried=sorted(carried), registry=sorted(glyph.identifiers)))

    def disk(self):
        """the font lives in a UFO from the first disk op on"""
        if self.tmp is None:
            self.tmp = tempfile.mkdtemp(prefix="c10_")
            self.path = os.path.join(self.tmp, "w0.ufo")
            self.nufo = 0
            self.font.save(self.path)
        return self.path

    # -- observation --------------------------------------------------------------------

    def observe(self):
        """returns (S-expression observation, plain snapshot for the oracle).  The registries of ALL
        containers are read first: reading a glyph's contours completes a lazy load."""
        conts = [self.container(t) for t in range(NGLYPH + 1)]
        unread = self.font_unread()
        regs_raw = [sorted(c.identifiers) for c in conts[:NGLYPH]]
        if unread:
            # not observed: what was written to fontinfo.plist (see ASSUMPTIONS)
            regs_raw.append(sorted(id2s(i) for i in self.unread if i is not None))
        else:
            regs_raw.append(sorted(self.font.identifiers))
        regs = [sorted(s2id(x) for x in r) for r in regs_raw]
        out = []
        snap = []
        for t in range(NGLYPH):
            g = self.glyphs[t]
            carried = []
            contours = []
            records = g._shallowLoadedContours
            if records:
                # lazily loaded contours are observed as the records they are: iterating the glyph would deepen them
                # after every operation, and no history would ever run on a shallow glyph
                for ci, d in enumerate(records):
                    carried.append((("shallow", ci), d.get("identifier")))
                    pts = []
                    for pi, (args, kwargs) in enumerate(d["points"]):
                        carried.append((("shallow", ci, pi), kwargs.get("identifier")))
                        pts.append([TYPES.index(kwargs.get("segmentType")), opt(s2id(kwargs.get("identifier")))])
                    contours.append([opt(s2id(d.get("identifier"))), pts])
            else:
                for c in g:
                    carried.append((id(c), c.identifier))
                    pts = []
                    for p in c:
                        carried.append((id(p), p.identifier))
                        pts.append([TYPES.index(p.segmentType), opt(s2id(p.identifier))])
                    contours.append([opt(s2id(c.identifier)), pts])
            comps = []
            for c in g.components:
                carried.append((id(c), c.identifier))
                comps.append([self._base_index(c.baseGlyph), opt(s2id(c.identifier))])
            anchors = []
            for a in g.anchors:
                carried.append((id(a), a.identifier))
                anchors.append(opt(s2id(a.identifier)))
            guides = []
            for a in g.guidelines:
                carried.append((id(a), a.identifier))
                guides.append(opt(s2id(a.identifier)))
            out.append([[Atom("set")] + regs[t], contours, comps, anchors, guides,
                        Atom("shallow" if records else "loaded")])
            snap.append(dict(reg=regs_raw[t], carried=carried, obj=id(g), unread=bool(records)))
        fg = []
        carried = []
        if unread:
            for n, i in enumerate(self.unread):
                carried.append((-1 - n, id2s(i)))
                fg.append(opt(i))
        else:
            for a in self.font.guidelines:
                carried.append((id(a), a.identifier))
                fg.append(opt(s2id(a.identifier)))
        out.append([[Atom("set")] + regs[FONT], fg])
        snap.append(dict(reg=regs_raw[FONT], carried=carried, obj=id(self.font), unread=unread))
        lim = []
        for c in self.limbo[0]:
            lim.append([opt(s2id(c.identifier)), [[TYPES.index(p.segmentType), opt(s2id(p.identifier))] for p in c]])
        out.append([lim] + [[opt(s2id(o.identifier)) for o in self.limbo[k]] for k in (1, 2, 3)])
        return out, snap

    def _base_index(self, name):
        if name == "missing":
            return MISSING
        return int(name[1:])

    # -- operations ---------------------------------------------------------------------

    def do(self, op):
        inner = op[2] if op[0] == "tagged" else op
        t = inner[2] if inner[0] in ("rmAbsent", "rmForeign") else (inner[1] if len(inner) > 1 else None)
        if isinstance(t, int) and t < NGLYPH and inner[0] not in ("limboSetId", "limboGenId", "limboAddPoint", "reopen") \
                and self.shallow(t):
            self.on_shallow += 1
            was_shallow = self.glyphs[t]
        else:
            was_shallow = None
        if inner[0] in ("drawFrom", "copyFrom", "insertGlyph", "insertGlyphVia", "deserializeFrom") and self.shallow(inner[2]):
            self.src_shallow[inner[0]] = self.src_shallow.get(inner[0], 0) + 1
        if inner[0] in ("decompose", "decomposeAll") and any(self.shallow(b) for b in range(inner[1] + 1, NGLYPH)):
            self.src_shallow[inner[0]] = self.src_shallow.get(inner[0], 0) + 1
        try:
            try:
                res = self._do(op)
            finally:
                if was_shallow is not None and (not was_shallow._shallowLoadedContours
                                                or inner[0] in ("roundtrip", "deserializeFrom")):
                    # (a glyph that is fed a serialisation is cleared first - that loads it -, and may be shallow
                    # again afterwards)
                    self.first_touch[inner[0]] = self.first_touch.get(inner[0], 0) + 1
            if res is None:
                res = Atom("ok")
        except AssertionError as e:
            res = _err(e)
        except ScriptExhausted as e:
            res = _err(e)
        except (KeyError, IndexError, ValueError, NotImplementedError) as e:
            res = _err(e)
        except Exception as e:   # PenError etc.: class name only
            res = _err(e)
        return res

    def _pick(self, seq, r):
        """index reduced modulo the length; None when empty"""
        if not seq:
            return None
        return r % len(seq)

    def _gen(self, cands):
        self.rand.load(cands)

    def _do(self, op):
        k = op[0]
        D = self.defcon
        EMPTY = [Atom("err"), Atom("Empty")]
        if k == "tagged":
            inner = op[2]
            cont = self.container(inner[1])
            what = {"insContour": "Contour", "insComp": "Component", "insAnchor": "Anchor", "insGuide": "Guideline"}[inner[0]]
            name = "%s.%sWillBeAdded" % ("Font" if inner[1] == FONT else "Glyph", what)
            tagger = _Tagger(id2s(op[1]))
            self.keep.append(tagger)
            cont.addObserver(tagger, "cb", name)
            try:
                return self._do(inner)
            finally:
                cont.removeObserver(tagger, name)
                self.tagged_fired += tagger.fired
        if k == "insContour":
            g = self.glyphs[op[1]]
            c = self.new_contour(op[3], op[4])
            # (the number of contours is taken without looking at them: the call itself is to be the first touch of
            # a shallow glyph - `assert contour not in self` for insertContour, `len(self)` for appendContour)
            n = self.ncontours(op[1])
            idx = op[2] % (n + 1)
            if idx == n and op[2] % 2 == 0:
                g.appendContour(c)
            else:
                g.insertContour(idx, c)
            return
        if k in ("reinsContour", "reinsComp", "reinsAnchor", "reinsGuide"):
            kind = ["reinsContour", "reinsComp", "reinsAnchor", "reinsGuide"].index(k)
            c = self.container(op[1])
            l = self.limbo[kind]
            i = self._pick(l, op[3])
            if i is None:
                return EMPTY
            obj = l[i]
            if kind == 1:
                b = self._base_index(obj.baseGlyph)
                if b != MISSING and b <= op[1]:
                    return [Atom("err"), Atom("Cyclic")]    # would make the component graph cyclic
            if op[1] == FONT and self.font_unread():
                self.unread_first += 1
            n = self.ncontours(op[1]) if kind == 0 else self.nchildren(op[1], kind)
            idx = op[2] % (n + 1)
            if kind == 0:
                c.insertContour(idx, obj)
            elif kind == 1:
                c.insertComponent(idx, obj)
            elif kind == 2:
                c.insertAnchor(idx, obj)
            else:
                c.insertGuideline(idx, obj)
            del l[i]
            return
        if k in ("rmContour", "rmComp", "rmAnchor", "rmGuide"):
            kind = ["rmContour", "rmComp", "rmAnchor", "rmGuide"].index(k)
            c = self.container(op[1])
            ch = self.children(op[1], kind)
            i = self._pick(ch, op[2])
            if i is None:
                return EMPTY
            obj = ch[i]
            if op[1] == FONT:
                c.removeGuideline(obj)
            else:
                [c.removeContour, c.removeComponent, c.removeAnchor, c.removeGuideline][kind](obj)
            self.to_limbo(kind, obj)
            return
        if k in ("clearContours", "clearComps", "clearAnchors", "clearGuides"):
            kind = ["clearContours", "clearComps", "clearAnchors", "clearGuides"].index(k)
            c = self.container(op[1])
            if op[1] == FONT:
                call = c.clearGuidelines
            else:
                call = [c.clearContours, c.clearComponents, c.clearAnchors, c.clearGuidelines][kind]
            self.removed_by(c, op[1], kind, call)
            return
        if k == "clearGlyph":
            g = self.glyphs[op[1]]
            with self.removal(op[1], [0, 1, 2, 3]):
                g.clear()
            return
        if k in ("insPoint", "addPoint", "rmPoint", "clearContour", "reverse", "rmSegment", "split", "setStart",
                 "setContourId", "genContourId", "genPointId"):
            g = self.glyphs[op[1]]
            ci = self._pick(list(g), op[2])
            if ci is None:
                return EMPTY
            c = g[ci]
            before = list(c)
            try:
                return self._contour_op(k, op, g, c)
            finally:
                self.note_stale(before, c)
        if k == "rmAbsentPoint":
            g = self.glyphs[op[1]]
            ci = self._pick(list(g), op[2])
            if ci is None:
                return EMPTY
            c = g[ci]
            how, kk, ident = op[3], op[4], op[5]
            inside = list(c)
            if how == 0:
                cands = list(self.stale)
            elif how == 1:
                cands = [q for c2 in g if c2 is not c for q in c2]
            elif how == 2:
                # (glyphs whose contours are still shallow have no Point objects to offer; looking would load them)
                cands = [q for t2, g2 in enumerate(self.glyphs) if g2 is not g and not self.shallow(t2)
                         for c2 in g2 for q in c2]
            elif how == 3:
                cands = [q for c2 in self.limbo[0] for q in c2]
            else:
                cands = []
            cands = [q for q in cands if not any(q is x for x in inside)]
            reg = g.identifiers
            # a stranger whose identifier is in use in this glyph is the interesting one
            cands = [q for q in cands if q.identifier is not None and q.identifier in reg] or cands
            if cands:
                stranger = cands[kk % len(cands)]
            else:
                stranger = D.Point((3, 4), segmentType="line", identifier=id2s(ident))
                self.keep.append(stranger)
            c.removePoint(stranger)
            return
        if k in ("rmAbsent", "rmForeign"):
            kind, t = op[1], op[2]
            if k == "rmAbsent":
                src = list(self.limbo[kind])
                r = op[3]
            else:
                if t == op[3]:
                    return EMPTY
                src = self.children(op[3], kind)
                r = op[4]
            if not src:
                return EMPTY
            c = self.container(t)
            reg = c.identifiers

            def ids_of(o):
                return [o.identifier] + ([q.identifier for q in o] if kind == 0 else [])
            # a stranger that carries an identifier in use in the target is the interesting one
            src = [o for o in src if any(i is not None and i in reg for i in ids_of(o))] or src
            stranger = src[r % len(src)]
            if t == FONT:
                c.removeGuideline(stranger)
            else:
                [c.removeContour, c.removeComponent, c.removeAnchor, c.removeGuideline][kind](stranger)
            return
        if k in ("insAnchorBad", "insGuideBad"):
            cont = self.container(op[1])
            isA = k == "insAnchorBad"
            if op[1] == FONT and self.font_unread():
                self.unread_first += 1
            n = self.nchildren(op[1], 2 if isA else 3)
            idx = op[2] % (n + 1)
            d = self.bad_dict(isA, op[3], op[5])
            spelling = op[4] % 3
            if spelling == 1 and not (op[1] == FONT and self.font_unread()):
                (cont.appendAnchor if isA else cont.appendGuideline)(d)
            elif spelling == 2 and not (op[1] == FONT and self.font_unread()):
                o = (cont.instantiateAnchor if isA else cont.instantiateGuideline)(d)
                self.keep.append(o)
            else:
                (cont.insertAnchor if isA else cont.insertGuideline)(idx, d)
            return
        if k in ("setAnchorsBad", "setGuidesBad"):
            cont = self.container(op[1])
            isA = k == "setAnchorsBad"
            dicts = []
            for i in op[2]:
                dicts.append(self._good_dict(isA, i))
            dicts.append(self.bad_dict(isA, op[3], op[5]))
            for i in op[4]:
                dicts.append(self._good_dict(isA, i))

            def assign():
                if isA:
                    cont.anchors = dicts
                else:
                    cont.guidelines = dicts
            self.removed_by(cont, op[1], 2 if isA else 3, assign)
            return
        return self._do2(op)

    def _good_dict(self, isA, ident):
        d = dict(x=1, y=2, name="n")
        if not isA:
            d["angle"] = 0
        if ident is not None:
            d["identifier"] = id2s(ident)
        return d

    def _contour_op(self, k, op, g, c):
        EMPTY = [Atom("err"), Atom("Empty")]
        if k == "insPoint":
            c.insertPoint(op[3] % (len(c) + 1), self.new_point(op[4], op[5]))
            return
        if k == "addPoint":
            c.addPoint(self.coords(), TYPES[op[3]], identifier=id2s(op[4]))
            return
        if k == "clearContour":
            c.clear()
            return
        if k == "reverse":
            # Contour.reverse reads self.clockwise before and after reversing; on a contour fontTools cannot
            # draw that raises PenError or not depending on the representation cache (C03's subject).
            # Probe with fontTools itself and keep such contours out of the domain.
            from fontTools.pens.pointPen import PointToSegmentPen, ReverseContourPointPen
            from fontTools.pens.basePen import NullPen
            c.drawPoints(PointToSegmentPen(NullPen()))
            c.drawPoints(ReverseContourPointPen(PointToSegmentPen(NullPen())))
            c.reverse()
            return
        if k == "setContourId":
            c.identifier = id2s(op[3])
            return
        if k == "genContourId":
            self._gen(op[3])
            before = set(g.identifiers)
            had = c.identifier
            v = c.generateIdentifier()
            self.gen_checks.append(dict(had=had, value=v, before=before, now=set(g.identifiers), carried=c.identifier))
            return [Atom("id"), opt(s2id(v))]
        if k == "rmSegment":
            segs = c.segments
            si = self._pick(segs, op[3])
            if si is None:
                return EMPTY
            c.removeSegment(si, preserveCurve=bool(op[4]))
            return
        if k == "split":
            segs = c.segments
            si = self._pick(segs, op[3])
            if si is None:
                return EMPTY
            c.splitAndInsertPointAtSegmentAndT(si, 0.5)
            return
        pi = self._pick(list(c), op[3])
        if pi is None:
            return EMPTY
        if k == "rmPoint":
            c.removePoint(c[pi])
            return
        if k == "setStart":
            c.setStartPoint(pi)
            return
        if k == "genPointId":
            self._gen(op[4])
            p = c[pi]
            before = set(g.identifiers)
            had = p.identifier
            v = c.generateIdentifierForPoint(p)
            self.gen_checks.append(dict(had=had, value=v, before=before, now=set(g.identifiers), carried=p.identifier))
            return [Atom("id"), opt(s2id(v))]
        raise ValueError(op)

    def _do2(self, op):
        k = op[0]
        D = self.defcon
        EMPTY = [Atom("err"), Atom("Empty")]
        if k == "insComp":
            g = self.glyphs[op[1]]
            c = D.Component()
            self.keep.append(c)
            c.baseGlyph = self.base_name(op[3])
            if op[4] is not None:
                c.identifier = id2s(op[4])
            g.insertComponent(op[2] % (len(g.components) + 1), c)
            return
        if k in ("setCompId", "setAnchorId", "setGuideId", "genCompId", "genAnchorId", "genGuideId"):
            kind = {"Comp": 1, "Anchor": 2, "Guide": 3}[k[3:-2]]
            cont = self.container(op[1])
            ch = self.children(op[1], kind)
            i = self._pick(ch, op[2])
            if i is None:
                return EMPTY
            o = ch[i]
            if k.startswith("set"):
                o.identifier = id2s(op[3])
                return
            self._gen(op[3])
            before = set(cont.identifiers)
            had = o.identifier
            v = o.generateIdentifier()
            self.gen_checks.append(dict(had=had, value=v, before=before, now=set(cont.identifiers), carried=o.identifier))
            return [Atom("id"), opt(s2id(v))]
        if k == "decompose":
            g = self.glyphs[op[1]]
            ch = g.components
            i = self._pick(ch, op[2])
            if i is None:
                return EMPTY
            g.decomposeComponent(ch[i])
            self.to_limbo(1, ch[i])
            return
        if k == "decomposeAll":
            g = self.glyphs[op[1]]
            ch = g.components
            g.decomposeAllComponents()
            for o in ch:
                self.to_limbo(1, o)
            return
        if k in ("insAnchor", "insGuide"):
            cont = self.container(op[1])
            isA = k == "insAnchor"
            if op[1] == FONT and self.font_unread():
                self.unread_first += 1
            idx = op[2] % (self.nchildren(op[1], 2 if isA else 3) + 1)
            if op[4]:
                d = dict(x=1, y=2, name="n")
                if not isA:
                    d["angle"] = 0
                if op[3] is not None:
                    d["identifier"] = id2s(op[3])
                obj = d
            else:
                obj = D.Anchor() if isA else D.Guideline()
                self.keep.append(obj)
                obj.x = 1
                obj.y = 2
                if not isA:
                    obj.angle = 0
                if op[3] is not None:
                    obj.identifier = id2s(op[3])
            (cont.insertAnchor if isA else cont.insertGuideline)(idx, obj)
            return
        if k in ("setAnchors", "setGuides"):
            cont = self.container(op[1])
            isA = k == "setAnchors"
            dicts = [self._good_dict(isA, i) for i in op[2]]

            def assign():
                if isA:
                    cont.anchors = dicts
                else:
                    cont.guidelines = dicts
            self.removed_by(cont, op[1], 2 if isA else 3, assign)
            return
        if k in ("limboSetId", "limboGenId", "limboAddPoint"):
            kind = op[1] if k != "limboAddPoint" else 0
            l = self.limbo[kind]
            i = self._pick(l, op[2] if k != "limboAddPoint" else op[1])
            if i is None:
                return EMPTY
            o = l[i]
            if k == "limboSetId":
                o.identifier = id2s(op[3])
                return
            if k == "limboGenId":
                self._gen(op[3])
                v = o.generateIdentifier()
                return [Atom("id"), opt(s2id(v))]
            o.addPoint(self.coords(), TYPES[op[2]], identifier=id2s(op[3]))
            return
        if k == "draw":
            g = self.glyphs[op[1]]
            pen = g.getPointPen()
            self.keep.append(pen)
            pen.skipConflictingIdentifiers = bool(op[4])
            for cid, pts in op[2]:
                pen.beginPath(identifier=id2s(cid))
                for typ, pid in pts:
                    pen.addPoint(self.coords(), segmentType=TYPES[typ], identifier=id2s(pid))
                pen.endPath()
            for b, i in op[3]:
                pen.addComponent(self.base_name(b), (1, 0, 0, 1, 0, 0), identifier=id2s(i))
            return
        if k == "drawFrom":
            g = self.glyphs[op[1]]
            pen = g.getPointPen()
            self.keep.append(pen)
            pen.skipConflictingIdentifiers = bool(op[3])
            self.glyphs[op[2]].drawPoints(pen)
            return
        if k == "copyFrom":
            g = self.glyphs[op[1]]
            olds = [self.children(op[1], 2), self.children(op[1], 3)]
            try:
                g.copyDataFromGlyph(self.glyphs[op[2]])
            finally:
                for kind, old in ((2, olds[0]), (3, olds[1])):
                    now = self.children_now(op[1], kind)
                    for o in reversed(old):
                        if not any(o is x for x in now):
                            self.to_limbo(kind, o)
            return
        if k == "insertGlyph":
            layer = self.font.layers.defaultLayer
            try:
                layer.insertGlyph(self.glyphs[op[2]], name="G%d" % op[1])
            finally:
                self.glyphs[op[1]] = layer["G%d" % op[1]]
                self.keep.append(self.glyphs[op[1]])
            return
        if k in ("roundtrip", "deserializeFrom"):
            g = self.glyphs[op[1]]
            src = g if k == "roundtrip" else self.glyphs[op[2]]
            data = src.getDataForSerialization()
            data.pop("name", None)
            with self.removal(op[1], [0, 1, 2, 3]):
                g.setDataFromSerialization(data)
            return
        if k == "fontRoundtrip":
            old = self.font.guidelines
            data = dict(guidelines=self.font.getDataForSerialization()["guidelines"])
            try:
                self.font.setDataFromSerialization(data)
            finally:
                now = self.font.guidelines
                for o in reversed(old):
                    if not any(o is x for x in now):
                        self.to_limbo(3, o)
            return
        if k in ("instAnchor", "instGuide"):
            cont = self.container(op[1])
            d = dict(x=1, y=2, name="n")
            if op[2] is not None:
                d["identifier"] = id2s(op[2])
            if k == "instAnchor":
                o = cont.instantiateAnchor(d)
            else:
                d["angle"] = 0
                if op[1] == FONT and self.font_unread():
                    self.font.guidelines        # see ASSUMPTIONS (F70)
                o = cont.instantiateGuideline(d)
            self.keep.append(o)
            return
        if k == "load":
            # a read access to the contours, nothing else: any of the public ways to look at them
            g = self.glyphs[op[1]]
            how = op[2] % 5 if len(op) > 2 else 0
            if how == 0:
                len(g)
            elif how == 1:
                for _contour in g:
                    pass
            elif how == 2:
                try:
                    g[0]
                except IndexError:
                    pass
            elif how == 3:
                stranger = D.Contour()
                self.keep.append(stranger)
                assert stranger not in g
            else:
                stranger = D.Contour()
                self.keep.append(stranger)
                try:
                    g.contourIndex(stranger)
                except ValueError:
                    pass
            return
        if k == "insertGlyphVia":
            # the glyph is inserted into a layer of ANOTHER font (or, `op[3]`, into another layer of its own font);
            # the copy made there is what comes back
            if len(op) > 3 and op[3]:
                if "c10.other" not in self.font.layers.layerOrder:
                    self.font.newLayer("c10.other")
                elsewhere = self.font.layers["c10.other"]
            else:
                other = D.Font()
                self.keep.append(other)
                elsewhere = other.layers.defaultLayer
            there = elsewhere.insertGlyph(self.glyphs[op[2]], name="G%d" % op[1])
            self.keep.append(there)
            self.check_extra(there, "insertGlyphVia")
            layer = self.font.layers.defaultLayer
            try:
                layer.insertGlyph(there, name="G%d" % op[1])
            finally:
                self.glyphs[op[1]] = layer["G%d" % op[1]]
                self.keep.append(self.glyphs[op[1]])
            return
        if k == "reload":
            if self.standalone:
                return EMPTY
            self.disk()
            t = op[1]
            self._write_glif(self.path, t, op[2])
            with self.removal(t, [0, 1, 2, 3]):
                self.font.layers.defaultLayer.reloadGlyphs(["G%d" % t])
            return
        if k == "reopen":
            if self.standalone:
                return EMPTY
            self.disk()
            self.nufo += 1
            path = os.path.join(self.tmp, "w%d.ufo" % self.nufo)
            self._write_ufo(path, op[1], op[2])
            self.keep.append(self.font)
            self.font = D.Font(path)
            self.path = path
            self.glyphs = [self.font["G%d" % i] for i in range(NGLYPH)]
            self.keep.extend(self.glyphs)
            if len(op) > 4 and op[4]:
                # the font's guidelines live in fontinfo.plist, read on first access: leave them unread, the
                # next guideline call of the history is the first thing that touches them
                self.unread = list(op[2])
            else:
                self.unread = None
                self.font.guidelines
            if op[3] is not None:
                # an anchor appended while the contours are still lazily (shallow) loaded
                t, ident = op[3]
                self.glyphs[t].appendAnchor(dict(x=1, y=2, name="n", identifier=id2s(ident)))
            return
        raise ValueError(op)

    # -- files written behind the font's back ----------------------------------------------

    def _fill(self, g, d):
        """populate a scratch glyph (plain defcon API, used only as a GLIF writer fixture)"""
        D = self.defcon
        for cid, pts in d["contours"]:
            c = D.Contour()
            c.identifier = id2s(cid)
            for typ, pid in pts:
                c.addPoint(self.coords(), TYPES[typ], identifier=id2s(pid))
            g.appendContour(c)
        for b, i in d["comps"]:
            c = D.Component()
            c.baseGlyph = self.base_name(b)
            c.identifier = id2s(i)
            g.appendComponent(c)
        for i in d["anchors"]:
            a = dict(x=1, y=2, name="n")
            if i is not None:
                a["identifier"] = id2s(i)
            g.appendAnchor(a)
        for i in d["guides"]:
            a = dict(x=1, y=2, angle=0, name="n")
            if i is not None:
                a["identifier"] = id2s(i)
            g.appendGuideline(a)

    def _write_glif(self, path, t, d):
        from fontTools.ufoLib.glifLib import GlyphSet
        scratch = self.defcon.Glyph()
        scratch.name = "G%d" % t
        self._fill(scratch, d)
        gs = GlyphSet(os.path.join(path, "glyphs"), validateRead=True, validateWrite=True)
        gs.writeGlyph("G%d" % t, glyphObject=scratch, drawPointsFunc=scratch.drawPoints)
        gs.writeContents()
        # make sure the modification time differs whatever the file system's resolution
        fn = os.path.join(path, "glyphs", gs.contents["G%d" % t])
        st = os.stat(fn)
        os.utime(fn, (st.st_atime + 5, st.st_mtime + 5))
        self.keep.append(scratch)

    def _write_ufo(self, path, datas, fguides):
        f = self.defcon.Font()
        for t, d in enumerate(datas):
            g = f.newGlyph("G%d" % t)
            self._fill(g, d)
        for i in fguides:
            a = dict(x=1, y=2, angle=0, name="n")
            if i is not None:
                a["identifier"] = id2s(i)
            f.appendGuideline(a)
        f.save(path)
        self.keep.append(f)


IDENT_OPS = set("""insContour reinsContour rmContour clearContours insPoint addPoint rmPoint clearContour rmSegment split
setContourId genContourId genPointId insComp reinsComp rmComp clearComps setCompId genCompId decompose decomposeAll
insAnchor reinsAnchor rmAnchor clearAnchors setAnchorId genAnchorId setAnchors insGuide reinsGuide rmGuide clearGuides
setGuideId genGuideId setGuides clearGlyph draw drawFrom copyFrom insertGlyph roundtrip deserializeFrom fontRoundtrip
reload reopen reverse setAnchorsBad setGuidesBad insertGlyphVia""".split())

# operations that introduce ONE object / ONE identifier: a rejection must leave every container unchanged
PRIMITIVE = set("""insContour reinsContour insPoint addPoint setContourId genContourId genPointId insComp reinsComp
setCompId genCompId insAnchor reinsAnchor setAnchorId genAnchorId insGuide reinsGuide setGuideId genGuideId
rmContour rmComp rmAnchor rmGuide rmPoint clearContour reverse setStart limboSetId limboGenId limboAddPoint
instAnchor instGuide split""".split())

# composites that may stop half-way at a rejected identifier and leave the rejected object's
# earlier registrations behind (F29)
LEAKY = set("draw drawFrom copyFrom deserializeFrom reload".split())


def _run_world(case, twin):
    w = World(bool(case.get("standalone")), any(op[0] in ("reload", "reopen") for op in case["ops"]), twin=twin)
    outs = []
    trace = []
    try:
        _, snap = w.observe()
        for op in case["ops"]:
            before = snap
            n_gen = len(w.gen_checks)
            n_extra = len(w.extra_viol)
            res = w.do(op)
            if twin:
                # the fully loaded twin: every glyph's contours are looked at (public API) after every operation
                for g in w.glyphs:
                    len(g)
            obs, snap = w.observe()
            outs.append([res, obs])
            trace.append(dict(op=effective(op), res=res, before=before, after=snap, gen=w.gen_checks[n_gen:],
                              tagged=op[0] == "tagged", extra=w.extra_viol[n_extra:]))
        counters = dict(unread_first=w.unread_first, on_shallow=w.on_shallow, first_touch=dict(w.first_touch),
                        src_shallow=dict(w.src_shallow))
    finally:
        w.close()
    return outs, trace, counters


def twin_oracle(trace, twin_trace):
    """A glyph whose contours are still shallow has no Contour / Point objects yet: "the identifiers carried by the
    objects currently in it" are those of the objects that loading makes.  The same history is run on a twin world
    in which every glyph is fully loaded (by `len(glyph)`, public API) after every operation; after every step the
    registry of each container, the identifiers carried in it, and whether the call was rejected must be the same
    in both worlds.  (The twin's own trace goes through the ordinary oracle as well.)"""
    viol = []
    for step, (a, b) in enumerate(zip(trace, twin_trace)):
        kind = a["op"][0]

        def hit(site, **kw):
            viol.append(dict(clause="C10/registry-exact", signature="C10/registry-exact/shallow-vs-loaded/%s/%s" % (site, kind),
                             step=step, op=a["op"], **kw))
        fa = isinstance(a["res"], list) and bool(a["res"]) and a["res"][0] == "err"
        fb = isinstance(b["res"], list) and bool(b["res"]) and b["res"][0] == "err"
        if fa != fb or (fa and str(a["res"][1]) != str(b["res"][1])):
            hit("outcome", shallow=str(a["res"]), loaded=str(b["res"]))
            return viol
        for t, (sa, sb) in enumerate(zip(a["after"], b["after"])):
            if sorted(sa["reg"]) != sorted(sb["reg"]):
                hit("registry", container=t, shallow=sorted(sa["reg"]), loaded=sorted(sb["reg"]))
                return viol
            ca = sorted(i for (_, i) in sa["carried"] if i is not None)
            cb = sorted(i for (_, i) in sb["carried"] if i is not None)
            if ca != cb:
                hit("carried", container=t, shallow=ca, loaded=cb)
                return viol
    return viol


def run_impl(case):
    warnings.filterwarnings("ignore")
    if case.get("scripted"):
        return run_scripted(case)
    outs, trace, counters = _run_world(case, False)
    unread_first = counters["unread_first"]
    on_shallow = counters["on_shallow"]
    viol = oracle(case, trace)
    twinned = False
    if not case.get("standalone") and on_shallow and not case.get("no_twin"):
        twinned = True
        _, twin_trace, _ = _run_world(case, True)
        viol += twin_oracle(trace, twin_trace)
        seen = set(v["signature"] for v in viol)
        viol += [dict(v, twin=True) for v in oracle(case, twin_trace) if v["signature"] not in seen]
    kinds = {}
    changed = rejected = generated = 0
    for tr in trace:
        op, res = tr["op"], tr["res"]
        kinds["op." + op[0]] = kinds.get("op." + op[0], 0) + 1
        if tr.get("tagged"):
            kinds["op.tagged-by-observer"] = kinds.get("op.tagged-by-observer", 0) + 1
        if isinstance(res, list) and res and res[0] == "err":
            kinds["err." + str(res[1])] = kinds.get("err." + str(res[1]), 0) + 1
            if str(res[1]) == "AssertionError":
                rejected += 1
        else:
            if op[0] in IDENT_OPS and [s["reg"] for s in tr["before"]] != [s["reg"] for s in tr["after"]]:
                changed += 1
            if isinstance(res, list) and res and res[0] == "id":
                generated += 1
                kinds["generated"] = kinds.get("generated", 0) + 1
    kinds["len"] = len(case["ops"])
    if unread_first:
        kinds["first-guideline-call-on-unread-font"] = unread_first
    if on_shallow:
        kinds["calls-on-shallow-glyph"] = on_shallow
    for k2, n in counters["first_touch"].items():
        kinds["first-touch-of-shallow-glyph." + k2] = n
    for k2, n in counters["src_shallow"].items():
        kinds["shallow-source." + k2] = n
    if twinned:
        kinds["cases.compared-with-loaded-twin"] = 1
    refused = sum(1 for tr in trace if tr["op"][0] in REFUSED and isinstance(tr["res"], list) and tr["res"]
                  and tr["res"][0] == "err" and str(tr["res"][1]) != "Empty")
    if refused:
        kinds["refused-calls"] = refused
    kinds["cases.standalone" if case.get("standalone") else "cases.in_font"] = 1
    kinds["registry_changing_ops"] = changed
    nontrivial = changed > 0 and (rejected > 0 or generated > 0 or refused > 0)
    return dict(out=outs, viol=viol, info=dict(nontrivial=nontrivial, stats=kinds))


# ---------------------------------------------------------------------------------------
# direct oracle: the property's clauses evaluated on the implementation's own trace.
# Written against the defcon objects' snapshots only (registry set, (object, identifier) pairs);
# it predicts nothing and knows nothing of the Lean model.
# ---------------------------------------------------------------------------------------

def _ids_of_data(contours, comps=(), anchors=(), guides=()):
    res = set()
    for cid, pts in contours:
        res.add(cid)
        res.update(p[1] for p in pts)
    res.update(c[1] for c in comps)
    res.update(anchors)
    res.update(guides)
    res.discard(None)
    return set(id2s(i) for i in res)


def _incoming(op, before):
    """identifiers a composite operation was trying to bring into its target"""
    k = op[0]
    if k == "draw":
        return _ids_of_data(op[2], op[3])
    if k in ("drawFrom", "copyFrom", "deserializeFrom"):
        return set(i for (_, i) in before[op[2]]["carried"] if i is not None)
    if k == "roundtrip":
        return set(i for (_, i) in before[op[1]]["carried"] if i is not None)
    if k == "reload":
        d = op[2]
        return _ids_of_data(d["contours"], d["comps"], d["anchors"], d["guides"])
    return set()


def oracle(case, trace):
    viol = []
    leaked = {}       # container object id -> identifiers attributed to a listed finding (F29)
    for step, tr in enumerate(trace):
        op, res = tr["op"], tr["res"]
        kind = op[0]
        failed = isinstance(res, list) and bool(res) and res[0] == "err"
        errname = str(res[1]) if failed else None

        def hit(clause, site, **kw):
            viol.append(dict(clause="C10/" + clause, signature="C10/%s/%s" % (clause, site), step=step, op=op, **kw))

        for ex in tr.get("extra", ()):
            hit("registry-exact", "copy-in-other-font/" + ex["site"], **ex)
            return viol
        # (1) no two objects share an identifier; (2) registry == identifiers in use
        for t, s in enumerate(tr["after"]):
            seen = {}
            objs = set()
            bad = False
            for (o, ident) in s["carried"]:
                if o in objs:
                    hit("no-shared", "same-object-twice/" + kind, container=t)
                    bad = True
                    break
                objs.add(o)
                if ident is None:
                    continue
                if ident in seen:
                    hit("no-shared", kind, container=t, identifier=ident)
                    bad = True
                    break
                seen[ident] = o
            if bad:
                return viol
            carried = set(seen)
            reg = set(s["reg"])
            known = leaked.setdefault(s["obj"], set())
            missing = carried - reg
            if missing:
                hit("registry-exact", "unregistered/" + kind, container=t, identifiers=sorted(missing))
                return viol
            extra = reg - carried - known
            if extra:
                if kind in ("instAnchor", "instGuide") and not failed and extra == {id2s(op[2])} and t == op[1]:
                    hit("registry-exact", "instantiated-not-inserted", container=t, identifiers=sorted(extra))
                    known |= extra
                elif kind in LEAKY and failed and errname == "AssertionError" and t == op[1] \
                        and extra <= _incoming(op, tr["before"]):
                    hit("registry-exact", "leak-after-rejected/" + kind, container=t, identifiers=sorted(extra))
                    known |= extra
                else:
                    hit("registry-exact", "stale/" + kind, container=t, identifiers=sorted(extra))
                    return viol
        # (3) a rejected single-object operation leaves every container unchanged
        if failed and kind in PRIMITIVE:
            def view(s, plain):
                return (s["reg"], [i for (_, i) in s["carried"]] if plain else s["carried"])
            # a font that was unread before or after the call has no object identities to compare
            plain = [bool(x.get("unread") or y.get("unread")) for x, y in zip(tr["before"], tr["after"])]
            b = [view(s, pl) for s, pl in zip(tr["before"], plain)]
            a = [view(s, pl) for s, pl in zip(tr["after"], plain)]
            if a != b and errname in ("AssertionError",):
                hit("reject-unchanged", kind, error=errname)
                return viol
        # (4) a generated identifier is new, registered, and carried by the object it was generated for
        for gchk in tr["gen"]:
            if gchk["had"] is not None:
                if gchk["value"] != gchk["had"]:
                    hit("generated-fresh", "replaced-existing/" + kind)
                    return viol
                continue
            v = gchk["value"]
            if v is None or v in gchk["before"] or v not in gchk["now"] or gchk["carried"] != v:
                hit("generated-fresh", kind, value=v)
                return viol
    return viol


# ---------------------------------------------------------------------------------------
# known findings: one directed witness per listed signature (the same histories are the
# `ids_exact_violated*` witnesses in lean/DefconModel/Props/C10.lean)
# ---------------------------------------------------------------------------------------

_LEAKING_CONTOUR = [1, [[2, 3], [2, 2]]]       # contour 1 with points 3 and 2: point 2 will collide

WITNESSES = {
    "C10/registry-exact/instantiated-not-inserted":
        dict(ops=[["instAnchor", 0, 1]], standalone=False),
    "C10/registry-exact/leak-after-rejected/draw":
        dict(ops=[["insAnchor", 0, 0, 2, False], ["draw", 0, [_LEAKING_CONTOUR], [], False]], standalone=False),
    "C10/registry-exact/leak-after-rejected/drawFrom":
        dict(ops=[["insContour", 1, 0] + _LEAKING_CONTOUR, ["insAnchor", 0, 0, 2, False], ["drawFrom", 0, 1, False]],
             standalone=False),
    "C10/registry-exact/leak-after-rejected/copyFrom":
        dict(ops=[["insContour", 1, 0] + _LEAKING_CONTOUR, ["insComp", 0, 0, MISSING, 2], ["copyFrom", 0, 1]],
             standalone=False),
    "C10/registry-exact/leak-after-rejected/deserializeFrom":
        dict(ops=[["insContour", 1, 0] + _LEAKING_CONTOUR, ["instAnchor", 0, 2], ["deserializeFrom", 0, 1]],
             standalone=False),
    "C10/registry-exact/leak-after-rejected/reload":
        dict(ops=[["instAnchor", 0, 2],
                  ["reload", 0, dict(contours=[_LEAKING_CONTOUR], comps=[], anchors=[], guides=[])]], standalone=False),
}


SCRIPTED_UNREAD = "instantiate-guideline-on-unread-font"
WITNESSES["C10/registry-exact/instantiate-on-unread-font"] = dict(ops=[], standalone=False, scripted=SCRIPTED_UNREAD)


def run_scripted(case):
    """scenarios outside M-Ident (the model reads a re-opened font at once): the direct oracle alone, on the real
    code.  `instantiate-guideline-on-unread-font` (F70): Font.instantiateGuideline(dict) as the first call on a
    freshly opened font checks the identifier against the registry of a font that has not read its guidelines."""
    import defcon
    assert case["scripted"] == SCRIPTED_UNREAD, case["scripted"]
    viol = []
    tmp = tempfile.mkdtemp(prefix="c10s_")
    keep = []
    try:
        path = os.path.join(tmp, "s.ufo")
        src = defcon.Font()
        stored = [id2s(0), id2s(1), None, id2s(2)]
        for i in stored:
            d = dict(x=1, y=2, angle=0, name="n")
            if i is not None:
                d["identifier"] = i
            src.appendGuideline(d)
        src.save(path)
        keep.append(src)
        font = defcon.Font(path)
        keep.append(font)
        try:
            keep.append(font.instantiateGuideline(dict(x=5, y=5, angle=0, name="dup", identifier=id2s(1))))
            res = Atom("ok")
        except AssertionError as e:
            res = _err(e)
        try:
            now = font.guidelines
            read_error = None
        except AssertionError as e:
            read_error = type(e).__name__
            now = font.guidelines
        carried = [g.identifier for g in now]
        reg = sorted(font.identifiers)
        lost = [i for i in stored if i is not None and i not in carried]
        if read_error is not None or lost or len(carried) != len(stored):
            viol.append(dict(clause="C10/registry-exact", signature="C10/registry-exact/instantiate-on-unread-font",
                             step=0, op=["instantiateGuideline", FONT, 1], result=str(res), read_error=read_error,
                             stored=stored, carried=carried, registry=reg, lost=lost))
    finally:
        shutil.rmtree(tmp, ignore_errors=True)
    return dict(out=[], viol=viol, info=dict(nontrivial=False, stats={"cases.scripted": 1}))


def replay_known(entry):
    case = WITNESSES.get(entry.get("signature"))
    if case is None:
        return False
    r = run_impl(case)
    return any(v.get("signature") == entry["signature"] for v in r["viol"])
