"""C07 - lazy loading is transparent (M-Layer correspondence, four read-variants, shadow-spec oracle)."""
import layer_common as lc

MODEL = "layer"
SHRINKABLE = True
RULE = ("generated glyph sets (0-6 glyphs over 8 names; unicodes, components, image reference, outline kind) x "
        "{unread, partially pre-read, fully pre-read, memory-only twin} x op lists (get/new/insert/delete/rename/"
        "setUnicodes/edit/save/first access to unicodeData); all layer-level queries compared after every op; "
        "non-trivial = a non-empty glyph set and at least one mutating op; distinct = distinct (content, variant, ops)")
ASSUMPTIONS = [
    "renames never target a name that is present (the code silently overwrites; outside the property's domain)",
    "glyph unicodes lists carry no duplicates (glifLib enforces on read)",
    "which glyphs are loaded is not compared (loading a composite glyph also loads its bases): all compared queries are "
    "functions of the abstract content, which is the property; the one load-dependent query (glyphsWithOutlines on glyphs "
    "whose contours have no on-curve segment point) is judged by the oracle only and masked in the model comparison",
    "bounds/controlPointBounds of the layer are not compared here (they load every glyph; see C17)",
]
TRUSTED = ["UFOs are written with fontTools.ufoLib directly; the GLIF scanners of ufoLib (getUnicodes, getComponentReferences, "
           "getImageReferences) and defcon's _fetchHasOutlineData are exercised, not modelled"]
JUDGED = ("keys", "comps", "images", "outlines", "uni", "saved")
PROP = "C07"


def generate(rng, tier):
    groups, maxops = (150, 14) if tier == "quick" else (4000, 30)
    for _ in range(groups):
        for c in lc.gen_group(rng, maxops, uni_weight=1.0, incoherent_rate=0.3):
            yield c


model_lines = lc.model_lines
neighbourhood = lc.neighbourhood


def run_impl(case):
    return lc.run_case(case, PROP, JUDGED)
