"""C07 - lazy loading is transparent (M-Layer correspondence, four read-variants, shadow-spec oracle)."""
import layer_common as lc
import persist_common as pc

MODEL = "layer"
SHRINKABLE = True
RULE = ("generated glyph sets (0-6 glyphs over 8 names; unicodes, components, image reference, outline kind) x "
        "{unread, partially pre-read, fully pre-read, memory-only twin} x op lists (get/new/insert/delete/rename - also onto "
        "present names - /setUnicodes/unicode setter/read-modify-write of unicodes/edit/reload of read and unread glyphs/save/first "
        "access to unicodeData/look-ups/glyph bounds, with ask-edit the base glyph-ask again scenarios); all layer-level queries "
        "compared after every op; "
        "non-trivial = a non-empty glyph set and at least one mutating op; distinct = distinct (content, variant, ops); plus "
        "whole fonts (all top-level parts, images, data, layers, glyph structure edits as first touch) x edit/save histories "
        "in every save mode, each run unread / fully read / partly read / as a memory-only twin against one shadow content")
ASSUMPTIONS = [
    "glyph unicodes lists carry no duplicates here (glifLib enforces on read; lists with repeated code points are C09's histories)",
    "glyph.bounds / controlPointBounds are judged by the oracle only, against a memory-only twin built from the shadow content",
    "which glyphs are loaded is not compared (loading a composite glyph also loads its bases): all compared queries are "
    "functions of the abstract content, which is the property; the one load-dependent query (glyphsWithOutlines on glyphs "
    "whose contours have no on-curve segment point) is judged by the oracle only and masked in the model comparison",
    "bounds/controlPointBounds of the layer are not compared here (they load every glyph; see C17)",
]
TRUSTED = ["UFOs are written with fontTools.ufoLib directly; the GLIF scanners of ufoLib (getUnicodes, getComponentReferences, "
           "getImageReferences) and defcon's _fetchHasOutlineData are exercised, not modelled"]
JUDGED = ("keys", "comps", "images", "outlines", "uni", "saved", "bounds")
PROP = "C07"


MODES = ["inplace", "inplace", "new", "overufo"]
PARTS = ["info", "kerning", "groups", "features", "lib"]


# renames also onto names that are present (the glyph there is replaced), the single-value unicode setter, read-modify-
# write on the list the unicodes getter hands out, reloads of glyphs that have not been read, the bounds of glyphs (of
# composites above all: they follow the base glyph) and, in a quarter of the groups, "ask, edit what the answer depends on,
# ask again" for the bounds of a composite
OPTS = dict(rename_onto_rate=0.3, setter_rate=0.1, via_rate=0.15, lookup_rate=0.3, bounds_rate=0.7, scenario_rate=0.3)


def generate(rng, tier):
    groups, maxops = (150, 14) if tier == "quick" else (4000, 30)
    for _ in range(groups):
        for c in lc.gen_group(rng, maxops, uni_weight=1.0, incoherent_rate=0.3, opts=OPTS):
            yield c
    # whole fonts (info, kerning, groups, features, lib, images, data, layers, glyph structure): one content and one
    # edit/save history, run with nothing read beforehand, with everything read beforehand, with a random subset read, and
    # on a memory-only twin; every run must end with the same UFOs and the same memory (oracle only: the shadow content)
    n = 90 if tier == "quick" else 1500
    for _ in range(n):
        c = pc.gen_case(rng, tier, MODES, maxops=10 if tier == "quick" else 24)
        c["whole_font"] = True
        r = rng.random()
        if r < 0.25 and c["spec"]["data"]:
            # a file of the UFO is given new content - also the empty one - and read again before anything is saved
            n = rng.choice(sorted(c["spec"]["data"]))
            c["ops"] = [["dat", n, rng.choice([0, 0, 5])], ["datget", n]] + c["ops"]
        elif r < 0.4 and c["spec"]["images"]:
            n = rng.choice(sorted(c["spec"]["images"]))
            c["ops"] = [["img", n, 9], ["imgget", n]] + c["ops"]
        elif r < 0.8:
            # the first thing that happens to a glyph is a structure edit (nothing of it has been looked at), then a save
            cands = [(l["name"], gn) for l in c["spec"]["layers"] for gn in sorted(l["glyphs"])]
            if cands:
                ln, gn = rng.choice(cands)
                x = rng.randint(0, 200)
                pts = [[x, 0, "line", False, None, None], [x + 30, 0, "line", False, None, None], [x + 10, 40, "line", False, None, None]]
                edit = rng.choice([["gfield", ln, gn, "inscontour", ["first", {"id": None, "points": pts}]],
                                   ["gfield", ln, gn, "inscontour", ["last", {"id": None, "points": pts}]],
                                   ["gfield", ln, gn, "addanchor", [5, 6, "top", None, None]],
                                   ["gfield", ln, gn, "clearcomps", None], ["gfield", ln, gn, "move", [3, 4]]])
                c["ops"] = [edit, ["save", rng.choice(MODES), c["structure"]]] + c["ops"]
        yield c


def model_lines(case):
    if case.get("whole_font"):
        return []
    return lc.model_lines(case)


def neighbourhood(case, step, rng):
    if case.get("whole_font"):
        return iter(())
    return lc.neighbourhood(case, step, rng)


def _variants(case):
    all_g = [[l["name"], gn] for l in case["spec"]["layers"] for gn in l["glyphs"]]
    yield "unread", dict(case, origin="disk", preread=[], preread_glyphs=[])
    yield "all-read", dict(case, origin="disk", preread=list(PARTS), preread_glyphs=all_g)
    yield "some-read", dict(case, origin="disk")
    yield "memory", dict(case, origin="memory", preread=[], preread_glyphs=[])


def run_impl(case):
    if not case.get("whole_font"):
        return lc.run_case(case, PROP, JUDGED)
    viol = []
    stats = {"whole_font_cases": 1}
    outcomes = {}
    for vname, c in _variants(case):
        r = pc.run_case(c, PROP)
        for k, v in r["info"]["stats"].items():
            if k.startswith(("op.", "save.")):
                stats["wf." + k] = stats.get("wf." + k, 0) + v
        outcomes[vname] = [str(o[0]) if isinstance(o, list) and o else str(o) for o in r["out"]]
        for v in r["viol"]:
            v = dict(v, variant=vname)
            v["signature"] = v["signature"] + "/" + vname
            viol.append(v)
        if viol:
            break
    return dict(out=[], viol=viol[:1], info=dict(nontrivial=True, stats=stats))
