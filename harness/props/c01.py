"""C01 - save then reopen reproduces the font exactly."""
import persist_common as pc

SHRINKABLE = True
MODEL = "persist"
model_lines = pc.model_lines
neighbourhood = pc.neighbourhood
PROP = "C01"
RULE = ("generated UFO-3-valid fonts (1-3 layers, 0-6 glyphs each with outlines/components/anchors/guidelines/image/lib/"
        "note, info, kerning+groups, features, lib, images, data incl. nested paths; package or zip; opened from disk with a "
        "random subset of parts pre-read, or built in memory) x edit histories (glyph/layer/part/image/data edits, lazy reads) "
        "interleaved with saves in every mode (in place, save-as new, over an existing UFO, over a plain file); after each "
        "save the UFO is read back with ufoLib alone (and with defcon every other save) and compared with the shadow "
        "content; non-trivial = at least one save and one mutating op; distinct = distinct (spec, ops)")
ASSUMPTIONS = [
    "content domain: integer coordinates, UFO-3-valid values; lib key public.glyphOrder is not compared here (C12)",
    "renames never target an existing name; the default layer is never deleted; component graph acyclic",
    "byte-level encodings are fontTools.ufoLib's: compared through what ufoLib reads back",
]
TRUSTED = ["fontTools.ufoLib reader/writer (used both by defcon and, independently, by the oracle's read-back)"]
MODES = ["inplace", "inplace", "new", "overufo", "overfile"]


def generate(rng, tier):
    n = 500 if tier == "quick" else 6000
    for _ in range(n):
        yield pc.gen_case(rng, tier, MODES, empty_features=True)


def run_impl(case):
    return pc.run_case(case, PROP)
