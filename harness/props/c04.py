"""C04 - notification centre: correspondence with M-Notify + direct oracle.

Implementation adaptor drives defcon.tools.notifications.NotificationCenter (and, in
`via_base` cases, the BaseObject wrappers of objects/base.py) in process.
"""
import gc
import weakref

from sexp import Atom, opt, some

MODEL = "notify"
SHRINKABLE = True
RULE = ("op sequences over 3 senders x 3 names x 4 observers (2 callback methods each), all 8 hold/disable "
        "scopes (properly nested, and overlapping with different widths), scripted re-entrant callbacks, kill ops "
        "on one observer and one sender (also while notifications from / for them are pending), lookups with "
        "fnmatch patterns incl. [seq] / [!seq] and with None in every position, through the centre and through "
        "the BaseObject wrappers; non-trivial = contains a post that produced at least one delivery AND at least "
        "one of {hold, disable, script, remove, kill}; distinct = distinct op lists")
ASSUMPTIONS = [
    "callbacks are one-shot scripts of centre operations; exceptions inside a callback are caught by the callback",
    "an object that was garbage-collected is never named by a later call (there is no object to pass)",
    "identifier patterns are drawn from a fixed list and from random strings over a b . x * ? [ ] ! - ^ \\",
    "single thread; 'schedules' = re-entrant callbacks",
]
TRUSTED = ["weakref death modelled as an explicit kill op; the harness keeps every other object alive"]

SENDERS = [1, 2, 3]
NAMES = [1, 2, 3]
OBSERVERS = [10, 11, 12, 13]
METHS = [1, 2]
IDENTS = ["a.b", "a.c", "x", "ab", "[", "a]", "-", "!b", "a-b", "^", "b", "a.-"]
KILLABLE = 13
KILLABLE_S = 3
PATS = ["a*", "*", "a.?", "x", "?b", "*c", "a.b",
        # [seq] / [!seq] as fnmatch.translate reads them
        "[ab]*", "a.[!b]", "a.[b-c]", "[a-c].?", "[!a-b]*", "[]a]*", "[!]a]*", "[!]", "[]", "[", "x[", "a[",
        "[z-a]*", "[!z-a]*", "[!z-a]", "a[.]b", "a[.-]*", "[a-]*", "[-a]b", "[!-]b", "[^a]*", "[!^]*", "[[]",
        "a[!]-]b", "a[--.]b", "a.[a-a-b]", "a[b-a.]?", "[a-bx]", "*[]]", "[a][b]", "a[.][!b]", "[!x]", "[*]b", "a[?]b",
        # translate looks for the `!` after it has dropped the empty ranges
        "[b-a!x]*", "[b--!]*", "[b-a!]", "[b--!-a]*", "[b--!-.]b"]
PAT_ALPHABET = "ab.x*?[]!-^\\"


# ---------------------------------------------------------------------------------------
# generation
# ---------------------------------------------------------------------------------------

FOCUS = {}


def _o(rng, xs, p_none=0.35):
    if rng.random() < p_none:
        return None
    f = FOCUS.get(id(xs))
    if f is not None and f in xs and rng.random() < 0.7:
        return f
    return rng.choice(xs)


def _pick(rng, xs):
    f = FOCUS.get(id(xs))
    if f is not None and f in xs and rng.random() < 0.7:
        return f
    return rng.choice(xs)


def gen_pat(rng):
    """an identifier pattern: mostly from the list, otherwise a random string over the characters that matter"""
    if rng.random() < 0.7:
        return rng.choice(PATS)
    if rng.random() < 0.5:
        # a bracket expression with something around it
        body = "".join(rng.choice("ab.x]!-^[") for _ in range(rng.randint(0, 4)))
        return rng.choice(["", "a", "*", "?"]) + "[" + rng.choice(["", "!"]) + body + rng.choice(["]", "]", "]", ""]) + \
            rng.choice(["", "b", "*", "?", ".b"])
    return "".join(rng.choice(PAT_ALPHABET) for _ in range(rng.randint(1, 5)))


def _opat(rng, p_none=0.5):
    return None if rng.random() < p_none else gen_pat(rng)


def gen_op(rng, alive, depth=0, in_script=False):
    obs = [o for o in OBSERVERS if o in alive]
    if in_script:
        # scripts run later: they never name the one observer that may be killed meanwhile
        obs = [o for o in obs if o != KILLABLE]
    r = rng.random()
    if not obs:
        return ["post", _pick(rng, NAMES), _pick(rng, SENDERS), rng.randrange(3)]
    if r < 0.22:
        return ["add", rng.choice(obs), rng.choice(METHS), _o(rng, NAMES), _o(rng, SENDERS),
                _o(rng, IDENTS, 0.5)]
    if r < 0.47:
        return ["post", _pick(rng, NAMES), _pick(rng, SENDERS), rng.randrange(3)]
    if r < 0.54:
        return ["remove", rng.choice(obs), _o(rng, NAMES), _o(rng, SENDERS)]
    if r < 0.57:
        return ["removeAll", rng.choice(obs), _o(rng, SENDERS)]
    if r < 0.60:
        return ["has", rng.choice(obs), _o(rng, NAMES), _o(rng, SENDERS)]
    if r < 0.65:
        return ["find", _o(rng, obs, 0.6), _o(rng, NAMES, 0.6), _o(rng, SENDERS, 0.6), _opat(rng)]
    scope = [_o(rng, NAMES, 0.55), _o(rng, SENDERS, 0.55), None if rng.random() < 0.6 else _pick(rng, obs)]
    if r < 0.73:
        return ["hold"] + scope + [_o(rng, [1, 2], 0.7)]
    if r < 0.81:
        return ["release"] + scope
    if r < 0.86:
        return ["disable"] + scope
    if r < 0.91:
        return ["enable"] + scope
    if r < 0.93:
        return ["areHeld"] + scope
    if r < 0.95:
        return ["areDisabled"] + scope
    if r < 0.96:
        return ["heldKeys"]
    if r < 0.97 and not in_script and KILLABLE in obs:
        return ["kill", KILLABLE]
    obs = [o for o in obs if o != KILLABLE]
    if depth < 2 and obs:
        n = rng.randint(1, 3)
        return ["script", rng.choice(obs), rng.choice(METHS),
                [gen_op(rng, alive, depth + 1, True) for _ in range(n)]]
    return ["post", rng.choice(NAMES), rng.choice(SENDERS), rng.randrange(3)]


def gen_case(rng, maxlen):
    # most of a case revolves around one (name, sender, observer) so that scopes interact
    FOCUS.clear()
    if rng.random() < 0.8:
        FOCUS[id(NAMES)] = rng.choice(NAMES)
        FOCUS[id(SENDERS)] = rng.choice(SENDERS)
    alive = set(OBSERVERS)
    ops = []
    # a populated registry first
    for _ in range(rng.randint(2, 6)):
        ops.append(["add", rng.choice(OBSERVERS), rng.choice(METHS), _o(rng, NAMES), _o(rng, SENDERS),
                    _o(rng, IDENTS, 0.5)])
    # outstanding scopes make release/enable meaningful: prefer keys already used
    used = []
    for _ in range(rng.randint(3, maxlen)):
        op = gen_op(rng, alive)
        if op[0] in ("release", "enable", "areHeld", "areDisabled") and used and rng.random() < 0.75:
            op = [op[0]] + list(rng.choice(used))
        if op[0] in ("hold", "disable"):
            used.append(op[1:4])
        if op[0] == "kill":
            alive.discard(op[1])
            used = [u for u in used if u[2] != op[1]]
        if op[0] in ("release", "enable", "areHeld", "areDisabled", "hold", "disable") and op[3] is not None and op[3] not in alive:
            continue
        ops.append(op)
    return dict(ops=ops, via_base=rng.random() < 0.3)


def gen_bracket_case(rng, maxlen):
    """structured histories: suspensions opened in some order around bodies of posts, closed in any order"""
    FOCUS.clear()
    n0, s0 = rng.choice(NAMES), rng.choice(SENDERS)
    FOCUS[id(NAMES)] = n0
    FOCUS[id(SENDERS)] = s0
    ops = []
    regs = set()
    for _ in range(rng.randint(2, 5)):
        o, n, sd = rng.choice(OBSERVERS), rng.choice([None, n0, n0, rng.choice(NAMES)]), rng.choice([None, s0, s0, rng.choice(SENDERS)])
        if (o, n, sd) in regs:
            continue
        regs.add((o, n, sd))
        ops.append(["add", o, rng.choice(METHS), n, sd, _o(rng, IDENTS, 0.6)])
    o0 = rng.choice(OBSERVERS)

    def scope():
        return [rng.choice([None, n0, n0]), rng.choice([None, s0, s0]), rng.choice([None, None, o0, rng.choice(OBSERVERS)])]

    def body(k):
        for _ in range(k):
            r = rng.random()
            if r < 0.7:
                ops.append(["post", n0 if rng.random() < 0.8 else rng.choice(NAMES),
                            s0 if rng.random() < 0.8 else rng.choice(SENDERS), rng.randrange(3)])
            elif r < 0.8:
                ops.append(["remove", rng.choice(OBSERVERS), rng.choice([None, n0]), rng.choice([None, s0])])
            elif r < 0.9:
                ops.append(["add", rng.choice(OBSERVERS), rng.choice(METHS), rng.choice([None, n0]), rng.choice([None, s0]), None])
            else:
                ops.append(["script", rng.choice(OBSERVERS[:3]), rng.choice(METHS),
                            [gen_op(rng, set(OBSERVERS), 1, True) for _ in range(rng.randint(1, 2))]])
    open_ = []
    for _ in range(rng.randint(1, 3)):
        kind = rng.choice(["hold", "hold", "disable"])
        sc = scope()
        open_.append((kind, sc))
        ops.append([kind] + sc + ([None] if kind == "hold" else []))
        body(rng.randint(0, 3))
    if rng.random() < 0.3 and open_:
        kind, sc = rng.choice(open_)       # nested request of an open scope
        open_.append((kind, sc))
        ops.append([kind] + sc + ([None] if kind == "hold" else []))
    if rng.random() < 0.5:
        rng.shuffle(open_)
    else:
        open_.reverse()
    for kind, sc in open_:
        ops.append(["release" if kind == "hold" else "enable"] + sc)
        body(rng.randint(0, 2))
    body(rng.randint(1, 2))
    return dict(ops=ops[:maxlen + 10], via_base=rng.random() < 0.3)


def gen_registry_case(rng, maxlen):
    """registry life cycle on very few keys: the same (observer, name, sender) is registered, removed and registered
    again - with, without and with another identifier, alone on its key or not - and looked up in between"""
    FOCUS.clear()
    keys = [(rng.choice([None] + NAMES[:2]), rng.choice([None] + SENDERS[:2])) for _ in range(2)]
    obs = rng.sample(OBSERVERS[:3], 2)
    ops = []
    registered = set()
    for _ in range(rng.randint(6, maxlen)):
        o = rng.choice(obs)
        n, sd = rng.choice(keys)
        r = rng.random()
        if r < 0.35:
            ops.append(["add", o, rng.choice(METHS), n, sd, _o(rng, IDENTS, 0.5)])
            registered.add((o, n, sd))
        elif r < 0.6:
            ops.append(["remove", o, n, sd])
            registered.discard((o, n, sd))
        elif r < 0.68:
            ops.append(["removeAll", o, rng.choice([None, sd])])
        elif r < 0.9:
            ops.append(["find", rng.choice([None, o]), rng.choice([None, n]), rng.choice([None, sd]), _opat(rng)])
        elif r < 0.95:
            ops.append(["has", o, n, sd])
        else:
            ops.append(["post", n if n is not None else rng.choice(NAMES), sd if sd is not None else rng.choice(SENDERS), 1])
    ops.append(["find", None, None, None, None])
    return dict(ops=ops, via_base=rng.random() < 0.3)


def gen_nested_scope_case(rng, maxlen):
    """suspensions of DIFFERENT widths that overlap without nesting properly: holds scoped to single observers (each of
    them registered for the focus notification) and wider holds / disables are opened in any order, with posts in
    between, and closed in any order - so that what a narrow hold queued is re-posted into a wider hold that is still
    active, equal notifications destined for different observers meet in one queue, a disable outlives a hold, ..."""
    FOCUS.clear()
    n0, s0 = rng.choice(NAMES), rng.choice(SENDERS)
    FOCUS[id(NAMES)] = n0
    FOCUS[id(SENDERS)] = s0
    ops = []
    obs = rng.sample(OBSERVERS, rng.randint(2, 3))
    for o in obs + ([rng.choice(OBSERVERS)] if rng.random() < 0.4 else []):
        n, sd = rng.choice([(None, None), (n0, None), (None, s0), (n0, s0), (n0, s0)])
        if not any(x[0] == "add" and x[1] == o and x[3] == n and x[4] == sd for x in ops):
            ops.append(["add", o, rng.choice(METHS), n, sd, _o(rng, IDENTS, 0.7)])
    scopes = [("hold", [rng.choice([None, n0]), rng.choice([None, s0]), o]) for o in obs]
    for _ in range(rng.randint(1, 2)):
        scopes.append((rng.choice(["hold", "hold", "hold", "disable"]),
                       [rng.choice([None, n0]), rng.choice([None, s0]), None]))
    if rng.random() < 0.25:
        scopes.append(rng.choice(scopes))               # one of them requested twice
    rng.shuffle(scopes)

    def posts(p):
        while rng.random() < p:
            ops.append(["post", n0 if rng.random() < 0.9 else rng.choice(NAMES),
                        s0 if rng.random() < 0.9 else rng.choice(SENDERS), rng.randrange(2)])
    for kind, sc in scopes:
        ops.append([kind] + sc + ([None] if kind == "hold" else []))
        posts(0.6)
    rng.shuffle(scopes)
    for kind, sc in scopes:
        ops.append(["release" if kind == "hold" else "enable"] + sc)
        posts(0.4)
    ops.append(["post", n0, s0, rng.randrange(2)])
    return dict(ops=ops, via_base=rng.random() < 0.3)


def gen_dead_case(rng, maxlen):
    """objects that die while something is pending: notifications of a sender that is collected before the hold that
    queued them is released (they are dropped; what was queued behind them still goes out), and an observer that is
    collected while notifications destined for it alone wait in a queue - its own narrow hold (which can never be
    released again) or a wider one they were re-posted into"""
    FOCUS.clear()
    n0 = rng.choice(NAMES)
    s0 = rng.choice(SENDERS[:2])
    FOCUS[id(NAMES)] = n0
    FOCUS[id(SENDERS)] = s0
    ops = []
    obs = rng.sample(OBSERVERS[:3], rng.randint(1, 2)) + [KILLABLE]
    regs = set()
    for o in obs + [rng.choice(obs)]:
        n, sd = rng.choice([(None, None), (n0, None), (None, s0), (n0, s0), (None, KILLABLE_S), (n0, KILLABLE_S)])
        if (o, n, sd) not in regs:
            regs.add((o, n, sd))
            ops.append(["add", o, rng.choice(METHS), n, sd, _o(rng, IDENTS, 0.7)])
    kill_s = rng.random() < 0.7
    kill_o = rng.random() < 0.6 or not kill_s
    wide = [("hold", [rng.choice([None, n0]), None, None])]
    if rng.random() < 0.3:
        wide.append(("hold", [rng.choice([None, n0]), rng.choice([s0, KILLABLE_S]), None]))
    narrow = [("hold", [rng.choice([None, n0]), rng.choice([None, None, s0]), o]) for o in obs if rng.random() < 0.6]
    scopes = wide + narrow
    rng.shuffle(scopes)

    def posts(p, senders):
        while rng.random() < p:
            ops.append(["post", n0 if rng.random() < 0.9 else rng.choice(NAMES), rng.choice(senders), rng.randrange(2)])
    live_s = list(SENDERS)
    for kind, sc in scopes:
        ops.append([kind] + sc + [None])
        posts(0.7, live_s)
    # some of the narrow holds end while the wide ones are still active: their entries move into the wide queues
    early = [x for x in narrow if rng.random() < 0.6]
    for kind, sc in early:
        ops.append(["release"] + sc)
        scopes.remove((kind, sc))
    posts(0.5, live_s)
    dead = set()
    if kill_s:
        ops.append(["kill", KILLABLE_S])
        dead.add(KILLABLE_S)
        live_s = [x for x in SENDERS if x != KILLABLE_S]
    posts(0.4, live_s)
    if kill_o:
        ops.append(["kill", KILLABLE])
        dead.add(KILLABLE)
    posts(0.4, live_s)
    if rng.random() < 0.3:
        ops.append(["heldKeys"])
    rng.shuffle(scopes)
    for kind, sc in scopes:
        if sc[1] in dead or sc[2] in dead:
            continue                      # nobody can name it any more
        ops.append(["release"] + sc)
        posts(0.3, live_s)
    ops.append(["post", n0, s0, rng.randrange(2)])
    ops.append(["find", None, rng.choice([None, n0]), None, None])
    return dict(ops=ops, via_base=rng.random() < 0.3)


def gen_none_case(rng, maxlen):
    """None as an argument: a KEY of its own for add / has / remove (the catch-all registration), a WILDCARD for find -
    the same observer is registered for a name and / or for everything, on a sender and / or on every sender, and the
    lookups are made with None in every position, mostly through the BaseObject wrappers"""
    FOCUS.clear()
    n0, s0 = rng.choice(NAMES), rng.choice(SENDERS)
    obs = rng.sample(OBSERVERS[:3], 2)
    keys = [(None, s0), (n0, s0), (None, None), (n0, None), (rng.choice(NAMES), s0)]
    ops = []
    for _ in range(rng.randint(6, max(8, maxlen))):
        o = rng.choice(obs)
        n, sd = rng.choice(keys[:2]) if rng.random() < 0.6 else rng.choice(keys)
        r = rng.random()
        if r < 0.3:
            ops.append(["add", o, rng.choice(METHS), n, sd, _o(rng, IDENTS, 0.4)])
        elif r < 0.42:
            ops.append(["remove", o, n, sd])
        elif r < 0.47:
            ops.append(["removeAll", o, sd])
        elif r < 0.67:
            ops.append(["has", o, n, sd])
        elif r < 0.92:
            ops.append(["find", rng.choice([None, o]), rng.choice([None, n]), rng.choice([None, sd]), _opat(rng, 0.6)])
        else:
            ops.append(["post", n0, s0, 1])
    for o in obs:
        ops.append(["has", o, None, s0])
        ops.append(["has", o, n0, s0])
    ops.append(["find", None, None, s0, None])
    return dict(ops=ops, via_base=rng.random() < 0.7)


def gen_glob_case(rng, maxlen):
    """identifier lookups: a handful of registrations with identifiers, then patterns"""
    FOCUS.clear()
    ops = []
    seen = set()
    for _ in range(rng.randint(3, 7)):
        o, n, sd = rng.choice(OBSERVERS[:3]), _o(rng, NAMES[:2]), _o(rng, SENDERS[:2])
        if (o, n, sd) in seen:
            continue
        seen.add((o, n, sd))
        ident = rng.choice(IDENTS) if rng.random() < 0.85 else None
        if rng.random() < 0.2:
            ident = "".join(rng.choice("ab.x[]!-^") for _ in range(rng.randint(0, 3)))
        ops.append(["add", o, rng.choice(METHS), n, sd, ident])
    for _ in range(rng.randint(4, max(6, maxlen // 2))):
        ops.append(["find", _o(rng, OBSERVERS[:3], 0.8), _o(rng, NAMES[:2], 0.8), _o(rng, SENDERS[:2], 0.8), gen_pat(rng)])
    return dict(ops=ops, via_base=rng.random() < 0.3)


def gen_midpost_case(rng, maxlen):
    """nothing is suspended when a post starts; the callback of one of its receivers suspends (holds or disables) a
    scope that concerns a receiver whose turn has not come yet - the suspension must be seen for that receiver, in this
    very post"""
    FOCUS.clear()
    n0, s0 = rng.choice(NAMES), rng.choice(SENDERS)
    obs = rng.sample(OBSERVERS[:3], rng.randint(2, 3))
    ops = []
    for o in obs:
        n, sd = rng.choice([(None, None), (None, s0), (n0, None), (n0, s0)])
        ops.append(["add", o, rng.choice(METHS), n, sd, None])
    actor = rng.choice([x for x in ops if x[0] == "add"])
    victim = rng.choice(obs)
    kind = rng.choice(["hold", "disable"])
    sc = [rng.choice([None, n0]), rng.choice([None, s0]), rng.choice([victim, victim, None])]
    body = [[kind] + sc + ([None] if kind == "hold" else [])]
    if rng.random() < 0.3:
        body.append(["post", n0, s0, 2])
    ops.append(["script", actor[1], actor[2], body])
    ops.append(["post", n0, s0, 1])
    if rng.random() < 0.5:
        ops.append(["post", n0, s0, rng.randrange(2)])
    ops.append(["release" if kind == "hold" else "enable"] + sc)
    ops.append(["post", n0, s0, 0])
    return dict(ops=ops, via_base=rng.random() < 0.3)


def generate(rng, tier):
    n, maxlen = (2400, 25) if tier == "quick" else (32000, 60)
    for i in range(n):
        k = i % 16
        if k in (5, 13):
            yield gen_registry_case(rng, maxlen)
        elif k in (3, 11):
            yield gen_nested_scope_case(rng, maxlen)
        elif k == 7:
            yield gen_dead_case(rng, maxlen)
        elif k == 15:
            yield gen_glob_case(rng, maxlen) if i % 32 == 15 else gen_none_case(rng, maxlen)
        elif k in (1, 9, 14):
            yield gen_bracket_case(rng, maxlen)
        elif k == 6 and i % 32 == 6:
            yield gen_midpost_case(rng, maxlen)
        else:
            yield gen_case(rng, maxlen)


def neighbourhood(case, step, rng):
    """variants around a diverging step: follow it with the ops the property talks about"""
    ops = case["ops"]
    prefix = ops[:step + 1]
    follow = []
    for n in NAMES:
        for s in SENDERS:
            follow.append(["post", n, s, 1])
    scopes = [op[1:4] for op in ops if op[0] in ("hold",)]
    for sc in scopes:
        follow.append(["release"] + sc)
    yield dict(case, ops=prefix)
    for f in follow:
        yield dict(case, ops=prefix + [f])
    for sc in scopes:
        for n in NAMES[:2]:
            for s in SENDERS[:2]:
                yield dict(case, ops=prefix + [["post", n, s, 1], ["release"] + sc])
    yield case


# ---------------------------------------------------------------------------------------
# model side
# ---------------------------------------------------------------------------------------

def enc_op(op):
    k = op[0]
    if k == "add":
        return [Atom("add"), op[1], op[2], opt(op[3]), opt(op[4]), opt(op[5])]
    if k == "remove":
        return [Atom("remove"), op[1], opt(op[2]), opt(op[3])]
    if k == "removeAll":
        return [Atom("removeAll"), op[1], opt(op[2])]
    if k == "has":
        return [Atom("has"), op[1], opt(op[2]), opt(op[3])]
    if k == "find":
        return [Atom("find"), opt(op[1]), opt(op[2]), opt(op[3]), opt(op[4])]
    if k == "post":
        return [Atom("post"), op[1], op[2], op[3]]
    if k == "hold":
        return [Atom("hold"), opt(op[1]), opt(op[2]), opt(op[3]), opt(op[4])]
    if k in ("release", "disable", "enable", "areHeld", "areDisabled", "heldNotes"):
        return [Atom(k), opt(op[1]), opt(op[2]), opt(op[3])]
    if k == "heldKeys":
        return [Atom("heldKeys")]
    if k == "kill":
        return [Atom("kill"), op[1]]
    if k == "script":
        return [Atom("script"), op[1], op[2], [enc_op(x) for x in op[3]]]
    raise ValueError(op)


def model_lines(case):
    return [enc_op(op) for op in case["ops"]]


# ---------------------------------------------------------------------------------------
# implementation side
# ---------------------------------------------------------------------------------------

class _Obs(object):
    def __init__(self, oid, world):
        self.oid = oid
        self.world = weakref.ref(world)

    def cb1(self, notification):
        self.world().on_callback(self.oid, 1, notification)

    def cb2(self, notification):
        self.world().on_callback(self.oid, 2, notification)


class _EqObs(_Obs):
    """a sender that compares equal to every other sender of its kind (like two libs with the same contents)"""

    def __eq__(self, other):
        return isinstance(other, _EqObs)

    def __ne__(self, other):
        return not self.__eq__(other)

    def __hash__(self):
        return id(self)


def _nname(n):
    return None if n is None else "N%d" % n


class World(object):
    def __init__(self, via_base):
        from defcon.tools.notifications import NotificationCenter
        from defcon.objects.base import BaseObject, BaseDictObject
        self.center = NotificationCenter()
        self.via_base = via_base
        self.objs = {}
        for s in SENDERS:
            if via_base:
                # every other sender is dict-like, as defcon's Lib / Kerning / Groups / Image are: all of them are EQUAL
                # (empty dicts) and still different objects, which the centre must keep apart
                b = BaseDictObject() if s % 2 else BaseObject()
                b._dispatcher = weakref.ref(self.center)
                b.sid = s
            else:
                b = _EqObs(s, self) if s % 2 else _Obs(s, self)
            self.objs[s] = b
        for o in OBSERVERS:
            self.objs[o] = _Obs(o, self)
        self.scripts = {}
        self.events = []
        self.deliveries = 0
        self.cov = {}

    def _cov(self, what):
        self.cov[what] = self.cov.get(what, 0) + 1

    def oid(self, obj):
        if obj is None:
            return None
        return getattr(obj, "oid", None) or getattr(obj, "sid", None)

    def on_callback(self, o, m, notification):
        d = notification.data
        dv = 0 if d is None else d["v"]
        s = self.oid(notification.object)
        n = int(notification.name[1:])
        self.events.append([Atom("d"), o, m, n, s, dv])
        self.deliveries += 1
        ops = self.scripts.pop((o, m), None)
        if ops:
            for op in ops:
                self.do(op)

    def do(self, op):
        try:
            res = self._do(op)
        except KeyError:
            res = [Atom("err"), Atom("KeyError")]
        except AssertionError:
            res = [Atom("err"), Atom("AssertionError")]
        except TypeError as e:
            # the duplicate-registration assertion formats its message with `key[1]()`, which is a
            # TypeError when observable is None: still a rejection that changes nothing
            if op[0] == "add" and op[4] is None:
                res = [Atom("err"), Atom("AssertionError")]
            else:
                res = [Atom("err"), Atom("TypeError")]
        except Exception as e:  # anything else is unexpected: shows as a divergence
            res = [Atom("err"), Atom(type(e).__name__)]
        self.events.append([Atom("r"), res])

    def _scope(self, op):
        n, s, o = op[1], op[2], op[3]
        return dict(notification=_nname(n), observable=None if s is None else self.objs[s],
                    observer=None if o is None else self.objs[o])

    def _do(self, op):
        c = self.center
        k = op[0]
        ok = Atom("ok")
        if k == "add":
            o, m, n, s, ident = op[1:]
            if self.via_base and s is not None:
                if n is None:
                    self._cov("wrapper.addObserver(notification=None)")
                self.objs[s].addObserver(self.objs[o], "cb%d" % m, _nname(n), identifier=ident)
            else:
                c.addObserver(self.objs[o], "cb%d" % m, _nname(n), None if s is None else self.objs[s], identifier=ident)
            return ok
        if k == "remove":
            o, n, s = op[1:]
            if self.via_base and s is not None:
                if n is None:
                    self._cov("wrapper.removeObserver(notification=None)")
                self.objs[s].removeObserver(self.objs[o], _nname(n))
            else:
                c.removeObserver(self.objs[o], _nname(n), None if s is None else self.objs[s])
            return ok
        if k == "removeAll":
            o, s = op[1:]
            if self.via_base and s is not None:
                self.objs[s].removeObserver(self.objs[o], "all")
            else:
                c.removeObserver(self.objs[o], "all", None if s is None else self.objs[s])
            return ok
        if k == "has":
            o, n, s = op[1:]
            if self.via_base and s is not None:
                if n is None:
                    self._cov("wrapper.hasObserver(notification=None)")
                return bool(self.objs[s].hasObserver(self.objs[o], _nname(n)))
            return bool(c.hasObserver(self.objs[o], _nname(n), None if s is None else self.objs[s]))
        if k == "find":
            o, n, s, pat = op[1:]
            if self.via_base and s is not None:
                self._cov("wrapper.findObservations(observer=%s, notification=%s, identifier=%s)" % (
                    "None" if o is None else "o", "None" if n is None else "n", "None" if pat is None else "pat"))
                found = self.objs[s].findObservations(observer=None if o is None else self.objs[o],
                                                      notification=_nname(n), identifier=pat)
            else:
                found = c.findObservations(observer=None if o is None else self.objs[o], notification=_nname(n),
                                           observable=None if s is None else self.objs[s], identifier=pat)
            items = []
            for f in found:
                nn = f["notification"]
                items.append([opt(self.oid(f["observer"])), opt(self.oid(f["observable"])),
                              opt(None if nn is None else int(nn[1:])), opt(f["identifier"])])
            return [Atom("found"), [Atom("set")] + items]
        if k == "post":
            n, s, d = op[1:]
            data = None if d == 0 else {"v": d}
            if self.via_base:
                self.objs[s].postNotification(_nname(n), data)
            else:
                c.postNotification(_nname(n), self.objs[s], data)
            return ok
        if k == "hold":
            sc = self._scope(op)
            if self.via_base and op[2] is not None and op[3] is None:
                self.objs[op[2]].holdNotifications(notification=sc["notification"], note=op[4])
            else:
                c.holdNotifications(note=op[4], **sc)
            return ok
        if k == "release":
            sc = self._scope(op)
            if self.via_base and op[2] is not None and op[3] is None:
                self.objs[op[2]].releaseHeldNotifications(notification=sc["notification"])
            else:
                c.releaseHeldNotifications(**sc)
            return ok
        if k == "disable":
            sc = self._scope(op)
            if self.via_base and op[2] is not None:
                self.objs[op[2]].disableNotifications(notification=sc["notification"], observer=sc["observer"])
            else:
                c.disableNotifications(**sc)
            return ok
        if k == "enable":
            sc = self._scope(op)
            if self.via_base and op[2] is not None:
                self.objs[op[2]].enableNotifications(notification=sc["notification"], observer=sc["observer"])
            else:
                c.enableNotifications(**sc)
            return ok
        if k == "areHeld":
            return bool(c.areNotificationsHeld(**self._scope(op)))
        if k == "areDisabled":
            return bool(c.areNotificationsDisabled(**self._scope(op)))
        if k == "heldKeys":
            items = []
            for (n, sref, oref) in c.getHeldNotifications():
                items.append([opt(None if n is None else int(n[1:])),
                              opt(None if sref is None else self._dead_or_id(sref)),
                              opt(None if oref is None else self._dead_or_id(oref))])
            return [Atom("keys"), [Atom("set")] + items]
        if k == "heldNotes":
            return [Atom("notes"), list(c.getHeldNotificationNotes(**self._scope(op)))]
        if k == "kill":
            self._cov("kill.sender" if op[1] in SENDERS else "kill.observer")
            self.killed.add(op[1])
            self.refs[op[1]] = weakref.ref(self.objs[op[1]])
            del self.objs[op[1]]
            gc.collect()
            return ok
        if k == "script":
            self.scripts[(op[1], op[2])] = op[3]
            return ok
        raise ValueError(op)

    killed = None
    refs = None

    def _dead_or_id(self, ref):
        o = ref()
        if o is not None:
            return self.oid(o)
        for oid, r in self.refs.items():
            if r == ref or r is ref:
                return oid
        return 999


def run_impl(case):
    w = World(case.get("via_base", False))
    w.killed = set()
    w.refs = {}
    outs = []
    for op in case["ops"]:
        w.events = []
        w.do(op)
        outs.append(list(w.events))
    viol, cov = oracle(case, outs)
    kinds = dict(cov)
    kinds.update(w.cov)
    for op in case["ops"]:
        kinds["op." + op[0]] = kinds.get("op." + op[0], 0) + 1
    errs = 0
    for evs in outs:
        for e in evs:
            if e[0] == "r" and isinstance(e[1], list) and e[1] and e[1][0] == "err":
                kinds["err." + str(e[1][1])] = kinds.get("err." + str(e[1][1]), 0) + 1
    kinds["deliveries"] = w.deliveries
    kinds["len"] = len(case["ops"])
    if case.get("via_base"):
        kinds["via_base_cases"] = 1
    flavours = set(op[0] for op in case["ops"])
    nontrivial = w.deliveries > 0 and bool(flavours & {"hold", "disable", "script", "remove", "removeAll", "kill"})
    return dict(out=outs, viol=viol, info=dict(nontrivial=nontrivial, stats=kinds))


# ---------------------------------------------------------------------------------------
# direct oracle: the property evaluated on the implementation's trace, from a flat
# specification (ordered list of live registrations, counted holds with queues, counted
# disables) written independently of the Lean model's two-level registry
# ---------------------------------------------------------------------------------------

class Spec(object):
    def __init__(self):
        self.regs = []       # (name, sender, observer, meth, ident) in registration order
        self.holds = {}      # key -> [count, queue]
        self.holds_order = []
        self.disabled = {}
        self.dead = set()
        self.scripts = {}
        self.ev = []
        self.cov = {}        # what the history exercised (evidence only)

    def matching(self, n, s):
        res = []
        for key in ((None, None), (None, s), (n, None), (n, s)):
            res.extend(r for r in self.regs if (r[0], r[1]) == key)
        return res

    def post(self, n, s, d, target=None):
        skeys = [(None, None, None), (n, None, None), (None, s, None), (n, s, None)]
        if any(k in self.disabled for k in skeys):
            return
        for k in skeys:
            if k in self.holds:
                q = self.holds[k][1]
                if (n, s, d, target) not in q:
                    if target is not None and any(e[:3] == (n, s, d) and e[3] is not None for e in q):
                        self.cov["queue.equal_entries_for_two_observers"] = self.cov.get("queue.equal_entries_for_two_observers", 0) + 1
                    q.append((n, s, d, target))
                return
        for key in ((None, None), (None, s), (n, None), (n, s)):
            for r in [r for r in self.regs if (r[0], r[1]) == key]:
                o = r[2]
                if target is not None and o != target:
                    continue
                okeys = [(None, None, o), (n, None, o), (None, s, o), (n, s, o)]
                if any(k in self.disabled for k in okeys):
                    continue
                held = False
                for k in okeys:
                    if k in self.holds:
                        q = self.holds[k][1]
                        if (n, s, d, o) not in q:
                            if any(e[:3] == (n, s, d) and e[3] is not None for e in q):
                                self.cov["queue.equal_entries_for_two_observers"] = self.cov.get("queue.equal_entries_for_two_observers", 0) + 1
                            q.append((n, s, d, o))
                        held = True
                        break
                if held or o in self.dead:
                    continue
                self.ev.append(("d", o, r[3], n, s, d))
                ops = self.scripts.pop((o, r[3]), None)
                if ops:
                    for op in ops:
                        self.do(op)

    def do(self, op):
        k = op[0]
        res = "ok"
        if k == "add":
            o, m, n, s, ident = op[1:]
            if any(r[0] == n and r[1] == s and r[2] == o for r in self.regs):
                res = "AssertionError"
            else:
                self.regs.append((n, s, o, m, ident))
        elif k == "remove":
            o, n, s = op[1:]
            self.regs = [r for r in self.regs if not (r[0] == n and r[1] == s and r[2] == o)]
        elif k == "removeAll":
            o, s = op[1:]
            if not any(r[1] == s and r[2] == o for r in self.regs):
                res = "KeyError"
            self.regs = [r for r in self.regs if not (r[1] == s and r[2] == o)]
        elif k == "post":
            self.post(op[1], op[2], op[3])
        elif k == "hold":
            key = tuple(op[1:4])
            self.holds.setdefault(key, [0, []])[0] += 1
        elif k == "release":
            key = tuple(op[1:4])
            if key not in self.holds:
                res = "KeyError"
            else:
                self.holds[key][0] -= 1
                if self.holds[key][0] == 0:
                    q = self.holds.pop(key)[1]
                    for (n, s, d, t) in q:
                        if s in self.dead:
                            # nobody is left to speak of; the rest of the queue must not suffer
                            self.cov["release.entry_of_dead_sender"] = self.cov.get("release.entry_of_dead_sender", 0) + 1
                            continue
                        if t is not None and t in self.dead:
                            self.cov["release.entry_for_dead_observer"] = self.cov.get("release.entry_for_dead_observer", 0) + 1
                        if t is not None and any(k2 in self.holds for k2 in ((None, None, None), (n, None, None), (None, s, None), (n, s, None))):
                            self.cov["release.restricted_entry_into_wider_hold"] = self.cov.get("release.restricted_entry_into_wider_hold", 0) + 1
                        self.post(n, s, d, t)
        elif k == "disable":
            key = tuple(op[1:4])
            self.disabled[key] = self.disabled.get(key, 0) + 1
        elif k == "enable":
            key = tuple(op[1:4])
            if key not in self.disabled:
                res = "KeyError"
            else:
                self.disabled[key] -= 1
                if not self.disabled[key]:
                    del self.disabled[key]
        elif k == "kill":
            self.dead.add(op[1])
        elif k == "script":
            self.scripts[(op[1], op[2])] = op[3]
        elif k == "has":
            o, n, s = op[1:]
            res = any(r[0] == n and r[1] == s and r[2] == o for r in self.regs)
        elif k == "areHeld":
            res = tuple(op[1:4]) in self.holds
        elif k == "areDisabled":
            res = tuple(op[1:4]) in self.disabled
        elif k == "find":
            res = ("found", self.find(*op[1:]))
        else:
            res = None
        self.ev.append(("r", res))

    def find(self, o, n, s, pat):
        from fnmatch import fnmatchcase
        res = []
        for r in self.regs:
            if n is not None and r[0] != n:
                continue
            if s is not None and r[1] != s:
                continue
            if o is not None and r[2] != o:
                continue
            if pat is not None and (r[4] is None or not fnmatchcase(r[4], pat)):
                continue
            res.append((None if r[2] in self.dead else r[2], None if r[1] in self.dead else r[1], r[0], r[4]))
        return sorted(res, key=repr)


def _impl_events(evs):
    res = []
    for e in evs:
        if e[0] == "d":
            res.append(("d",) + tuple(e[1:]))
        else:
            r = e[1]
            if isinstance(r, list) and r and r[0] == "err":
                res.append(("r", str(r[1])))
            elif isinstance(r, list) and r and r[0] == "found":
                items = []
                for it in r[1][1:]:
                    items.append(tuple(None if x == "none" else x[1] for x in it))
                res.append(("r", ("found", sorted(items, key=repr))))
            elif isinstance(r, list):
                res.append(("r", None))
            elif isinstance(r, bool):
                res.append(("r", r))
            else:
                res.append(("r", str(r)))
    return res


def oracle(case, outs):
    spec = Spec()
    viol = []
    for i, (op, evs) in enumerate(zip(case["ops"], outs)):
        spec.ev = []
        spec.do(op)
        got = _impl_events(evs)
        exp = [e if not (e[0] == "r" and e[1] is None) else ("r", None) for e in spec.ev]
        # results the flat spec does not compute (heldKeys, notes) are not judged
        g2 = [g for g, e in zip(got, exp) if not (e[0] == "r" and e[1] is None)] if len(got) == len(exp) else got
        e2 = [e for e in exp if not (e[0] == "r" and e[1] is None)] if len(got) == len(exp) else exp
        if g2 != e2:
            gd = [g for g in got if g[0] == "d"]
            ed = [e for e in exp if e[0] == "d"]
            if gd != ed:
                extra = [g for g in gd if g not in ed]
                missing = [e for e in ed if e not in gd]
                if extra and not missing:
                    clause = "delivered-to-wrong-or-twice"
                elif missing and not extra:
                    clause = "delivery-missing"
                elif sorted(gd) == sorted(ed):
                    clause = "delivery-order"
                else:
                    clause = "deliveries-differ"
            else:
                clause = "result-of-" + op[0]
            scoped = any(o[0] in ("hold", "disable") for o in case["ops"][:i + 1])
            viol.append(dict(clause="C04/" + clause,
                             signature="C04/%s/%s%s" % (clause, op[0], "/scoped" if scoped else ""),
                             step=i, op=op, expected=repr(e2)[:600], observed=repr(g2)[:600]))
            break
    return viol, spec.cov
