"""C20 - glyph-name sorting returns a permutation of its input, deterministically.

Correspondence with M-Sort (lean/DefconModel/NameSort.lean) on ORDERED results + direct oracle
(result multiset == input multiset, two calls agree, input list / descriptors / font unchanged,
no notification posted, no exception) evaluated on font.unicodeData.sortGlyphNames itself.

A case = one font (glyph names with their unicode lists) + a list of sort calls on it.

Round 3: the font-dependent look-ups the sort methods use are no longer tabulated from the real UnicodeData.  The
first driver line of a case is the WORLD - glyph names and code points as the case declares them, the UnicodeData dict
in its own order, and the facts of the Unicode database (fontTools.unicodedata, not defcon.tools.unicodeTools) about
the code points that occur - and the Lean model derives every look-up from it (lean/DefconModel/NameLookups.lean:
envOf, sortFont) with the open/close tables regenerated from the code.  Beside the sort calls a case asks the real
UnicodeData and the model about every name of the font and a set of probe names (`look`), allocates forced unicodes
(`forced`), reads them back (`byforced`) and compares the dict and the forced tables (`state`).
"""
import ast
import copy
import os
import shutil
import tempfile
from collections import Counter

from sexp import Atom, opt

MODEL = "sort"
SHRINKABLE = True
RULE = ("one font (3-30 glyphs drawn from a structured pool: letters, accented letters, brackets/quotes with their "
        "partners, manual-group punctuation, spaces, ligatures by unicode/name/underscore, dotted suffixes incl. "
        "numbered/upper-case/double/empty ones, .notdef, names starting with . or _, non-ASCII names, odd unicodes "
        "(0, PUA, unassigned, no-block, shared, several per glyph, AGL-mismatched); in a third of the fonts one or two glyphs are "
        "re-wired over the open/close pairs: a neutral glyph carrying both code points of a pair (its own close relative, "
        "alone or beside the ordinary partner, first or second on the closing code point), the two swapped, two glyphs "
        "closing each other, chains, two neutral glyphs on one pair, a non-bracket name carrying a pair) and 4-12 sort "
        "calls on it (+ 1-3 calls aimed at the container-partner pass when the font has bracket-like glyphs: lists drawn "
        "mostly from them and their suffixed / ligature variants, under cannedDesign or _containerPartners): name lists "
        "of 0-16 names drawn from the font and from outside it, with duplicates, and 0-3 descriptors over all 10 public "
        "types (+ the 5 private ones in a tenth of the calls), ascending/descending/omitted, pseudo-unicodes "
        "on/off/omitted; non-trivial = a call with >= 2 distinct names whose result order differs from the input "
        "order; distinct = distinct case dicts.  Round 3: every case also asks all 15 public look-ups (unicode, "
        "pseudo-unicode, category/script/block and close/open relative and decomposition base with and without "
        "pseudo-unicodes, `in font`) about EVERY name of the font, 3-8 probe names (names outside the font, a.suffix, "
        "suffix chains, ligatures, ligatures with a suffix, ligatures whose parts are suffixed, names behind a leading "
        "'.' or '_', odd separators, the empty name) and up to 6 outside names of its sort calls, 6 names per line, "
        "between the sorts or after them (always after them in a font sorted while unread; first thing on a re-opened "
        "font otherwise in 7 of 10); three cases in ten allocate 1-4 forced unicodes between the sorts and read 0-2 "
        "back; half the cases end by comparing the UnicodeData dict and both forced tables")
ASSUMPTIONS = [
    "sort descriptors use the built-in types only (type 'custom' runs a user function: out of scope); private types "
    "(_generalType, _whitespaceCategory, _containerPartners, _manualGroups, _notdef) are compared with the model but "
    "the oracle judges only calls made of the 10 public types",
    "glyph unicode values are valid code points (0..0x10FFFF); chr() raises otherwise",
    "characters outside ASCII in glyph names are lower-case/caseless non-digits (the model's lower()/isdigit() are "
    "ASCII; Python's are Unicode-aware) - they only matter to the grouping inside weightedSuffix, never to the "
    "permutation theorem, which holds for every grouping key",
    "Unicode categories returned by the look-ups are the 30 two-letter general categories (the code tests them with "
    "substring `in`; the model with list membership); checked for every tabulated value",
    "every script / category fontTools.unicodedata returns for any of the 0x110000 code points is in "
    "orderedScripts / orderedCategories (enumerated exhaustively by `extract` on every run)",
    "the container-partner pass is the one repaired by repo_fixes/C20-container-partners.diff",
    "descriptor lists are shorter than CPython's recursion limit (every descriptor nests the block list one level "
    "deeper; about 990 descriptors raise RecursionError); generated lists have 0-3",
    "names are str objects; the lists are Python lists",
    "round 3: the cmap handed to the model is the UnicodeData dict of the real font read ONCE, before the first op (its "
    "order depends on the history of the font, which is C09's matter); glyph names and their code points are the ones "
    "the case declares, not read back",
    "round 3: `\" \" not in decomposition` is modelled as `fewer than two fields` (asserted for every tabulated code "
    "point); the recursion of unicodeTools.decompositionBase gets fuel 12 (the longest chain of Unicode has 3 links: U+1F82) and "
    "that of _findAvailablePUACode fuel 900 (CPython's recursion limit ends it near 990 allocated names)",
    "round 3: the call table Gen/SortCalls.lean follows `self.<name>` references inside class UnicodeData only (the "
    "extractor fails closed on getattr/setattr/aliasing of self); what Font.__getitem__ / __contains__ do when a sort "
    "asks them is judged by the oracle on the real objects (font, cmap and forced tables unchanged)",
]
TRUSTED = [
    "round 3: the model computes the look-ups itself; what is tabulated per case is the world: declared glyph names and "
    "code points, the UnicodeData dict of the real font, and category/script/block/decomposition of the code points that "
    "occur from fontTools.unicodedata (harness/props/c20.py:world_line, db_facts)",
    "lean/DefconModel/Gen/OpenClose.lean (pair text from the AST of unicodeTools.py + the dicts of the imported module) and "
    "Gen/SortCalls.lean (self-references of every method of UnicodeData, from the AST) are regenerated on every run",
    "lean/DefconModel/Gen/SortTables.lean is regenerated from the imported defcon modules and the source AST on "
    "every run (constants, type->method dispatch, canned descriptor lists)",
]

PUBLIC = ["alphabetical", "unicode", "script", "category", "block", "suffix", "decompositionBase",
          "weightedSuffix", "ligature", "cannedDesign"]
PRIVATE = ["_generalType", "_whitespaceCategory", "_containerPartners", "_manualGroups", "_notdef"]
KNOWN_SIG = "C20/multiset/block-drops-No_Block"

# ---------------------------------------------------------------------------------------
# glyph pool
# ---------------------------------------------------------------------------------------

LETTERS = ["A", "B", "a", "b", "c", "f", "i", "Aacute", "aacute", "agrave", "adieresis", "ccedilla", "schwa",
           "alpha", "Omega", "afii10017", "germandbls", "Aringacute"]
BRACKETS = ["parenleft", "parenright", "bracketleft", "bracketright", "braceleft", "braceright",
            "guillemotleft", "guillemotright", "guilsinglleft", "guilsinglright", "quoteleft", "quoteright",
            "quotedblleft", "quotedblright", "quotesinglbase", "quotedblbase", "quotereversed"]
MANUAL = ["percent", "perthousand", "slash", "backslash", "fraction", "bar", "brokenbar", "period", "comma",
          "colon", "semicolon", "ellipsis", "exclam", "exclamdown", "question", "questiondown", "quotesingle",
          "quotedbl", "at", "ampersand", "section", "paragraph", "asterisk", "dagger", "daggerdbl",
          "periodcentered", "bullet", "acute", "grave", "circumflex", "tilde", "dieresis", "asciicircum",
          "asciitilde", "plus", "minus", "plusminus", "equal", "less", "greater", "copyright", "registered",
          "trademark", "Euro", "florin", "onesuperior", "twosuperior", "threesuperior"]
OTHER = ["space", "nbspace", "zero", "one", "two", "hyphen", "underscore", "gravecomb", "acutecomb", "dollar",
         "fi", "fl", "ff", "ffi", "uniFB00", "uniFB03"]
SPECIAL = [".notdef", ".notdef.alt", ".null", "_part", "_a.b", "foo", "bar", "NULL", "CR", "a.", "a..b", ".",
           "f_i", "f_f_i", "a_b", "T_h", "c_a", "space_uni0326", "f_i.alt", "a_b.sc",
           "é", "ж.alt", "中", "\U0001d4b6", "a.é", "ｚ", "ж"]
SUFFIXES = ["alt", "alt1", "alt2", "alt12", "ALT", "Alt", "sc", "SC", "ss01", "ss02", "001", "0012", "001a", "1", "12",
            "alt.ss01", "sc.alt", "", "x", "x1", "X2", "a1b", "a1b2", "numr", "case", "é"]
EXTRA_UNI = dict(nbspace=0xA0, quotereversed=0x201B, gravecomb=0x300, acutecomb=0x301, uniFB00=0xFB00,
                 uniFB03=0xFB03, fi=0xFB01, fl=0xFB02, NULL=0, CR=0xD, afii10017=0x410, Aringacute=0x1FA)
ODD_UNI = [0, 0xE000, 0xF8FF, 0x378, 0x2FE0, 0x10FFFF, 0xF0000, 0x1F600, 0x2460, 0x5D0, 0x627, 0x4E2D, 0x1D4B6,
           0x28, 0x29, 0x5B, 0x5D, 0xAB, 0xBB, 0x2018, 0x2019, 0x201A, 0x201C, 0x201D, 0x201E, 0x201F, 0x2E42,
           0x301D, 0x301E, 0x301F, 0xFD3E, 0xFD3F, 0xE1, 0x1FA, 0x1EA5, 0x1E9B, 0x3D3, 0x3D4, 0x2126, 0x212B,
           0xFB01, 0xFB06, 0x20, 0x2003, 0x3000, 0x2031, 0x25, 0x2E, 0x2C,
           # plain base letters: a second unicode of this kind makes a glyph the decomposition base of others
           # (or of itself) while it has a base of its own
           0x61, 0x63, 0x41, 0x61, 0x63]


# open/close pairs of unicodeTools._openClosePairText within reach of the pool (incl. the hand-made exceptions: several
# openers for one closer, 0x201F both a closer and an opener)
PAIRS = [(0x28, 0x29), (0x5B, 0x5D), (0x7B, 0x7D), (0xAB, 0xBB), (0x2018, 0x2019), (0x201C, 0x201D), (0x2039, 0x203A),
         (0x201A, 0x2019), (0x201B, 0x2019), (0x201E, 0x201D), (0x201F, 0x201D), (0x2E42, 0x201F), (0x301D, 0x301E),
         (0xFD3F, 0xFD3E), (0xFF08, 0xFF09), (0x2045, 0x2046)]
PAIR_CODES = set(v for p in PAIRS for v in p)
OPEN_TO_CLOSE = {}
for _o, _c in PAIRS:
    OPEN_TO_CLOSE.setdefault(_o, _c)
REWIRINGS = ["neutral", "neutral", "neutral", "neutral+", "swapped", "crossed", "chained", "twins", "foreign"]


def _agl():
    from fontTools.agl import AGL2UV
    return AGL2UV


def gen_font(rng):
    agl = _agl()
    n = rng.choice([3, 5, 8, 12, 16, 20, 30])
    bases = []
    pools = [(LETTERS, 0.30), (BRACKETS, 0.25), (MANUAL, 0.2), (OTHER, 0.1), (SPECIAL, 0.15)]
    while len(bases) < n:
        r = rng.random()
        acc = 0
        for pool, w in pools:
            acc += w
            if r < acc:
                nm = rng.choice(pool)
                break
        else:
            nm = rng.choice(SPECIAL)
        if nm not in bases:
            bases.append(nm)
    # opening brackets mostly come with their partner
    for b in list(bases):
        if b in BRACKETS and rng.random() < 0.6:
            i = BRACKETS.index(b)
            p = BRACKETS[i ^ 1] if i < 14 else "quoteright"
            if p not in bases:
                bases.append(p)
    names = list(bases)
    for b in bases:
        if "." in b or b.startswith("_"):
            continue
        k = rng.choice([0, 0, 0, 1, 1, 2, 3])
        for _ in range(k):
            nm = b + "." + rng.choice(SUFFIXES)
            if nm not in names:
                names.append(nm)
    rng.shuffle(names)
    font = []
    for nm in names:
        r = rng.random()
        unis = []
        if "." in nm or "_" in nm:
            if r < 0.07:
                unis = [rng.choice(ODD_UNI)]
        else:
            u = agl.get(nm, EXTRA_UNI.get(nm))
            if len(nm) == 1 and ord(nm) > 127:
                u = ord(nm)
            if r < 0.75 and u is not None:
                unis = [u]
            elif r < 0.85:
                unis = [rng.choice(ODD_UNI)]
            elif r < 0.90 and u is not None:
                unis = [u, rng.choice(ODD_UNI)]
                if nm in ("aacute", "agrave", "adieresis", "ccedilla", "Aacute", "Aringacute") and rng.random() < 0.6:
                    unis = [u, rng.choice([0x61, 0x63, 0x41])]
            elif r < 0.93:
                unis = [rng.choice(ODD_UNI), rng.choice(ODD_UNI)]
        font.append([nm, unis])
    if rng.random() < 0.33:
        rewire_pairs(rng, font)
    return font


def rewire_pairs(rng, font):
    """one glyph for several code points of open/close pairs, as in typewriter-style or monospaced designs: a neutral
    quote / bracket is its OWN close relative; swapped, crossed (two glyphs closing each other), chained and doubled
    variants give the other shapes the close-relative relation can take beside 'opener -> another glyph'"""
    plain = [g for g in font if "." not in g[0] and "_" not in g[0]]
    if not plain:
        return None
    named = [g for g in plain if g[0] in BRACKETS]

    def pick(avoid=()):
        pool = [g for g in named if g[0] not in avoid] if rng.random() < 0.75 else []
        pool = pool or [g for g in plain if g[0] not in avoid]
        return rng.choice(pool) if pool else None

    def pair_of(g, avoid=()):
        own = [u for u in g[1] if u in OPEN_TO_CLOSE and u not in avoid]
        if own and rng.random() < 0.8:
            return own[0], OPEN_TO_CLOSE[own[0]]
        return rng.choice([p for p in PAIRS if p[0] not in avoid])

    def strip(codes, keep):
        # the other glyphs lose the code point (else the first glyph of the font that carries it answers the cmap)
        for g in font:
            if not any(g is k for k in keep):
                g[1] = [u for u in g[1] if u not in codes]

    def to_front(g):
        font.remove(g)
        font.insert(0, g)

    kind = rng.choice(REWIRINGS)
    g = pick()
    if kind == "foreign":
        others = [x for x in plain if x[0] not in BRACKETS]
        g = rng.choice(others) if others else g
    o, c = pair_of(g)
    keep = [g]
    if kind in ("neutral", "foreign"):
        g[1] = [o, c]
    elif kind == "neutral+":
        g[1] = rng.choice([[o, c, rng.choice(ODD_UNI)], [o, rng.choice(ODD_UNI), c], [o, c, o], [o, c, c]])
    elif kind == "swapped":
        g[1] = [c, o]
    else:
        h = pick(avoid=(g[0],))
        if h is None:
            g[1] = [o, c]
        else:
            keep.append(h)
            o2, c2 = pair_of(h, avoid=(o,))
            if kind == "crossed":
                g[1], h[1] = [o, c2], [o2, c]
                c = (c, c2)
            elif kind == "chained":
                g[1], h[1] = [o], [o2, c]
            else:  # twins: two neutral glyphs on one pair, the first of the font closes both
                g[1], h[1] = [o, c], [o, c]
    codes = set(c) if isinstance(c, tuple) else {c}
    r = rng.random()
    if r < 0.45:
        strip(codes, keep)
    elif r < 0.7:
        for k in reversed(keep):
            to_front(k)
    return kind


def gen_names(rng, font):
    fnames = [g[0] for g in font]
    outside = [n for n in LETTERS + BRACKETS + MANUAL + OTHER + SPECIAL if n not in fnames]
    k = rng.choice([0, 1, 2, 3, 4, 5, 6, 8, 10, 12, 16])
    mode = rng.random()
    names = []
    if mode < 0.15 and len(fnames) <= 16:
        names = list(fnames)
        rng.shuffle(names)
    else:
        for _ in range(k):
            r = rng.random()
            if r < 0.72 or not outside:
                names.append(rng.choice(fnames))
            elif r < 0.86:
                names.append(rng.choice(outside))
            elif r < 0.93:
                names.append(rng.choice(fnames).split(".")[0] + "." + rng.choice(SUFFIXES))
            elif names:
                names.append(rng.choice(names))
    if names and rng.random() < 0.3:
        for _ in range(rng.randint(1, 3)):
            names.insert(rng.randrange(len(names) + 1), rng.choice(names))
    return names


def gen_descs(rng):
    k = rng.choice([0, 1, 1, 1, 1, 2, 2, 3])
    descs = []
    private = rng.random() < 0.1
    for _ in range(k):
        t = rng.choice(PRIVATE + PUBLIC[:3]) if private else rng.choice(PUBLIC)
        a = rng.choice([None, True, True, False, False])
        p = rng.choice([None, False, True, True])
        descs.append([t, a, p])
    return descs


def _stem(name):
    # what pseudoUnicodeForGlyphName falls back to: the part before the first dot, then before the first underscore
    return name.split(".")[0].split("_")[0]


def bracket_like(font):
    """names of the font that can have or be a close relative: a glyph carrying a code point of an open/close pair,
    and the suffixed / ligature names whose pseudo-unicode is taken from such a glyph"""
    carriers = set(g[0] for g in font if any(u in PAIR_CODES for u in g[1]))
    return [g[0] for g in font if g[0] in carriers or (g[0][:1] not in "._" and _stem(g[0]) in carriers)]


def gen_partner_call(rng, font, focus):
    """a call aimed at the container-partner pass: mostly bracket-like names, a few others around them"""
    fnames = [g[0] for g in font]
    names = []
    for _ in range(rng.choice([1, 1, 2, 2, 3, 4, 5, 6, 8])):
        r = rng.random()
        if r < 0.6:
            names.append(rng.choice(focus))
        elif r < 0.88:
            names.append(rng.choice(fnames))
        elif r < 0.95:
            names.append(_stem(rng.choice(focus)) + rng.choice([".", "_"]) + rng.choice(SUFFIXES + ["a", "parenright"]))
        else:
            names.append(rng.choice(LETTERS + BRACKETS))
    if rng.random() < 0.35:
        for _ in range(rng.randint(1, 2)):
            names.insert(rng.randrange(len(names) + 1), rng.choice(names))
    t = rng.choice(["cannedDesign", "cannedDesign", "cannedDesign", "_containerPartners"])
    descs = [[t, rng.choice([None, True, False]), rng.choice([None, False, True, True])]]
    if t == "cannedDesign" and rng.random() < 0.25:
        descs.insert(rng.randrange(2), [rng.choice(PUBLIC), rng.choice([None, True, False]), rng.choice([None, False, True])])
    return dict(names=names, descs=descs)


def gen_case(rng):
    font = gen_font(rng)
    ops = [dict(names=gen_names(rng, font), descs=gen_descs(rng)) for _ in range(rng.randint(4, 12))]
    focus = bracket_like(font)
    if focus and rng.random() < 0.6:
        for _ in range(rng.randint(1, 3)):
            ops.insert(rng.randrange(len(ops) + 1), gen_partner_call(rng, font, focus))
    case = dict(font=font, from_disk=rng.random() < 0.15, ops=ops)
    if case["from_disk"] and rng.random() < 0.7:
        # a freshly opened UFO that is sorted while (most of) its glyphs are still unread: a few are read before the
        # unicode data are first asked for; some glyphs carry, after their own, a code point another glyph has too
        # (the answers must not depend on what has been read: the font is the same font)
        case["lazy"] = True
        names = [g[0] for g in font]
        case["preread"] = rng.sample(names, min(len(names), rng.choice([0, 1, 1, 2, 3])))
        encoded = [g for g in font if g[1]]
        for _ in range(rng.choice([0, 1, 2, 3]) if len(encoded) >= 2 else 0):
            a, b = rng.sample(encoded, 2)
            if b[1][0] not in a[1]:
                a[1] = a[1] + [b[1][0]]
    add_lookup_ops(rng, case)
    return case


def gen_probes(rng, font):
    """names to ask the look-ups about beside the font's own: names outside the font, suffix chains, ligature names
    with suffixed parts, names hidden behind a leading "." or "_", mostly built on names the font has"""
    fnames = [g[0] for g in font]
    plain = [n for n in fnames if "." not in n and "_" not in n] or ["a"]
    outside = [n for n in LETTERS + BRACKETS + MANUAL + OTHER + SPECIAL if n not in fnames]
    probes = []
    for _ in range(rng.choice([3, 4, 6, 8])):
        a, b = rng.choice(plain), rng.choice(plain)
        s1, s2 = rng.choice(SUFFIXES), rng.choice(SUFFIXES)
        r = rng.random()
        if r < 0.14:
            probes.append(rng.choice(outside) if outside else a + ".zz")
        elif r < 0.30:
            probes.append(a + "." + s1)                                   # a.alt
        elif r < 0.42:
            probes.append(a + "." + s1 + "." + s2)                        # suffix chain
        elif r < 0.54:
            probes.append(a + "_" + b)                                    # ligature
        elif r < 0.66:
            probes.append(a + "_" + b + "." + s1)                         # ligature with a suffix
        elif r < 0.78:
            probes.append(a + "." + s1 + "_" + b + rng.choice(["", "." + s2]))   # ligature whose parts are suffixed
        elif r < 0.84:
            probes.append(rng.choice(["_", "."]) + a + rng.choice(["", "." + s1, "_" + b]))
        elif r < 0.90:
            probes.append(rng.choice(fnames) + rng.choice([".", "_", "..", "._", "_."]) + rng.choice(["", s1, b]))
        elif r < 0.95:
            probes.append(rng.choice(fnames).split(".")[0].split("_")[0])  # the stem of a name of the font
        else:
            probes.append(rng.choice(["", ".", "_", "a.", "_.a", "a__b", "A.a_b.c"]))
    return probes


def add_lookup_ops(rng, case):
    """round 3: ask the real look-ups (and the model, which derives them from names + cmap + Unicode tables) about every
    name of the font and the probes; now and then allocate forced unicodes between the sorts"""
    font = case["font"]
    fnames = [g[0] for g in font]
    ops = case["ops"]
    asked = fnames + gen_probes(rng, font)
    called = [n for op in ops for n in op.get("names", []) if n not in fnames]
    asked += list(dict.fromkeys(called))[:6]
    # a handful of names per op, so that a diverging answer shrinks to a short line
    looks = [dict(look=asked[j:j + 6]) for j in range(0, len(asked), 6)]
    if case.get("lazy") or (case.get("from_disk") and rng.random() < 0.3):
        ops.extend(looks)                    # a font sorted while unread is asked afterwards (asking reads the glyphs)
    else:
        at = rng.randrange(len(ops) + 1)
        spread = rng.random() < 0.5          # all in one place, or between the sorts (and the allocations below)
        for look in looks:
            ops.insert(rng.randrange(len(ops) + 1) if spread else at, look)
            at += 1
    if rng.random() < 0.3:
        pool = asked
        for _ in range(rng.randint(1, 4)):
            ops.insert(rng.randrange(len(ops) + 1), dict(forced=rng.choice(pool)))
        for _ in range(rng.randint(0, 2)):
            v = rng.choice([0xE000, 0xE001, 0xE002, 0xF8FF, 0xF0000] + [u for g in font for u in g[1]][:3])
            ops.insert(rng.randrange(len(ops) + 1), dict(byforced=v))
    if rng.random() < 0.5:
        ops.append(dict(state=1))


def generate(rng, tier):
    n = 900 if tier == "quick" else 8000
    for _ in range(n):
        yield gen_case(rng)


def _variants(names, descs, rng):
    """sort calls around a suspicious one"""
    seen = []
    ts = [d[0] for d in descs] or ["unicode"]
    for t in dict.fromkeys(ts + PUBLIC):
        for a in (True, False):
            for p in (False, True):
                seen.append(dict(names=list(names), descs=[[t, a, p]]))
    seen.append(dict(names=list(names) + list(names), descs=descs))
    for i in range(len(names)):
        seen.append(dict(names=names[:i] + names[i + 1:], descs=descs))
    for i in range(len(names)):
        seen.append(dict(names=names[:i + 1] + names[i:], descs=descs))
    for _ in range(6):
        sub = [n for n in names if rng.random() < 0.6]
        seen.append(dict(names=sub, descs=descs))
    return seen


def neighbourhood(case, step, rng):
    """variants around a diverging sort call (step 0 is the env line)"""
    i = max(0, min(len(case["ops"]) - 1, step - 1))
    op = case["ops"][i]
    fnames = [g[0] for g in case["font"]]
    if "names" not in op:
        # a look-up answered otherwise than the model derives it: sort the names it was asked about, every type
        asked = list(op.get("look", [])) or ([op["forced"]] if "forced" in op else []) or fnames
        vs = _variants(fnames, [], rng)
        for j in range(0, len(asked), 8):
            vs += _variants(asked[j:j + 8] + fnames[:4], [], rng)[:44]
        for j in range(0, len(vs), 12):
            yield dict(case, ops=vs[j:j + 12])
        return
    yield dict(case, ops=[op])
    vs = _variants(op["names"], op["descs"], rng)
    vs += _variants(fnames, op["descs"], rng)
    for j in range(0, len(vs), 12):
        yield dict(case, ops=vs[j:j + 12])


UNCOVERED = []      # filled by extract(): code points whose script / category the ordered tables do not list


def search(rng, tier, broken):
    """directed search when a table obligation broke: fonts holding the code points the broken obligation names (a
    script / category that is missing from the ordered tables loses exactly the names that carry it), then every type
    on rich fonts"""
    for k in range(40 if UNCOVERED else 0):
        font = gen_font(rng)
        taken = set(u for _, us in font for u in us)
        extra = [v for v in rng.sample(UNCOVERED, min(len(UNCOVERED), rng.randint(1, 4))) if v not in taken]
        font = font + [["uni%04X" % v, [v]] for v in extra]
        fnames = [g[0] for g in font]
        ops = []
        for t in ("script", "category", "block", "unicode", "cannedDesign"):
            ops.append(dict(names=(fnames if k % 2 else gen_names(rng, font) + fnames[-len(extra):]),
                            descs=[[t, rng.choice([True, False]), rng.choice([True, False])]]))
        yield dict(font=font, from_disk=False, ops=ops)
    for _ in range(400 if tier == "quick" else 4000):
        font = gen_font(rng)
        fnames = [g[0] for g in font]
        ops = []
        for t in PUBLIC:
            ops.append(dict(names=gen_names(rng, font), descs=[[t, rng.choice([True, False]), rng.choice([True, False])]]))
        ops.append(dict(names=fnames + fnames[:3], descs=[["cannedDesign", True, True]]))
        yield dict(font=font, from_disk=False, ops=ops)


# ---------------------------------------------------------------------------------------
# real font + tabulation of the look-ups
# ---------------------------------------------------------------------------------------

def _mkdtemp():
    # scratch UFOs on a memory file system when there is one (a busy disk makes the 140 saves of a quick run the
    # slowest part of it); always a fresh directory, removed by the caller
    shm = "/dev/shm"
    return tempfile.mkdtemp(prefix="c20_", dir=shm if os.path.isdir(shm) and os.access(shm, os.W_OK) else None)


def build_font(case, tmp=None):
    from defcon import Font
    font = Font()
    for name, unis in case["font"]:
        g = font.newGlyph(name)
        if unis:
            g.unicodes = list(unis)
    if tmp is not None:
        path = os.path.join(tmp, "f.ufo")
        font.save(path)
        font = Font(path)
        if case.get("lazy"):
            for n in case.get("preread", []):
                font[n]
    return font


def case_names(case):
    seen = {}
    for op in case["ops"]:
        for n in op.get("names", []):
            seen[n] = 1
    return list(seen)


def db_facts(v):
    """what the Unicode database (fontTools.unicodedata, NOT defcon.tools.unicodeTools) says about one code point"""
    from fontTools import unicodedata as ucd
    c = chr(v)
    dec = ucd.decomposition(c)
    compat = dec.startswith("<")
    fields = [f for f in dec.split(" ") if f and not f.startswith("<")]
    parts = [int(f, 16) for f in fields]
    if not compat:
        # the model reads `" " not in decomposition` as `fewer than two parts`
        assert (" " in dec) == (len(parts) >= 2), (v, dec)
    return [v, ucd.category(c), ucd.script_name(ucd.script(c), default="Unknown"), ucd.block(c), compat, parts]


def world_line(font, case):
    """the model's parameters: glyph names and their code points as the case declares them, the UnicodeData dict in its
    own order (read once, from the real object), and the Unicode-database facts of the code points that occur"""
    ud = font.unicodeData
    declared = [[g[0]] + [int(u) for u in g[1]] for g in case["font"]]
    cmap = [[int(k)] + list(v) for k, v in ud.items()]
    todo = [u for g in declared for u in g[1:]] + [r[0] for r in cmap]
    rows, seen = [], set()
    while todo:
        v = todo.pop()
        if v in seen or not (0 <= v <= 0x10FFFF):
            continue
        seen.add(v)
        row = db_facts(v)
        rows.append(row)
        todo.extend(row[5])
    rows.sort()
    return [Atom("world"), [Atom("names")] + [g[0] for g in declared], [Atom("unicodes")] + declared,
            [Atom("cmap")] + cmap, [Atom("db")] + rows]


def tabulate(font, names):
    """the model's Env, read off the real objects"""
    from defcon.tools import unicodeTools
    ud = font.unicodeData
    rows, values = [], {}
    cats = set(unicodeTools.orderedCategories)
    for n in names:
        u = ud.unicodeForGlyphName(n)
        p = ud.pseudoUnicodeForGlyphName(n)
        row = [n, opt(u), opt(p)]
        for look in (ud.categoryForGlyphName, ud.scriptForGlyphName, ud.blockForGlyphName):
            for flag in (False, True):
                v = look(n, flag)
                assert isinstance(v, str)
                row.append(v)
        assert row[3] in cats and row[4] in cats, row
        for flag in (False, True):
            row.append(opt(ud.closeRelativeForGlyphName(n, flag)))
        rows.append(row)
        for v in (u, p):
            if v is not None:
                values[v] = 1
    decomp, cmap = [], {}
    for v in sorted(values):
        d = unicodeTools.decompositionBase(v)
        decomp.append([v, d])
        cmap[d] = ud.glyphNameForUnicode(d)
    return [Atom("env"), [Atom("names")] + rows, [Atom("font")] + sorted(font.keys()),
            [Atom("decomp")] + decomp, [Atom("cmap")] + [[d, opt(cmap[d])] for d in sorted(cmap)]]


def _flag(x, default):
    return default if x is None else bool(x)


def model_lines(case):
    # the same font the implementation run sorts (a re-opened UFO lists glyphs sharing a code point in another order)
    tmp = _mkdtemp() if case.get("from_disk") else None
    try:
        font = build_font(case, tmp)
        lines = [world_line(font, case)]
    finally:
        if tmp is not None:
            shutil.rmtree(tmp, ignore_errors=True)
    for op in case["ops"]:
        if "look" in op:
            lines.append([Atom("look")] + list(op["look"]))
        elif "forced" in op:
            lines.append([Atom("forced"), op["forced"]])
        elif "byforced" in op:
            lines.append([Atom("byforced"), int(op["byforced"])])
        elif "state" in op:
            lines.append([Atom("state")])
        else:
            lines.append([Atom("sort"), list(op["names"]),
                          [[Atom(d[0]), _flag(d[1], True), _flag(d[2], False)] for d in op["descs"]]])
    return lines


def _answer(f, *a):
    try:
        return f(*a)
    except Exception as e:  # noqa
        return _Raised(type(e).__name__)


class _Raised(object):
    def __init__(self, name):
        self.name = name


def _enc(v, kind):
    if isinstance(v, _Raised):
        return [Atom("err"), Atom(v.name)]
    if kind == "opt":
        return opt(v)
    if kind == "bool":
        return bool(v)
    return v if isinstance(v, str) else repr(v)


def look_row(font, ud, n):
    """the real answers of every public look-up about one name, in the order of the model's `(row …)`"""
    row = [Atom("row"), _enc(_answer(ud.unicodeForGlyphName, n), "opt"), _enc(_answer(ud.pseudoUnicodeForGlyphName, n), "opt")]
    for look in (ud.categoryForGlyphName, ud.scriptForGlyphName, ud.blockForGlyphName):
        for flag in (False, True):
            row.append(_enc(_answer(look, n, flag), "str"))
    for look in (ud.closeRelativeForGlyphName, ud.openRelativeForGlyphName):
        for flag in (False, True):
            row.append(_enc(_answer(look, n, flag), "opt"))
    for flag in (False, True):
        row.append(_enc(_answer(ud.decompositionBaseForGlyphName, n, flag), "str"))
    row.append(_enc(_answer(lambda: n in font), "bool"))
    return row


def other_op(font, ud, op, stats):
    """the ops that are not sort calls, on the real objects"""
    if "look" in op:
        stats["lookup.names"] = stats.get("lookup.names", 0) + len(op["look"])
        fkeys = set(font.keys())
        for n in op["look"]:
            kind = "in_font" if n in fkeys else "outside"
            if n not in fkeys and "_" in n.split(".")[0] and "." in n.split("_")[0]:
                kind = "ligature_with_suffixed_part"
            elif n not in fkeys and n.count(".") >= 2:
                kind = "suffix_chain"
            stats["lookup." + kind] = stats.get("lookup." + kind, 0) + 1
        rows = [look_row(font, ud, n) for n in op["look"]]
        for r in rows:
            if r[2] != r[1]:
                stats["lookup.pseudo_differs"] = stats.get("lookup.pseudo_differs", 0) + 1
            if r[10] != Atom("none") or r[12] != Atom("none"):
                stats["lookup.with_relative"] = stats.get("lookup.with_relative", 0) + 1
        for n, r in zip(op["look"], rows):
            if r[14] != n:
                stats["lookup.with_decomposition_base"] = stats.get("lookup.with_decomposition_base", 0) + 1
        return [Atom("rows")] + rows
    if "forced" in op:
        before = len(ud._glyphNameToForcedUnicode)
        v = _answer(ud.forcedUnicodeForGlyphName, op["forced"])
        stats["forced.calls"] = stats.get("forced.calls", 0) + 1
        if len(ud._glyphNameToForcedUnicode) > before:
            stats["forced.allocated"] = stats.get("forced.allocated", 0) + 1
        return [Atom("err"), Atom(v.name)] if isinstance(v, _Raised) else [Atom("ok"), v]
    if "byforced" in op:
        v = _answer(ud.glyphNameForForcedUnicode, op["byforced"])
        return [Atom("err"), Atom(v.name)] if isinstance(v, _Raised) else [Atom("ok"), opt(v)]
    if "state" in op:
        return [Atom("state"), [Atom("cmap")] + [[int(k)] + list(v) for k, v in ud.items()],
                [Atom("forced")] + [[k, int(v)] for k, v in ud._glyphNameToForcedUnicode.items()],
                [Atom("codes")] + [[int(k), v] for k, v in ud._forcedUnicodeToGlyphName.items()]]
    raise ValueError("unknown op %r" % (op,))


# ---------------------------------------------------------------------------------------
# implementation side + direct oracle
# ---------------------------------------------------------------------------------------

class _Catch(object):
    def __init__(self):
        self.seen = []

    def cb(self, notification):
        self.seen.append(notification.name)


def snapshot(font, load=True):
    layer = font.layers.defaultLayer
    ud = font.unicodeData
    glyphs = []
    for name in sorted(font.keys()):
        if not load and name not in layer._glyphs:      # a font sorted while unread is not read by the harness either
            glyphs.append((name, "unread"))
            continue
        g = font[name]
        glyphs.append((name, list(g.unicodes), bool(g.dirty), g.width, len(g), len(g.components)))
    return dict(glyphs=glyphs, order=list(font.glyphOrder), dirty=(bool(font.dirty), bool(layer.dirty), bool(ud.dirty)),
                cmap=sorted((k, list(v)) for k, v in ud.items()), lib=copy.deepcopy(dict(font.lib)),
                forced=[ud.glyphNameForForcedUnicode(v) for v in range(0xE000, 0xE020)],
                forced_tables=(sorted(ud._glyphNameToForcedUnicode.items()), sorted(ud._forcedUnicodeToGlyphName.items())),
                layers=list(font.layers.layerOrder))


def mk_descs(descs):
    res = []
    for t, a, p in descs:
        d = dict(type=t)
        if a is not None:
            d["ascending"] = a
        if p is not None:
            d["allowPseudoUnicode"] = p
        res.append(d)
    return res


def _types(descs):
    return "+".join(d[0] for d in descs) or "none"


def judge(font, op, result, result2, names_after, names_before, descs_after, descs_before, snap0, snap1, notes, exc):
    """the property's predicate on one call of the real sortGlyphNames"""
    viol = []
    ts = _types(op["descs"])

    def v(clause, site, **kw):
        viol.append(dict(clause="C20/" + clause, signature="C20/%s/%s" % (clause, site), types=ts,
                         names=names_before, descs=op["descs"], **kw))
    if exc is not None:
        v("raises", ts + "/" + exc)
        return viol
    want, got = Counter(names_before), Counter(result)
    if want != got:
        dropped = sorted((want - got).elements())
        extra = sorted((got - want).elements())
        site = ts
        blocks = [d for d in op["descs"] if d[0] == "block"]
        if blocks and dropped and not extra:
            ud = font.unicodeData
            if all(any(ud.blockForGlyphName(n, _flag(d[2], False)) == "No_Block" for d in blocks) for n in set(dropped)):
                site = "block-drops-No_Block"
        v("multiset", site, dropped=dropped, extra=extra, result=result)
    if result2 != result:
        v("deterministic", ts, first=result, second=result2)
    if names_after != names_before:
        v("input-list-modified", ts, after=names_after)
    if descs_after != descs_before:
        v("descriptors-modified", ts)
    if snap0 != snap1:
        diff = sorted(k for k in snap0 if snap0[k] != snap1[k])
        v("font-modified", ts + "/" + ",".join(diff))
    if notes:
        v("font-modified", ts + "/notification", posted=sorted(set(notes)))
    if not all(isinstance(x, str) for x in result) or not isinstance(result, list):
        v("result-type", ts)
    return viol


def run_impl(case):
    tmp = _mkdtemp() if case.get("from_disk") else None
    try:
        return _run_impl(case, tmp)
    finally:
        if tmp is not None:
            shutil.rmtree(tmp, ignore_errors=True)


def _run_impl(case, tmp):
    font = build_font(case, tmp)
    ud = font.unicodeData
    catch = _Catch()
    font.dispatcher.addObserver(catch, "cb", None, None)
    outs = [Atom("ok")]
    viol = []
    stats = {"cases": 1, "font.glyphs": len(case["font"]), "font.from_disk": int(bool(case.get("from_disk")))}
    nontrivial = False
    lazy = bool(case.get("lazy"))
    firsts = []
    if lazy:
        stats["font.sorted_while_unread"] = 1
    fkeys = set(font.keys())
    # shapes of the close-relative relation in this font, read off the real look-ups
    close = {}
    for flag in (False, True):
        for n in sorted(fkeys):
            c = ud.closeRelativeForGlyphName(n, flag)
            if c is not None:
                close[(n, flag)] = c
    selfrel = set(k for k, c in close.items() if c == k[0])
    cyclic = set(k for k, c in close.items() if c != k[0] and close.get((c, k[1])) == k[0])
    chained = set(k for k, c in close.items() if c != k[0] and (c, k[1]) in close and close[(c, k[1])] not in (c, k[0]))
    for key, group in (("font.self_close_relative", selfrel), ("font.two_glyphs_close_each_other", cyclic),
                       ("font.close_relative_chain", chained)):
        if group:
            stats[key] = 1
    unread = None
    for i, op in enumerate(case["ops"]):
        if "names" not in op:
            if lazy and unread is None and "look" in op:
                unread = [n for n in sorted(fkeys) if n not in font.layers.defaultLayer._glyphs]
            outs.append(other_op(font, ud, op, stats))
            firsts.append(None)
            continue
        names = list(op["names"])
        names0 = list(names)
        descs = mk_descs(op["descs"])
        descs0 = copy.deepcopy(descs)
        public = all(d[0] in PUBLIC for d in op["descs"])
        snap0 = snapshot(font, load=not lazy)
        del catch.seen[:]
        result = result2 = None
        exc = None
        try:
            # private types may edit their argument (they only ever see fresh lists inside the canned sort)
            result = ud.sortGlyphNames(names if public else list(names), descs)
            notes = list(catch.seen)
            result2 = ud.sortGlyphNames(list(names0), copy.deepcopy(descs0))
        except Exception as e:  # noqa
            exc = type(e).__name__
            notes = list(catch.seen)
        snap1 = snapshot(font, load=not lazy)
        firsts.append(None if exc is not None or not public else list(result))
        if exc is not None:
            outs.append([Atom("err"), Atom(exc)])
        else:
            outs.append([Atom("ok")] + [x if isinstance(x, str) else repr(x) for x in result])
        if public:
            for rec in judge(font, op, result, result2, names, names0, descs, descs0, snap0, snap1, notes, exc):
                rec["step"] = i + 1
                viol.append(rec)
        # distribution
        stats["calls"] = stats.get("calls", 0) + 1
        for d in op["descs"]:
            stats["type." + d[0]] = stats.get("type." + d[0], 0) + 1
            stats["asc.%s" % d[1]] = stats.get("asc.%s" % d[1], 0) + 1
            stats["pseudo.%s" % d[2]] = stats.get("pseudo.%s" % d[2], 0) + 1
        stats["ndescs.%d" % len(op["descs"])] = stats.get("ndescs.%d" % len(op["descs"]), 0) + 1
        ln = len(names0)
        bucket = "0" if ln == 0 else "1" if ln == 1 else "2-4" if ln <= 4 else "5-8" if ln <= 8 else "9+"
        stats["len." + bucket] = stats.get("len." + bucket, 0) + 1
        if len(set(names0)) < ln:
            stats["with.duplicates"] = stats.get("with.duplicates", 0) + 1
        if any(n not in fkeys for n in names0):
            stats["with.outside_names"] = stats.get("with.outside_names", 0) + 1
        if exc is not None:
            stats["err." + exc] = stats.get("err." + exc, 0) + 1
        elif result != names0:
            stats["reordered"] = stats.get("reordered", 0) + 1
            if len(set(names0)) >= 2 and public:
                nontrivial = True
        pflags = set(_flag(d[2], False) for d in op["descs"] if d[0] in ("cannedDesign", "_containerPartners"))
        if pflags:
            stats["partner_pass"] = stats.get("partner_pass", 0) + 1
            for key, group in (("self_close_relative", selfrel), ("two_glyphs_close_each_other", cyclic),
                               ("close_relative_chain", chained)):
                hit = [n for n in names0 if any((n, f) in group for f in pflags)]
                if hit:
                    stats["partner_pass.with." + key] = stats.get("partner_pass.with." + key, 0) + 1
                    if key == "self_close_relative":
                        where = set()
                        for n in set(hit):
                            where.add("repeated" if names0.count(n) > 1 else "last" if names0[-1] == n else "before_others")
                        for w in where:
                            k2 = "partner_pass.self_close_relative." + w
                            stats[k2] = stats.get(k2, 0) + 1
            if any(close.get((n, f)) in names0 and close.get((n, f)) != n for n in names0 for f in pflags):
                stats["partner_pass.with.partner_waiting"] = stats.get("partner_pass.with.partner_waiting", 0) + 1
        partners = [ud.closeRelativeForGlyphName(n, True) for n in set(names0)]
        if any(p is not None and p not in names0 for p in partners):
            stats["with.partner_in_font_not_in_list"] = stats.get("with.partner_in_font_not_in_list", 0) + 1
    if lazy:
        # "gives the same answer on repeated calls": reading glyphs does not change the font, so the same calls made
        # once every glyph has been read must answer what they answered while the glyphs were unread
        if unread is None:
            unread = [n for n in sorted(fkeys) if n not in font.layers.defaultLayer._glyphs]
        stats["font.unread_glyphs_at_the_end"] = len(unread)        # … of the sort calls
        for n in sorted(fkeys):
            font[n]
        for i, op in enumerate(case["ops"]):
            if firsts[i] is None:
                continue
            try:
                again = ud.sortGlyphNames(list(op["names"]), mk_descs(op["descs"]))
            except Exception as e:  # noqa
                again = "raised %s" % type(e).__name__
            if again != firsts[i]:
                viol.append(dict(clause="C20/deterministic", signature="C20/deterministic/after-reading-glyphs",
                                 types=[d[0] for d in op["descs"]], step=i + 1, names=list(op["names"]),
                                 unread_at_first_call=unread, first=firsts[i], again=again))
                break
    return dict(out=outs, viol=viol, info=dict(nontrivial=nontrivial, stats=stats))


# ---------------------------------------------------------------------------------------
# known finding F21a: witness replayed on the real code
# ---------------------------------------------------------------------------------------

WITNESS = dict(font=[["A", [65]], ["x", []]], from_disk=False,
               ops=[dict(names=["A", "x"], descs=[["block", None, None]])])


def replay_known(entry):
    if entry.get("signature") != KNOWN_SIG:
        return False
    r = run_impl(WITNESS)
    return any(v.get("signature") == KNOWN_SIG for v in r["viol"])


# ---------------------------------------------------------------------------------------
# regenerated tables
# ---------------------------------------------------------------------------------------

def _lstr(s):
    out = []
    for ch in s:
        if ch == "\\":
            out.append("\\\\")
        elif ch == '"':
            out.append('\\"')
        elif ch == "\n":
            out.append("\\n")
        elif ord(ch) < 32 or ord(ch) == 127:
            out.append("\\x%02x" % ord(ch))
        else:
            out.append(ch)
    return '"' + "".join(out) + '"'


def _llist(items, per=6, indent="   "):
    rows = []
    for i in range(0, len(items), per):
        rows.append(indent + ", ".join(items[i:i + per]))
    return "[\n" + ",\n".join(rows) + "]" if items else "[]"


def _dispatch_from_ast(path):
    """typeToMethod of sortGlyphNames and the two descriptor lists of _cannedSortDesign, from the source AST.
    Fails closed on a shape it does not recognise."""
    tree = ast.parse(open(path).read())
    cls = [n for n in tree.body if isinstance(n, ast.ClassDef) and n.name == "UnicodeData"]
    if len(cls) != 1:
        raise ValueError("class UnicodeData not found")
    meths = {n.name: n for n in cls[0].body if isinstance(n, ast.FunctionDef)}
    sg = meths["sortGlyphNames"]
    table = None
    for node in ast.walk(sg):
        if isinstance(node, ast.Assign) and len(node.targets) == 1 and isinstance(node.targets[0], ast.Name) \
                and node.targets[0].id == "typeToMethod":
            call = node.value
            if not (isinstance(call, ast.Call) and isinstance(call.func, ast.Name) and call.func.id == "dict"
                    and not call.args):
                raise ValueError("typeToMethod is not a dict(...) call")
            table = []
            for kw in call.keywords:
                val = kw.value
                if not (isinstance(val, ast.Attribute) and isinstance(val.value, ast.Name) and val.value.id == "self"):
                    raise ValueError("typeToMethod[%s] is not self.<method>" % kw.arg)
                table.append((kw.arg, val.attr))
    if table is None:
        raise ValueError("typeToMethod assignment not found")
    for _, m in table:
        if m not in meths:
            raise ValueError("typeToMethod names a missing method %s" % m)
    canned = []
    for node in ast.walk(meths["_cannedSortDesign"]):
        if isinstance(node, ast.Assign) and len(node.targets) == 1 and isinstance(node.targets[0], ast.Name) \
                and node.targets[0].id == "sortDescriptors":
            if not isinstance(node.value, ast.List):
                raise ValueError("canned sortDescriptors is not a list literal")
            ts = []
            for el in node.value.elts:
                if not (isinstance(el, ast.Call) and isinstance(el.func, ast.Name) and el.func.id == "dict"):
                    raise ValueError("canned descriptor is not dict(...)")
                kws = {k.arg: k.value for k in el.keywords}
                if set(kws) != {"type", "allowPseudoUnicode"} or not isinstance(kws["type"], ast.Constant) \
                        or not (isinstance(kws["allowPseudoUnicode"], ast.Name) and kws["allowPseudoUnicode"].id == "allowPseudoUnicode"):
                    raise ValueError("canned descriptor has an unexpected shape")
                ts.append(kws["type"].value)
            canned.append((node.lineno, ts))
    canned.sort()
    if len(canned) != 2:
        raise ValueError("expected two descriptor lists in _cannedSortDesign, found %d" % len(canned))
    return table, canned[0][1], canned[1][1]


def _write_gen(lean_dir, name, text, changed):
    path = os.path.join(lean_dir, "DefconModel", "Gen", name)
    os.makedirs(os.path.dirname(path), exist_ok=True)
    old = open(path).read() if os.path.exists(path) else None
    if old != text:
        with open(path, "w") as f:
            f.write(text)
        changed.append("Gen/" + name)


def _extract_open_close(repo, lean_dir, ut, changed):
    """Gen/OpenClose.lean: the (open, close) pairs as they stand in the TEXT of unicodeTools._openClosePairText (read from
    the source AST and parsed here, apart from the module's own loop) and the two dicts the imported module built from
    it.  Props/C20.lean proves that the model of the loading loop turns the former into the latter."""
    path = os.path.join(repo, "Lib", "defcon", "tools", "unicodeTools.py")
    if os.path.realpath(ut.__file__).replace(".pyc", ".py") != os.path.realpath(path):
        raise ValueError("unicodeTools imported from %s, not from %s" % (ut.__file__, path))
    tree = ast.parse(open(path).read())
    text = None
    for node in tree.body:
        if isinstance(node, ast.Assign) and len(node.targets) == 1 and isinstance(node.targets[0], ast.Name) \
                and node.targets[0].id == "_openClosePairText":
            if not (isinstance(node.value, ast.Constant) and isinstance(node.value.value, str)):
                raise ValueError("_openClosePairText is not a string literal")
            text = node.value.value
    if text is None:
        raise ValueError("_openClosePairText not found")
    values = []
    for line in text.splitlines():
        line = line.split("#")[0].strip()
        if not line:
            continue
        fields = line.split(";")
        if len(fields) != 3:
            raise ValueError("open/close line with %d fields: %r" % (len(fields), line))
        values.append(int(fields[0], 16))
    if len(values) % 2:
        raise ValueError("odd number of open/close lines")
    pairs = [(values[i], values[i + 1]) for i in range(0, len(values), 2)]
    for d in (ut._openToClose, ut._closeToOpen):
        if not all(isinstance(k, int) and isinstance(v, int) and k >= 0 and v >= 0 for k, v in d.items()):
            raise ValueError("open/close dict holds a non-natural")

    def plist(items):
        return _llist(["(%d, %d)" % (a, b) for a, b in items], 8)
    body = ["/-\nREGENERATED by harness/props/c20.py:extract from the working tree of defcon on every check - do not edit.\n"
            "`pairs`: the (open, close) lines of the text `_openClosePairText` of Lib/defcon/tools/unicodeTools.py, in text order\n"
            "(from the source AST); `openToClose` / `closeToOpen`: the dicts of the imported module, in dict order.\n-/",
            "namespace DefconModel.Gen.OpenClose\n",
            "def pairs : List (Nat × Nat) := " + plist(pairs) + "\n",
            "def openToClose : List (Nat × Nat) := " + plist(list(ut._openToClose.items())) + "\n",
            "def closeToOpen : List (Nat × Nat) := " + plist(list(ut._closeToOpen.items())) + "\n",
            "end DefconModel.Gen.OpenClose\n"]
    _write_gen(lean_dir, "OpenClose.lean", "\n".join(body), changed)
    return dict(openClosePairs=len(pairs), openToClose=len(ut._openToClose), closeToOpen=len(ut._closeToOpen))


def _self_refs(fn):
    """names X of every `self.X` in a method body, `unicodeTools.X`, module-level helpers called, and pseudo names for the
    other uses of `self` (`<super>`, `<item:Load|Store|Del>`, `<contains>`).  Fails closed on a use it does not know."""
    parents = {}
    for p in ast.walk(fn):
        for c in ast.iter_child_nodes(p):
            parents[c] = p
    refs = set()
    for n in ast.walk(fn):
        if isinstance(n, ast.Name) and n.id == "self":
            par = parents.get(n)
            if isinstance(par, ast.Attribute) and par.value is n:
                refs.add(par.attr)
            elif isinstance(par, ast.Call) and isinstance(par.func, ast.Name) and par.func.id == "super" and n in par.args:
                refs.add("<super>")
            elif isinstance(par, ast.Subscript) and par.value is n:
                refs.add("<item:%s>" % type(par.ctx).__name__)
            elif isinstance(par, ast.Compare) and all(isinstance(o, (ast.In, ast.NotIn)) for o in par.ops) \
                    and n in par.comparators:
                refs.add("<contains>")
            else:
                raise ValueError("%s uses `self` in a way the call table does not know: %s" % (
                    fn.name, ast.dump(par)[:120] if par is not None else None))
        elif isinstance(n, ast.Attribute) and isinstance(n.value, ast.Name) and n.value.id == "unicodeTools":
            refs.add("unicodeTools." + n.attr)
        elif isinstance(n, ast.Name) and n.id in ("getattr", "setattr", "delattr", "vars", "eval", "exec", "globals", "locals"):
            raise ValueError("%s uses %s(): the call table cannot follow it" % (fn.name, n.id))
        elif isinstance(n, ast.Call) and isinstance(n.func, ast.Name) and n.func.id.startswith("_"):
            refs.add(n.func.id)
    return sorted(refs)


def _extract_calls(src, lean_dir, changed):
    """Gen/SortCalls.lean: for every method of UnicodeData what it refers to on `self` (methods, attributes, dict access),
    in `unicodeTools` and among the module's private helpers; properties are followed to their getter."""
    tree = ast.parse(open(src).read())
    cls = [n for n in tree.body if isinstance(n, ast.ClassDef) and n.name == "UnicodeData"]
    if len(cls) != 1:
        raise ValueError("class UnicodeData not found")
    rows, methods = [], []
    for node in cls[0].body:
        if isinstance(node, ast.FunctionDef):
            rows.append((node.name, _self_refs(node)))
            methods.append(node.name)
        elif isinstance(node, ast.Assign) and isinstance(node.value, ast.Call) and isinstance(node.value.func, ast.Name) \
                and node.value.func.id == "property":
            if len(node.targets) != 1 or not isinstance(node.targets[0], ast.Name):
                raise ValueError("property assignment with an unexpected target")
            fns = [a.id for a in node.value.args if isinstance(a, ast.Name)] + \
                  [k.value.id for k in node.value.keywords if k.arg in ("fget", "fset", "fdel") and isinstance(k.value, ast.Name)]
            if len(fns) != len(node.value.args) + len([k for k in node.value.keywords if k.arg != "doc"]):
                raise ValueError("property(...) with an argument that is not a plain function name")
            rows.append((node.targets[0].id, sorted(fns)))
        elif isinstance(node, (ast.Assign, ast.Expr)):
            continue
        else:
            raise ValueError("unexpected statement in class UnicodeData: %s" % type(node).__name__)
    names = [r[0] for r in rows]
    if len(set(names)) != len(names):
        raise ValueError("a name is defined twice in class UnicodeData")
    body = ["/-\nREGENERATED by harness/props/c20.py:extract from the source AST of Lib/defcon/objects/uniData.py on every check -\n"
            "do not edit.  `refs`: for every method (and property) of class UnicodeData, in source order, what its body refers to:\n"
            "`X` for `self.X` (method, attribute, inherited), `unicodeTools.X`, `_helper` for a module-level helper it calls,\n"
            "`<super>` for super(UnicodeData, self), `<item:Load|Store|Del>` for self[...], `<contains>` for `... in self`;\n"
            "a property refers to its getter.\n-/",
            "namespace DefconModel.Gen.SortCalls\n",
            "def methods : List String := " + _llist([_lstr(m) for m in methods], 4) + "\n",
            "def refs : List (String × List String) := " + _llist(
                ["(%s, [%s])" % (_lstr(a), ", ".join(_lstr(x) for x in b)) for a, b in rows], 1) + "\n",
            "end DefconModel.Gen.SortCalls\n"]
    _write_gen(lean_dir, "SortCalls.lean", "\n".join(body), changed)
    return dict(unicodeDataMethods=len(methods))



def extract(repo, lean_dir):
    import importlib
    ut = importlib.import_module("defcon.tools.unicodeTools")
    udm = importlib.import_module("defcon.objects.uniData")
    src = os.path.join(repo, "Lib", "defcon", "objects", "uniData.py")
    if os.path.realpath(udm.__file__).replace(".pyc", ".py") != os.path.realpath(src):
        raise ValueError("defcon imported from %s, not from %s" % (udm.__file__, src))
    table, canned1, canned2 = _dispatch_from_ast(src)
    for lst in (ut.orderedScripts, ut.orderedBlocks, ut.orderedCategories, udm._notReallyLigatures):
        if not all(isinstance(x, str) for x in lst):
            raise ValueError("ordered table holds a non-string")
    if not all(isinstance(x, int) and x >= 0 for g in udm._manualSortGroups for x in g) or \
            not all(isinstance(x, int) and x >= 0 for x in udm._ligatureUniValues):
        raise ValueError("manual groups / ligature values hold a non-natural")
    # assumption of the partial theorem, enumerated: every script/category any code point can get is ordered
    scripts, cats = set(ut.orderedScripts), set(ut.orderedCategories)
    uncovered = []
    seen_tags = set()
    del UNCOVERED[:]
    for v in range(0x110000):
        sc, ct = ut.script(v), ut.category(v)
        if sc not in scripts or ct not in cats:
            if len(uncovered) <= 5:
                uncovered.append(v)
            if (sc, ct) not in seen_tags and len(UNCOVERED) < 64 and not (0xD800 <= v <= 0xDFFF):
                seen_tags.add((sc, ct))       # one code point per missing tag, for the failing-input search
                UNCOVERED.append(v)
    body = []
    body.append("/-\nREGENERATED by harness/props/c20.py:extract from the working tree of defcon on every check - do not edit.\n"
                "Constants of Lib/defcon/tools/unicodeTools.py and Lib/defcon/objects/uniData.py read from the imported\n"
                "modules; the type->method table of sortGlyphNames and the descriptor lists of _cannedSortDesign from the AST.\n-/")
    body.append("import DefconModel.NameSort\n\nnamespace DefconModel.Gen.SortTables\n")
    body.append("def orderedScripts : List String := " + _llist([_lstr(x) for x in ut.orderedScripts]) + "\n")
    body.append("def orderedBlocks : List String := " + _llist([_lstr(x) for x in ut.orderedBlocks], 4) + "\n")
    body.append("def orderedCategories : List String := " + _llist([_lstr(x) for x in ut.orderedCategories], 10) + "\n")
    body.append("def manualGroups : List (List Nat) := " + _llist(
        ["[" + ", ".join(str(x) for x in g) + "]" for g in udm._manualSortGroups], 1) + "\n")
    body.append("def ligatureUniValues : List Nat := [" + ", ".join(str(x) for x in udm._ligatureUniValues) + "]\n")
    body.append("def notReallyLigatures : List String := [" + ", ".join(_lstr(x) for x in udm._notReallyLigatures) + "]\n")
    body.append("def tables : NameSort.Tables :=\n  { orderedScripts := orderedScripts, orderedBlocks := orderedBlocks,\n"
                "    orderedCategories := orderedCategories, manualGroups := manualGroups,\n"
                "    ligatureUniValues := ligatureUniValues, notReallyLigatures := notReallyLigatures }\n")
    body.append("/-- `typeToMethod` of `sortGlyphNames`, in source order -/\ndef typeToMethod : List (String × String) := " + _llist(
        ["(%s, %s)" % (_lstr(a), _lstr(b)) for a, b in table], 2) + "\n")
    body.append("def cannedFirstTypes : List String := [" + ", ".join(_lstr(x) for x in canned1) + "]\n")
    body.append("def cannedSecondTypes : List String := [" + ", ".join(_lstr(x) for x in canned2) + "]\n")
    body.append("end DefconModel.Gen.SortTables\n")
    text = "\n".join(body)
    changed = []
    _write_gen(lean_dir, "SortTables.lean", text, changed)
    oc_info = _extract_open_close(repo, lean_dir, ut, changed)
    calls_info = _extract_calls(src, lean_dir, changed)
    if "Unknown" not in scripts or "Cn" not in cats:
        raise ValueError("the default script/category of a name without unicode is not in the ordered tables")
    if uncovered:
        raise ValueError("code points whose script/category is not in the ordered tables: %s" % [hex(v) for v in uncovered])
    info = dict(obligations=TABLE_OBLIGATIONS, tables=dict(
        orderedScripts=len(ut.orderedScripts), orderedBlocks=len(ut.orderedBlocks),
        orderedCategories=len(ut.orderedCategories), manualGroups=len(udm._manualSortGroups),
        typeToMethod=len(table), cannedFirst=len(canned1), cannedSecond=len(canned2), **dict(oc_info, **calls_info)),
        code_points_enumerated_for_script_category_coverage=0x110000)
    return changed, info


# proof obligations over the regenerated tables are ordinary theorems of Props/C20.lean (tables_wf,
# dispatch_matches_code, canned_matches_code); they are counted there, not again here
TABLE_OBLIGATIONS = 0
