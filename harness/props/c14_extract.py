"""C14 - AST extractor: regenerates lean/DefconModel/Gen/SerialTables.lean from the defcon sources.

For every object kind of the property it resolves which class provides
getDataForSerialization / setDataFromSerialization (walking base classes through the parsed
modules) and reads, from the function bodies, the serialized keys:

  getter side   `getters = ( (key, fn), ... )` / `[...]` literal keys, in order;
                conditional `getters.append((key, fn))` in an if/else (exactly one of them is emitted);
                `getters = []` + `for k in <source>: [if <cond>: continue] getters.append((k, fn))` (dynamic keys);
                must end in `return self._serialize(getters, **kwargs)`  (BaseObject: `return {}`)
  setter side   `setters = ( (key, fn), ... )` literal keys in order, fn classified as plain setattr or custom,
                followed by the guarded loop `for key, setter in setters: if key not in data: continue; setter(key, data[key])`;
                `[(name, fn) for name in self._properties]` (dynamic);
                or direct code: keys are the string constants K used as `K in data` / `K not in data` / `data[K]`,
                bulk forms `self.update(data)` and `for k in data: self[k] = data[k]` / `self.<m>(k, data[k], ...)`.

Anything else that touches `getters`/`setters`/`data` in a way not listed raises ExtractError (fail closed).
"""
import ast
import os

KINDS = [  # kind, module, class  (the property's enumeration)
    ("font", "font", "Font"), ("layerSet", "layerSet", "LayerSet"), ("layer", "layer", "Layer"),
    ("glyph", "glyph", "Glyph"), ("contour", "contour", "Contour"), ("component", "component", "Component"),
    ("anchor", "anchor", "Anchor"), ("guideline", "guideline", "Guideline"), ("image", "image", "Image"),
    ("lib", "lib", "Lib"), ("kerning", "kerning", "Kerning"), ("groups", "groups", "Groups"),
    ("info", "info", "Info"), ("features", "features", "Features"), ("imageSet", "imageSet", "ImageSet"),
    ("dataSet", "dataSet", "DataSet"),
]
MODULES = ["base", "font", "layerSet", "layer", "glyph", "contour", "component", "anchor", "guideline", "image",
           "lib", "kerning", "groups", "info", "features", "imageSet", "dataSet"]


class ExtractError(Exception):
    pass


def _parse_all(repo):
    classes = {}
    for m in MODULES:
        path = os.path.join(repo, "Lib", "defcon", "objects", m + ".py")
        tree = ast.parse(open(path).read(), path)
        for node in tree.body:
            if isinstance(node, ast.ClassDef):
                bases = []
                for b in node.bases:
                    if isinstance(b, ast.Name):
                        bases.append(b.id)
                    elif isinstance(b, ast.Attribute):
                        bases.append(b.attr)
                    else:
                        raise ExtractError("%s: base class expression of %s not recognised" % (m, node.name))
                methods = {n.name: n for n in node.body if isinstance(n, ast.FunctionDef)}
                classes[node.name] = dict(module=m, bases=bases, methods=methods, node=node)
    return classes


def _provider(classes, cls, meth):
    seen = []
    todo = [cls]
    while todo:
        c = todo.pop(0)
        if c in ("object", "dict"):
            continue
        if c not in classes:
            raise ExtractError("class %s (base of %s) not found in the parsed modules" % (c, cls))
        seen.append(c)
        if meth in classes[c]["methods"]:
            return c
        # python MRO for the shapes used here (single chains and `BaseDictObject(dict, BaseObject)`): left to right, depth first
        todo = list(classes[c]["bases"]) + todo
    raise ExtractError("no %s for %s (looked in %s)" % (meth, cls, seen))


def _pairs(value, fn, what):
    """elements of a tuple/list literal of (str, expr) pairs"""
    if not isinstance(value, (ast.Tuple, ast.List)):
        return None
    out = []
    for e in value.elts:
        if not (isinstance(e, ast.Tuple) and len(e.elts) == 2 and isinstance(e.elts[0], ast.Constant)
                and isinstance(e.elts[0].value, str)):
            raise ExtractError("%s: element of `%s` is not a (str, function) pair: %s" % (fn, what, ast.unparse(e)))
        out.append((e.elts[0].value, e.elts[1]))
    return out


def _is_append(stmt, target):
    """`<target>.append((k, f))` -> (k_node, f_node)"""
    if (isinstance(stmt, ast.Expr) and isinstance(stmt.value, ast.Call) and isinstance(stmt.value.func, ast.Attribute)
            and stmt.value.func.attr == "append" and isinstance(stmt.value.func.value, ast.Name)
            and stmt.value.func.value.id == target and len(stmt.value.args) == 1
            and isinstance(stmt.value.args[0], ast.Tuple) and len(stmt.value.args[0].elts) == 2):
        return stmt.value.args[0].elts
    return None


def _mentions(node, name):
    return any(isinstance(n, ast.Name) and n.id == name for n in ast.walk(node))


def _dyn_source(it, where):
    src = ast.unparse(it)
    table = {"self.keys()": "keys", "self.fileNames": "fileNames", "self._properties": "properties"}
    if src not in table:
        raise ExtractError("%s: dynamic key source `%s` not recognised" % (where, src))
    return table[src]


def analyse_getter(fn, where):
    res = dict(keys=[], alt=[], dyn="", cond="")
    body = list(fn.body)
    if body and isinstance(body[0], ast.Expr) and isinstance(body[0].value, ast.Constant) and isinstance(body[0].value.value, str):
        body = body[1:]
    if len(body) == 1 and isinstance(body[0], ast.Return) and isinstance(body[0].value, ast.Dict) and not body[0].value.keys:
        return res   # BaseObject: return {}
    assigned = False
    returned = False
    for st in body:
        if returned:
            raise ExtractError("%s: statements after the return" % where)
        if isinstance(st, (ast.Import, ast.ImportFrom, ast.FunctionDef)):
            if isinstance(st, ast.FunctionDef) and _mentions(st, "getters"):
                raise ExtractError("%s: nested function touches `getters`" % where)
            continue
        if isinstance(st, ast.Assign) and len(st.targets) == 1 and isinstance(st.targets[0], ast.Name):
            if st.targets[0].id != "getters":
                if _mentions(st.value, "getters"):
                    raise ExtractError("%s: `getters` used in an unrecognised assignment" % where)
                continue
            if assigned:
                raise ExtractError("%s: `getters` assigned twice" % where)
            assigned = True
            pairs = _pairs(st.value, where, "getters")
            if pairs is None:
                raise ExtractError("%s: `getters = %s` is not a tuple/list literal" % (where, ast.unparse(st.value)))
            res["keys"] = [k for k, _ in pairs]
            continue
        if isinstance(st, ast.For) and assigned:
            # for k in <source>: [if cond: continue] getters.append((k, f))
            if not isinstance(st.target, ast.Name) or st.orelse:
                raise ExtractError("%s: for loop shape not recognised" % where)
            var = st.target.id
            inner = list(st.body)
            cond = ""
            if len(inner) == 2 and isinstance(inner[0], ast.If) and len(inner[0].body) == 1 \
                    and isinstance(inner[0].body[0], ast.Continue) and not inner[0].orelse:
                cond = ast.unparse(inner[0].test)
                inner = inner[1:]
            ap = _is_append(inner[0], "getters") if len(inner) == 1 else None
            if ap is None or not (isinstance(ap[0], ast.Name) and ap[0].id == var):
                raise ExtractError("%s: loop body is not `getters.append((%s, fn))`" % (where, var))
            if res["dyn"]:
                raise ExtractError("%s: two dynamic key loops" % where)
            res["dyn"] = _dyn_source(st.iter, where)
            res["cond"] = cond
            if cond and cond != "getattr(self, '_' + %s) is None" % var:
                raise ExtractError("%s: skip condition `%s` not recognised" % (where, cond))
            continue
        if isinstance(st, ast.If) and assigned:
            # if <test>: getters.append((K1, f)) else: getters.append((K2, f))
            if len(st.body) != 1 or len(st.orelse) != 1:
                raise ExtractError("%s: conditional getters shape not recognised" % where)
            a, b = _is_append(st.body[0], "getters"), _is_append(st.orelse[0], "getters")
            if a is None or b is None or not all(isinstance(x[0], ast.Constant) and isinstance(x[0].value, str) for x in (a, b)):
                raise ExtractError("%s: conditional getters shape not recognised" % where)
            if res["alt"]:
                raise ExtractError("%s: two conditional getter blocks" % where)
            if ast.unparse(st.test) != "self._shallowLoadedContours is not None":
                raise ExtractError("%s: condition `%s` of the conditional getters not recognised" % (where, ast.unparse(st.test)))
            res["alt"] = [a[0].value, b[0].value]
            continue
        if isinstance(st, ast.Return):
            v = st.value
            ok = (isinstance(v, ast.Call) and ast.unparse(v.func) == "self._serialize" and len(v.args) == 1
                  and isinstance(v.args[0], ast.Name) and v.args[0].id == "getters"
                  and len(v.keywords) == 1 and v.keywords[0].arg is None and ast.unparse(v.keywords[0].value) == "kwargs")
            if not ok or not assigned:
                raise ExtractError("%s: return is not `self._serialize(getters, **kwargs)`" % where)
            returned = True
            continue
        raise ExtractError("%s: statement not recognised: %s" % (where, ast.unparse(st)[:80]))
    if not returned:
        raise ExtractError("%s: no `return self._serialize(getters, **kwargs)`" % where)
    return res


def _plain_setattr_names(fn):
    """local names bound to partial(setattr, self)"""
    names = set()
    for st in fn.body:
        if isinstance(st, ast.Assign) and len(st.targets) == 1 and isinstance(st.targets[0], ast.Name):
            if ast.unparse(st.value) == "partial(setattr, self)":
                names.add(st.targets[0].id)
    return names


def _is_guarded_loop(st):
    """for key, setter in setters: if key not in data: continue; setter(key, data[key])"""
    if not (isinstance(st, ast.For) and isinstance(st.target, ast.Tuple) and len(st.target.elts) == 2
            and all(isinstance(e, ast.Name) for e in st.target.elts)
            and isinstance(st.iter, ast.Name) and st.iter.id == "setters" and not st.orelse and len(st.body) == 2):
        return False
    k, f = st.target.elts[0].id, st.target.elts[1].id
    return (ast.unparse(st.body[0]) == "if %s not in data:\n    continue" % k
            and ast.unparse(st.body[1]) == "%s(%s, data[%s])" % (f, k, k))


def analyse_setter(fn, where):
    res = dict(keys=[], dyn="")
    body = list(fn.body)
    if body and isinstance(body[0], ast.Expr) and isinstance(body[0].value, ast.Constant) and isinstance(body[0].value.value, str):
        body = body[1:]
    if len(body) == 1 and isinstance(body[0], ast.Pass):
        return res
    if [a.arg for a in fn.args.args] != ["self", "data"]:
        raise ExtractError("%s: signature is not (self, data)" % where)
    plain = _plain_setattr_names(fn)
    table = [st for st in body if isinstance(st, ast.Assign) and len(st.targets) == 1
             and isinstance(st.targets[0], ast.Name) and st.targets[0].id == "setters"]
    if table:
        if len(table) != 1:
            raise ExtractError("%s: `setters` assigned twice" % where)
        st = table[0]
        loops = [s for s in body if _is_guarded_loop(s)]
        if len(loops) != 1 or body.index(loops[0]) < body.index(st):
            raise ExtractError("%s: the guarded `for key, setter in setters` loop was not found after the table" % where)
        for s in body:
            if s is st or s is loops[0]:
                continue
            if isinstance(s, ast.FunctionDef):
                # helper closures may use their own `data` parameter, never the table
                if _mentions(s, "setters"):
                    raise ExtractError("%s: nested function touches `setters`" % where)
                continue
            if _mentions(s, "setters") or (_mentions(s, "data") and not isinstance(s, (ast.Import, ast.ImportFrom))):
                raise ExtractError("%s: statement outside the table touches data/setters: %s" % (where, ast.unparse(s)[:80]))
        pairs = _pairs(st.value, where, "setters")
        if pairs is not None:
            res["keys"] = [(k, isinstance(f, ast.Name) and f.id in plain) for k, f in pairs]
            return res
        v = st.value
        if (isinstance(v, ast.ListComp) and len(v.generators) == 1 and isinstance(v.elt, ast.Tuple) and len(v.elt.elts) == 2
                and isinstance(v.generators[0].target, ast.Name) and isinstance(v.elt.elts[0], ast.Name)
                and v.elt.elts[0].id == v.generators[0].target.id and not v.generators[0].ifs
                and isinstance(v.elt.elts[1], ast.Name) and v.elt.elts[1].id in plain):
            res["dyn"] = _dyn_source(v.generators[0].iter, where)
            return res
        raise ExtractError("%s: `setters = %s` not recognised" % (where, ast.unparse(v)[:80]))
    # direct code
    keys = []

    def note(k):
        if k not in [x for x, _ in keys]:
            keys.append((k, False))
    for node in ast.walk(fn):
        if isinstance(node, ast.Compare) and len(node.ops) == 1 and isinstance(node.ops[0], (ast.In, ast.NotIn)) \
                and isinstance(node.comparators[0], ast.Name) and node.comparators[0].id == "data":
            if isinstance(node.left, ast.Constant) and isinstance(node.left.value, str):
                note(node.left.value)
            else:
                raise ExtractError("%s: membership test on data with a non-literal key" % where)
        if isinstance(node, ast.Subscript) and isinstance(node.value, ast.Name) and node.value.id == "data":
            if isinstance(node.slice, ast.Constant) and isinstance(node.slice.value, str):
                note(node.slice.value)
            elif isinstance(node.slice, ast.Name):
                pass   # data[k] inside a bulk loop, checked below
            else:
                raise ExtractError("%s: subscript of data not recognised" % where)
    dyn = ""
    for st in body:
        src = ast.unparse(st)
        if src == "self.update(data)":
            dyn = "update"
        if isinstance(st, ast.For) and isinstance(st.iter, ast.Name) and st.iter.id == "data" and isinstance(st.target, ast.Name) \
                and len(st.body) == 1 and not st.orelse:
            k = st.target.id
            b = st.body[0]
            s = ast.unparse(b)
            ok = s == "self[%s] = data[%s]" % (k, k)
            if (isinstance(b, ast.Expr) and isinstance(b.value, ast.Call) and isinstance(b.value.func, ast.Attribute)
                    and ast.unparse(b.value.func.value) == "self" and len(b.value.args) >= 2
                    and ast.unparse(b.value.args[0]) == k and ast.unparse(b.value.args[1]) == "data[%s]" % k):
                ok = True
            if not ok:
                raise ExtractError("%s: bulk loop body not recognised: %s" % (where, s[:80]))
            dyn = "items"
    if not keys and not dyn:
        raise ExtractError("%s: neither a setters table, nor literal keys, nor a bulk form found" % where)
    res["keys"] = keys
    res["dyn"] = dyn
    return res


def info_properties(classes):
    node = classes["Info"]["node"]
    for st in node.body:
        if isinstance(st, ast.Assign) and len(st.targets) == 1 and isinstance(st.targets[0], ast.Name) \
                and st.targets[0].id == "_properties":
            if not isinstance(st.value, ast.Dict):
                raise ExtractError("Info._properties is not a dict literal")
            out = []
            for k, v in zip(st.value.keys, st.value.values):
                if not (isinstance(k, ast.Constant) and isinstance(k.value, str) and isinstance(v, ast.Tuple) and len(v.elts) == 2):
                    raise ExtractError("Info._properties entry not recognised")
                out.append((k.value, ast.unparse(v.elts[1])))
            return out
    raise ExtractError("Info._properties not found")


def lean_str(s):
    return '"' + s.replace("\\", "\\\\").replace('"', '\\"') + '"'


def lean_list(xs):
    return "[" + ", ".join(xs) + "]"


def extract_tables(repo):
    classes = _parse_all(repo)
    rows = []
    for kind, _, cls in KINDS:
        gp = _provider(classes, cls, "getDataForSerialization")
        sp = _provider(classes, cls, "setDataFromSerialization")
        g = analyse_getter(classes[gp]["methods"]["getDataForSerialization"], "%s.getDataForSerialization" % gp)
        s = analyse_setter(classes[sp]["methods"]["setDataFromSerialization"], "%s.setDataFromSerialization" % sp)
        rows.append(dict(kind=kind, cls=cls, getProvider=gp, setProvider=sp, get=g, set=s))
    base_s = classes["BaseObject"]["methods"]
    for m in ("serialize", "deserialize", "_serialize"):
        if m not in base_s:
            raise ExtractError("BaseObject.%s missing" % m)
    # the fixed text of BaseObject._serialize (the loop every getter table goes through)
    ser = ast.unparse(ast.Module(body=[x for x in base_s["_serialize"].body
                                       if not (isinstance(x, ast.Expr) and isinstance(x.value, ast.Constant))], type_ignores=[]))
    expect = ("data = {}\nfor key, getter in getters:\n    if whitelist is not None and key not in whitelist:\n        continue\n"
              "    if blacklist is not None and key in blacklist:\n        continue\n    data[key] = getter(key)\nreturn data")
    if ser != expect:
        raise ExtractError("BaseObject._serialize body changed:\n" + ser)
    props = info_properties(classes)
    from fontTools.ufoLib import fontInfoAttributesVersion3
    spec = sorted(fontInfoAttributesVersion3)
    return rows, props, spec


def render(rows, props, spec):
    L = []
    L.append("/-")
    L.append("REGENERATED on every run by harness/props/c14_extract.py from Lib/defcon/objects/*.py - do not edit.")
    L.append("Serialization key tables of every object kind (getter side / setter side), the provider class of each,")
    L.append("Info._properties (name, default) and fontTools' list of UFO 3 fontinfo attributes.")
    L.append("-/")
    L.append("namespace DefconModel.Gen.SerialTables")
    L.append("")
    L.append("structure Row where")
    L.append("  kind : String")
    L.append("  getProvider : String")
    L.append("  setProvider : String")
    L.append("  getKeys : List String")
    L.append("  getAlt : List String")
    L.append("  getDyn : String")
    L.append("  setKeys : List (String × Bool)")
    L.append("  setDyn : String")
    L.append("deriving DecidableEq, Repr")
    L.append("")
    for r in rows:
        k = r["kind"]
        L.append("def %sGetters : List String := %s" % (k, lean_list(lean_str(x) for x in r["get"]["keys"])))
        L.append("def %sGetAlt : List String := %s" % (k, lean_list(lean_str(x) for x in r["get"]["alt"])))
        L.append("def %sSetters : List String := %s" % (k, lean_list(lean_str(x) for x, _ in r["set"]["keys"])))
    L.append("")
    L.append("def rows : List Row := [")
    items = []
    for r in rows:
        items.append("  { kind := %s, getProvider := %s, setProvider := %s,\n    getKeys := %sGetters, getAlt := %sGetAlt, getDyn := %s,\n"
                     "    setKeys := %s, setDyn := %s }" % (
                         lean_str(r["kind"]), lean_str(r["getProvider"]), lean_str(r["setProvider"]), r["kind"], r["kind"],
                         lean_str(r["get"]["dyn"]),
                         lean_list("(%s, %s)" % (lean_str(x), "true" if p else "false") for x, p in r["set"]["keys"]),
                         lean_str(r["set"]["dyn"])))
    L.append(",\n".join(items))
    L.append("]")
    L.append("")
    L.append("def infoProperties : List (String × String) := [")
    L.append(",\n".join("  (%s, %s)" % (lean_str(n), lean_str(d)) for n, d in props))
    L.append("]")
    L.append("")
    L.append("def ufo3InfoAttributes : List String := [")
    L.append(",\n".join("  " + lean_str(n) for n in spec))
    L.append("]")
    L.append("")
    L.append("end DefconModel.Gen.SerialTables")
    return "\n".join(L) + "\n"


def extract(repo, lean_dir):
    rows, props, spec = extract_tables(repo)
    text = render(rows, props, spec)
    path = os.path.join(lean_dir, "DefconModel", "Gen", "SerialTables.lean")
    os.makedirs(os.path.dirname(path), exist_ok=True)
    old = open(path).read() if os.path.exists(path) else None
    changed = []
    if old != text:
        with open(path, "w") as f:
            f.write(text)
        changed.append("Gen/SerialTables.lean")
    info = dict(file="lean/DefconModel/Gen/SerialTables.lean", kinds=len(rows),
                getter_keys=sum(len(r["get"]["keys"]) + len(r["get"]["alt"]) for r in rows),
                setter_keys=sum(len(r["set"]["keys"]) for r in rows), info_properties=len(props),
                obligations=0, changed=bool(changed))
    return changed, info


if __name__ == "__main__":
    import sys
    rows, props, spec = extract_tables(sys.argv[1])
    sys.stdout.write(render(rows, props, spec))
