"""C11 - parent links are right and removed objects are fully detached.

Correspondence with M-Cross (lean/DefconModel/Cross.lean = M-Parents, lean/DefconModel/Parents.lean, composed with
the cross links of the notification wiring; the model's dump shows the STORED wiring `Cross.OState`, changed at the
events at which component.py changes its registrations) + direct oracle.

The implementation adaptor drives the REAL defcon objects (Font, LayerSet, Layer, Glyph, Contour,
Component, Anchor, Guideline, Image, Lib) in process.  A case is a history of operations on a small
world: one or two fonts (new, or opened from a UFO written for the case so that glyphs load lazily),
their layers and glyphs, stand-alone `Glyph()` objects, and every object that was ever created - also
the removed ones, which the adaptor keeps alive (BaseObject.__del__ unregisters observers and would
mask a ghost link).  Objects are named by small integers allocated in creation order; the Lean model
allocates the same numbers.

`dump` reads, for EVERY object ever seen (live and removed), all parent accessors
(glyph / layer / layerSet / font / getParent() / dispatcher), the child lists, the dirty flags of the
containers and - read-only - EVERY registration in every font's notification centre (observer, notification,
observable): parent<-child and self registrations, the cross links (component -> layer / base glyph, image ->
image set / layer) and the font's fixed sub-objects.  `mutate` changes an attribute of an object through its public API while a recorder that
observes every notification of every font listens.

The direct ORACLE does not know the model: it takes snapshots of the implementation's own child lists
before and after every operation and evaluates the property's sentences on them (see `Oracle`).
"""
import os
import shutil
import tempfile
import weakref

from sexp import Atom, opt

MODEL = "cross"
SHRINKABLE = True
RULE = ("histories over one or two fonts (new, or opened from a UFO 3 written for the case so that glyphs load lazily), "
        "their layers and glyphs, stand-alone Glyph() objects and every object ever created (removed ones are kept "
        "alive): insert/remove/clear/list-assignment of contours, components, anchors, guidelines (glyph and font), "
        "newGlyph (also over a loaded / an unloaded name), lazy loading, delete, rename (also onto an existing name), "
        "Layer.insertGlyph (copy), newLayer/delete/rename layer, lazily built libs and images, attribute changes of any "
        "live or removed object, clearing dirty flags, full accessor dumps; half of the cases start with a scripted "
        "scenario (ghost after remove, replaced glyph, rename onto a name, layer deletion, owned twice, operations on a "
        "deleted glyph, lazy loading, list assignment, rename away and back, two fonts), with and without a read of the "
        "accessors before the critical step; two cases in five run on fonts built in memory with components that name "
        "base glyphs (Component() with a base glyph name, component.baseGlyph =, decomposeComponent, changes of a base "
        "glyph and of its contours; scripted: base glyph replaced / deleted / renamed away and back / another glyph "
        "renamed onto its name, a layer with base glyph, referencing glyph and image deleted in both creation orders, "
        "every way a component leaves its glyph followed by a change of its former base glyph); every dump compares "
        "the COMPLETE registry of every font's notification centre; non-trivial = something was removed/replaced AND a "
        "mutate AND an insertion; distinct = distinct op lists")
ASSUMPTIONS = [
    "no operation addresses a layer by name (newGlyph, getGlyph, delete, insertGlyph) after the layer was deleted from "
    "its font, and the default layer is never deleted: a layer without a font does not keep its own bookkeeping "
    "(renaming one of its glyphs leaves the old key) - both sides answer `Detached`",
    "layers are not renamed onto an existing layer name (LayerSet._layerNameChange would duplicate the name in the "
    "layer order: outside every property's domain)",
    "component graph acyclic (a component may only name a base glyph of lower rank than its glyph's name: A < B < "
    "everything else); components with a base glyph other than `missing` only in the cross-link cases, which run on "
    "fonts built in memory (attaching a component whose base glyph is only on disk loads that glyph)",
    "components are appended (insertComponent at the end): Layer.insertGlyph copies them in list order, which the model "
    "knows as insertion order",
    "decomposeComponent only for a component the glyph lists, of a glyph that has a layer (both sides answer "
    "ValueError / `Detached` otherwise)",
    "the font lib, the font info and the contours of a loaded glyph are built eagerly by the adaptor (font.lib / "
    "font.info / len(glyph) right after creation/loading): defcon builds them on first access, their number and the "
    "info's registrations would otherwise depend on it",
    "python asserts enabled (no -O): they are defcon's rejection mechanism",
    "a list assignment (glyph.anchors = ...) is only issued with objects it will accept: a rejected one leaves the "
    "glyph's notifications held (hold/release bracket without try/finally), which is C02/C08's subject",
    "cache fill timing is not observable: the model fills caches at `dump`; the code also inside operations",
]
TRUSTED = [
    "objects are named by creation order; the adaptor's discovery order of objects built by one operation (loading, "
    "Layer.insertGlyph) is mirrored by the model's allocation order",
    "registrations are read off NotificationCenter._registry (read-only): EVERY (observer, notification, observable) of "
    "every font's centre except the adaptor's own recorder; objects are canonicalised to their number, the font's image "
    "set / data set / info to `(imageSet f)` / `(dataSet f)` / `(info f)`, anything else to `(unknown Class)` (which the "
    "model never produces)",
    "the adaptor keeps every object alive for the whole case (BaseObject.__del__ unregisters observers)",
]

KINDS = ["font", "layerSet", "layer", "glyph", "contour", "component", "anchor", "guideline", "image", "lib"]
CHILD_KINDS = ["contour", "component", "anchor", "guideline"]
LEAF_KINDS = CHILD_KINDS + ["image", "lib"]
CONTAINER_KINDS = ["font", "layerSet", "layer", "glyph"]
GLYPH_NAMES = ["A", "B", "C", "D"]
BASES = ["A", "B"]          # the only glyph names components reference (cross-link cases)


def rank(name):
    """the component graph stays acyclic: a component may only name a base glyph of lower rank than its host's name"""
    return {"A": 0, "B": 1}.get(name, 2)


def brank(base):
    return -1 if base in (None, "missing") else rank(base)
LAYER_NAMES = ["back", "sketch", "L3"]
NOSUCH = [Atom("err"), Atom("NoSuchObject")]
DETACHED = [Atom("err"), Atom("Detached")]

# parent <- child registrations made by the begin...Observation methods: (observer kind, observable kind) -> names
REG_TABLE = {
    ("glyph", "contour"): ["Contour.Changed"],
    ("glyph", "component"): ["Component.Changed", "Component.BaseGlyphDataChanged"],
    ("glyph", "anchor"): ["Anchor.Changed"],
    ("glyph", "guideline"): ["Guideline.Changed"],
    ("glyph", "lib"): ["Lib.Changed"],
    ("glyph", "image"): ["Image.Changed", "Image.ImageDataChanged"],
    ("layer", "glyph"): ["Glyph.Changed", "Glyph.NameChanged", "Glyph.UnicodesChanged"],
    ("layer", "lib"): ["Lib.Changed"],
    ("layerSet", "layer"): ["Layer.Changed", "Layer.NameChanged"],
    ("font", "layer"): ["Layer.GlyphAdded", "Layer.GlyphDeleted", "Layer.GlyphNameChanged"],
    ("font", "layerSet"): ["LayerSet.Changed", "LayerSet.LayerAdded", "LayerSet.LayerWillBeDeleted"],
    ("font", "guideline"): ["Guideline.Changed"],
    ("font", "lib"): ["Lib.Changed"],
}
CHANGED = {"font": "Font.Changed", "layerSet": "LayerSet.Changed", "layer": "Layer.Changed", "glyph": "Glyph.Changed",
           "contour": "Contour.Changed", "component": "Component.Changed", "anchor": "Anchor.Changed",
           "guideline": "Guideline.Changed", "image": "Image.Changed", "lib": "Lib.Changed"}


def nname(s):
    """notification name -> atom used on the wire"""
    return Atom("all") if s is None else Atom(s.replace(".", "_"))


# ---------------------------------------------------------------------------------------
# structural shadow used by the GENERATOR only (to produce mostly valid references and to know
# which numbers the next objects get); neither the adaptor nor the oracle look at it
# ---------------------------------------------------------------------------------------

class Shadow(object):
    def __init__(self, disk=None):
        self.next = 0
        self.kind = {}
        self.name = {}
        self.owner = {}      # the container an object points to (None = detached)
        self.kids = {}       # container -> list of listed objects (dead glyphs keep their orphans)
        self.unloaded = {}   # layer -> names that are only on disk
        self.dead = set()    # layers / glyphs removed from their container
        self.base = {}
        self.disk = disk

    def alloc(self, kind, name=""):
        i = self.next
        self.next += 1
        self.kind[i] = kind
        self.name[i] = name
        self.owner[i] = None
        self.kids[i] = []
        return i

    def of_kind(self, kind):
        return [i for i in sorted(self.kind) if self.kind[i] == kind]

    def fonts(self):
        return self.of_kind("font")

    def live_layers(self):
        return [i for i in self.of_kind("layer") if i not in self.dead]

    def layer_of_font(self, f):
        ls = self.kids[f][0]
        return [k for k in self.kids[ls] if self.kind[k] == "layer"]

    def find_glyph(self, layer, name):
        for k in self.kids[layer]:
            if self.kind[k] == "glyph" and self.name[k] == name:
                return k
        return None

    def kid(self, p, kind):
        for k in self.kids[p]:
            if self.kind[k] == kind:
                return k
        return None

    def attach(self, p, x):
        self.kids[p].append(x)
        self.owner[x] = p

    def detach_glyph(self, g):
        """what Glyph.endSelfNotificationObservation does: every listed child lets go of the glyph"""
        for k in self.kids[g]:
            if self.owner[k] == g:
                self.owner[k] = None
        self.owner[g] = None
        self.dead.add(g)

    def new_glyph_children(self, g, spec, bases=None):
        nc, ncomp, na, ng, img, lib = spec
        for kind, n in (("contour", nc), ("component", ncomp), ("anchor", na), ("guideline", ng),
                        ("image", img), ("lib", lib)):
            for j in range(n):
                x = self.alloc(kind)
                self.attach(g, x)
                if kind == "component":
                    self.base[x] = bases[j] if bases is not None else "missing"

    def has_based_component(self, g):
        return any(self.kind[x] == "component" and self.base.get(x) is not None for x in self.kids[g])

    def apply(self, op):
        """returns False when the op is (predictably) rejected"""
        k = op[0]
        if k == "newFont":
            f = self.alloc("font")
            ls = self.alloc("layerSet")
            self.attach(f, ls)
            la = self.alloc("layer", "public.default")
            self.attach(ls, la)
            self.unloaded[la] = []
            self.attach(f, self.alloc("lib"))
            return True
        if k == "openFont":
            f = self.alloc("font")
            ls = self.alloc("layerSet")
            self.attach(f, ls)
            for lspec in self.disk["layers"]:
                la = self.alloc("layer", lspec["name"])
                self.attach(ls, la)
                self.unloaded[la] = sorted(lspec["glyphs"])
            self.attach(f, self.alloc("lib"))
            return True
        if k == "newLayer":
            f, name = op[1], op[2]
            ls = self.kids[f][0]
            if any(self.name[x] == name for x in self.kids[ls]):
                return False
            la = self.alloc("layer", name)
            self.attach(ls, la)
            self.unloaded[la] = []
            return True
        if k == "delLayer":
            f, name = op[1], op[2]
            ls = self.kids[f][0]
            for la in self.kids[ls]:
                if self.name[la] == name:
                    for g in list(self.kids[la]):
                        if self.kind[g] == "glyph":
                            self.detach_glyph(g)
                        elif self.owner[g] == la:
                            self.owner[g] = None
                    self.kids[ls].remove(la)
                    self.owner[la] = None
                    self.dead.add(la)
                    return True
            return False
        if k == "renameLayer":
            self.name[op[1]] = op[2]
            return True
        if k == "newGlyph":
            la, name = op[1], op[2]
            old = self.find_glyph(la, name)
            if old is not None:
                self.detach_glyph(old)
                self.kids[la].remove(old)
            if name in self.unloaded[la]:
                self.unloaded[la].remove(name)
            g = self.alloc("glyph", name)
            self.attach(la, g)
            return True
        if k == "getGlyph":
            la, name, spec = op[1], op[2], op[3]
            if self.find_glyph(la, name) is not None:
                return True
            if name in self.unloaded[la]:
                self.unloaded[la].remove(name)
                g = self.alloc("glyph", name)
                self.attach(la, g)
                self.new_glyph_children(g, spec)
                return True
            return False
        if k == "delGlyph":
            la, name = op[1], op[2]
            g = self.find_glyph(la, name)
            if g is not None:
                self.detach_glyph(g)
                self.kids[la].remove(g)
                return True
            if name in self.unloaded[la]:
                self.unloaded[la].remove(name)
                return True
            return False
        if k == "renameGlyph":
            g, name = op[1], op[2]
            if self.name[g] == name:
                return True
            la = self.owner[g]
            if la is not None:
                old = self.find_glyph(la, name)
                if old is not None and old != g:
                    self.detach_glyph(old)
                    self.kids[la].remove(old)
                if name in self.unloaded[la]:
                    self.unloaded[la].remove(name)
            self.name[g] = name
            return True
        if k == "insertGlyph":
            la, src, name = op[1], op[2], op[3]
            if name is None:
                name = self.name[src]
            old = self.find_glyph(la, name)
            if old is not None:
                self.detach_glyph(old)
                self.kids[la].remove(old)
            if name in self.unloaded[la]:
                self.unloaded[la].remove(name)
            g = self.alloc("glyph", name)
            self.attach(la, g)
            counts = [len([x for x in self.kids[src] if self.kind[x] == kd]) for kd in CHILD_KINDS]
            self.new_glyph_children(g, counts + [1, 1], [self.base.get(x) for x in self.kids[src] if self.kind[x] == "component"])
            for kd in ("image", "lib"):
                if self.kid(src, kd) is None:
                    x = self.alloc(kd)
                    self.kids[src].append(x)
                    self.owner[x] = src
            return True
        if k == "new":
            x = self.alloc(op[1])
            if op[1] == "component":
                self.base[x] = op[2]
            return True
        if k == "newGlyphObj":
            self.alloc("glyph", "")
            return True
        if k == "insert":
            p, x = op[1], op[2]
            if x in self.kids[p] or self.owner[x] is not None:
                return False
            if self.kind[p] == "font" and self.kind[x] != "guideline":
                return False
            self.attach(p, x)
            return True
        if k == "remove":
            p, x = op[1], op[2]
            if x not in self.kids[p]:
                return False
            self.kids[p].remove(x)
            if self.owner[x] == p:
                self.owner[x] = None
            return True
        if k == "clear":
            p, role = op[1], op[2]
            for x in list(self.kids[p]):
                if self.kind[x] == role:
                    self.kids[p].remove(x)
                    if self.owner[x] == p:
                        self.owner[x] = None
            return True
        if k == "clearAll":
            p = op[1]
            for x in list(self.kids[p]):
                if self.kind[x] in CHILD_KINDS:
                    self.kids[p].remove(x)
                    if self.owner[x] == p:
                        self.owner[x] = None
            return True
        if k == "setList":
            p, role, xs = op[1], op[2], op[3]
            self.apply(["clear", p, role])
            for x in xs:
                if not self.apply(["insert", p, x, 0]):
                    return False
            return True
        if k == "touch":
            p, what = op[1], op[2]
            if self.kid(p, what) is None:
                x = self.alloc(what)
                self.kids[p].append(x)
                self.owner[x] = p
            return True
        if k == "setBase":
            self.base[op[1]] = op[2]
            return True
        if k == "decompose":
            g, c = op[1], op[2]
            if c not in self.kids[g] or self.owner[g] is None:
                return False
            for _ in range(self.flat(self.owner[g], self.base.get(c))):
                self.attach(g, self.alloc("contour"))
            self.kids[g].remove(c)
            if self.owner[c] == g:
                self.owner[c] = None
            return True
        return True

    def flat(self, layer, base, fuel=6):
        """contours a decomposition of a component with this base glyph name draws"""
        if base is None or fuel == 0:
            return 0
        g = self.find_glyph(layer, base)
        if g is None:
            return 0
        n = len([x for x in self.kids[g] if self.kind[x] == "contour"])
        for x in self.kids[g]:
            if self.kind[x] == "component":
                n += self.flat(layer, self.base.get(x), fuel - 1)
        return n

    def in_font(self, g):
        """glyph g is filed in a layer that belongs to a font"""
        la = self.owner.get(g)
        return la is not None and la not in self.dead and self.kind.get(la) == "layer"


# ---------------------------------------------------------------------------------------
# generation
# ---------------------------------------------------------------------------------------

def gen_disk(rng):
    """a small UFO 3: two layers, a few glyphs with children (so that glyphs load lazily)"""
    layers = []
    for lname in ["public.default", "back"]:
        glyphs = {}
        for gname in rng.sample(GLYPH_NAMES, rng.randint(1, 3)):
            glyphs[gname] = [rng.randint(0, 2), rng.randint(0, 1), rng.randint(0, 2), rng.randint(0, 1),
                             rng.randint(0, 1), rng.randint(0, 1)]
        layers.append(dict(name=lname, glyphs=glyphs))
    return dict(layers=layers)


class Gen(object):
    def __init__(self, rng, disk, xlink):
        self.rng = rng
        self.sh = Shadow(disk)
        self.ops = []
        self.xlink = xlink
        self.counter = 0

    def nm(self, name):
        """scenario glyph names: in cross-link cases the hosts are never named like a base glyph (acyclic graph)"""
        return {"A": "C", "B": "D"}.get(name, name) if self.xlink else name

    def emit(self, op, dump=None):
        self.sh.apply(op)
        self.ops.append(op)
        if dump is None:
            # the cross-link cases compare the complete registry after EVERY operation of the random part
            dump = self.rng.random() < (1.0 if self.xlink else 0.8)
        if dump and op[0] != "dump":
            self.ops.append(["dump"])

    def host_ok(self, g, base):
        return brank(base) < rank(self.sh.name.get(g, ""))

    def name_ok(self, g, name):
        sh = self.sh
        return all(brank(sh.base.get(x)) < rank(name) for x in sh.kids[g] if sh.kind[x] == "component")

    # -- pickers ---------------------------------------------------------------------
    def glyphs(self, live=None):
        sh = self.sh
        res = []
        for g in sh.of_kind("glyph"):
            is_live = sh.owner[g] is not None
            if live is None or live == is_live:
                res.append(g)
        return res

    def children(self, attached=None):
        sh = self.sh
        res = []
        for x in sorted(sh.kind):
            if sh.kind[x] in CHILD_KINDS:
                a = sh.owner[x] is not None
                if attached is None or attached == a:
                    res.append(x)
        return res

    def spec_of(self, la, name):
        sh = self.sh
        if sh.disk is None:
            return [0, 0, 0, 0, 0, 0]
        for lspec in sh.disk["layers"]:
            if lspec["name"] == sh.name[la] or True:
                pass
        # the layer's on-disk name is its name at opening time: recorded in disk_layer
        dname = self.disk_layer.get(la)
        for lspec in sh.disk["layers"]:
            if lspec["name"] == dname and name in lspec["glyphs"]:
                return list(lspec["glyphs"][name])
        return [0, 0, 0, 0, 0, 0]

    disk_layer = {}

    def new_child(self, kind=None):
        kind = kind or self.rng.choice(CHILD_KINDS)
        op = ["new", kind]
        if kind == "component":
            op.append(self.rng.choice(BASES + ["missing"]) if self.xlink else None)
        x = self.sh.next
        self.emit(op, dump=False)
        return x

    def mutate(self, x, dump=None):
        self.counter += 1
        self.emit(["mutate", x, self.counter], dump)

    def cross_op(self):
        """operations on the cross links: baseGlyph =, decomposeComponent, a change of a glyph that components name"""
        rng, sh = self.rng, self.sh
        comps = [x for x in sorted(sh.kind) if sh.kind[x] == "component"]
        r = rng.random()
        if r < 0.45 and comps:
            c = rng.choice(comps)
            g = sh.owner[c]
            cands = (BASES + ["missing", None]) if self.xlink else ["missing", None]
            if g is not None:
                cands = [b for b in cands if self.host_ok(g, b)]
            self.emit(["setBase", c, rng.choice(cands)])
            return True
        if r < 0.7:
            listed = [(g, c) for g in self.glyphs() for c in sh.kids[g] if sh.kind[c] == "component" and sh.in_font(g)]
            if listed:
                g, c = rng.choice(listed)
                self.emit(["decompose", g, c])
                return True
        based = [c for c in comps if sh.base.get(c) not in (None, "missing") and sh.owner[c] is not None
                 and sh.in_font(sh.owner[c])]
        if based:
            c = rng.choice(based)
            o = sh.find_glyph(sh.owner[sh.owner[c]], sh.base[c])
            if o is not None:
                kids = [x for x in sh.kids[o] if sh.kind[x] in ("contour", "component") and sh.owner[x] == o]
                self.mutate(rng.choice(kids) if kids and rng.random() < 0.7 else o)
                return True
        return False

    def random_op(self):
        rng, sh = self.rng, self.sh
        if rng.random() < (0.15 if self.xlink else 0.03) and self.cross_op():
            return
        r = rng.random()
        layers = sh.live_layers()
        glyphs = self.glyphs()
        fonts = sh.fonts()
        if r < 0.10 and layers:
            la = rng.choice(layers)
            self.emit(["newGlyph", la, rng.choice(GLYPH_NAMES)])
        elif r < 0.16 and layers:
            la = rng.choice(layers)
            name = rng.choice(GLYPH_NAMES)
            self.emit(["getGlyph", la, name, self.spec_of(la, name)])
        elif r < 0.24 and layers:
            la = rng.choice(layers)
            names = [sh.name[g] for g in sh.kids[la] if sh.kind[g] == "glyph"] + sh.unloaded[la]
            name = rng.choice(names) if names and rng.random() < 0.85 else rng.choice(GLYPH_NAMES)
            self.emit(["delGlyph", la, name])
        elif r < 0.29 and glyphs:
            g = rng.choice(glyphs)
            name = rng.choice(GLYPH_NAMES + ["E", "F"])
            if self.xlink and not self.name_ok(g, name):
                name = "Z%d" % len(self.ops)      # the component graph stays acyclic
            self.emit(["renameGlyph", g, name])
        elif r < 0.35 and layers and glyphs:
            la = rng.choice(layers)
            g = rng.choice(glyphs)
            name = rng.choice([None, None] + GLYPH_NAMES)
            tgt = name if name is not None else sh.name[g]
            if sh.find_glyph(la, tgt) == g or tgt == "" or (self.xlink and not self.name_ok(g, tgt)):
                # inserting a glyph over itself / without a name is not our subject; the component graph stays acyclic
                name = "Y%d" % len(self.ops)
            self.emit(["insertGlyph", la, g, name])
        elif r < 0.38 and fonts:
            f = rng.choice(fonts)
            used = [sh.name[x] for x in sh.layer_of_font(f)]
            free = [n for n in LAYER_NAMES if n not in used]
            if free:
                self.emit(["newLayer", f, rng.choice(free)])
        elif r < 0.42 and fonts:
            f = rng.choice(fonts)
            cands = sh.layer_of_font(f)[1:]
            if cands:
                self.emit(["delLayer", f, sh.name[rng.choice(cands)]])
        elif r < 0.44 and layers:
            la = rng.choice(layers)
            f = None
            for ff in fonts:
                if la in sh.layer_of_font(ff):
                    f = ff
            if f is not None and la != sh.layer_of_font(f)[0]:
                used = [sh.name[x] for x in sh.layer_of_font(f)]
                free = [n for n in LAYER_NAMES + ["R1", "R2"] if n not in used]
                self.emit(["renameLayer", la, rng.choice(free)])
        elif r < 0.50:
            self.new_child()
        elif r < 0.64 and (glyphs or fonts):
            # insertion: mostly a detached object into a glyph; sometimes an owned one (must be rejected)
            det = self.children(False)
            att = self.children(True)
            if rng.random() < 0.25 and att:
                x = rng.choice(att)
            elif det and rng.random() < 0.8:
                x = rng.choice(det)
            else:
                x = self.new_child()
            conts = list(glyphs)
            if sh.kind[x] == "component":
                conts = [g for g in conts if self.host_ok(g, sh.base.get(x))]      # acyclic component graph
            if sh.kind[x] == "guideline":
                conts += fonts * 2
            if conts:
                self.emit(["insert", rng.choice(conts), x, rng.randint(0, 3)])
        elif r < 0.74:
            att = [x for x in self.children() if any(x in sh.kids[p] for p in sh.kids)]
            listed = [(p, x) for p in sh.kids for x in sh.kids[p] if sh.kind[x] in CHILD_KINDS]
            if listed and rng.random() < 0.9:
                p, x = rng.choice(listed)
                self.emit(["remove", p, x])
            elif glyphs and self.children():
                self.emit(["remove", rng.choice(glyphs), rng.choice(self.children())])
        elif r < 0.78 and glyphs:
            p = rng.choice(glyphs + fonts)
            role = "guideline" if sh.kind[p] == "font" else rng.choice(CHILD_KINDS)
            self.emit(["clear", p, role])
        elif r < 0.80 and glyphs:
            self.emit(["clearAll", rng.choice(glyphs)])
        elif r < 0.84 and (glyphs or fonts):
            p = rng.choice(glyphs + fonts)
            role = "guideline" if sh.kind[p] == "font" else rng.choice(["anchor", "guideline"])
            own = [x for x in sh.kids[p] if sh.kind[x] == role and sh.owner[x] == p]
            det = [x for x in self.children(False) if sh.kind[x] == role and x not in sh.kids[p]]
            xs = rng.sample(own, rng.randint(0, len(own))) + rng.sample(det, rng.randint(0, min(2, len(det))))
            rng.shuffle(xs)
            self.emit(["setList", p, role, xs])
        elif r < 0.89:
            conts = glyphs + layers + fonts
            if conts:
                p = rng.choice(conts)
                what = "image" if sh.kind[p] == "glyph" and rng.random() < 0.5 else "lib"
                self.emit(["touch", p, what])
        elif r < 0.97:
            xs = sorted(sh.kind)
            if xs:
                removed = [x for x in xs if sh.owner[x] is None and sh.kind[x] != "font"]
                x = rng.choice(removed) if removed and rng.random() < 0.6 else rng.choice(xs)
                self.mutate(x)
        else:
            self.emit(["clean"], dump=True)



# ---------------------------------------------------------------------------------------
# scripted scenarios: the histories the property talks about, at known positions
# ---------------------------------------------------------------------------------------

def _maybe_dump(g):
    """the critical step with and without a preceding read of the accessors (cache filled or not)"""
    if g.rng.random() < 0.6:
        g.emit(["dump"])


def _populate(g, glyph, n=None):
    rng = g.rng
    xs = []
    for _ in range(n if n is not None else rng.randint(1, 3)):
        x = g.new_child()
        g.emit(["insert", glyph, x, rng.randint(0, 3)], dump=False)
        xs.append(x)
    if rng.random() < 0.5:
        g.emit(["touch", glyph, rng.choice(["lib", "image"])], dump=False)
    return xs


def _new_glyph(g, layer, name):
    x = g.sh.next
    g.emit(["newGlyph", layer, name], dump=False)
    return x


def sc_ghost_after_remove(g):
    sh, rng = g.sh, g.rng
    la = sh.live_layers()[0]
    a = _new_glyph(g, la, g.nm("A"))
    b = _new_glyph(g, rng.choice(sh.live_layers()), g.nm("B"))
    xs = _populate(g, a, 2)
    _maybe_dump(g)
    x = rng.choice(xs)
    g.emit(["remove", a, x], dump=rng.random() < 0.5)
    g.mutate(x, dump=True)
    g.emit(["clean"], dump=False)
    g.emit(["insert", b, x, 0], dump=rng.random() < 0.5)
    g.mutate(x, dump=True)
    g.emit(["remove", b, x], dump=False)
    g.emit(["insert", a, x, 1], dump=False)
    g.emit(["clean"], dump=False)
    g.mutate(x, dump=True)


def sc_replaced_glyph(g):
    sh, rng = g.sh, g.rng
    la = rng.choice(sh.live_layers())
    a = _new_glyph(g, la, g.nm("A"))
    xs = _populate(g, a)
    g.emit(["touch", a, "lib"], dump=False)
    g.emit(["touch", a, "image"], dump=False)
    _maybe_dump(g)
    how = rng.random()
    if how < 0.4:
        g.emit(["newGlyph", la, g.nm("A")], dump=True)
    elif how < 0.7:
        src = _new_glyph(g, la, "S")
        _populate(g, src, 1)
        g.emit(["insertGlyph", la, src, g.nm("A")], dump=True)
    else:
        other = _new_glyph(g, la, "C")
        g.emit(["renameGlyph", other, g.nm("A")], dump=True)
    g.emit(["clean"], dump=False)
    for x in [a] + xs + [k for k in sh.kids[a] if sh.kind[k] in ("lib", "image")]:
        g.mutate(x, dump=False)
    g.emit(["dump"])
    # undo: the old object goes back in (as a copy), its children can be adopted by another glyph
    g.emit(["insertGlyph", la, a, g.nm("A") if rng.random() < 0.5 else "U"], dump=True)
    if xs:
        tgt = sh.find_glyph(la, g.nm("A"))
        if tgt is not None and sh.base.get(xs[0]) is None:
            g.emit(["insert", tgt, xs[0], 0], dump=True)
            g.emit(["clean"], dump=False)
            g.mutate(xs[0], dump=True)


def sc_layer_deletion(g):
    sh, rng = g.sh, g.rng
    f = sh.fonts()[0]
    used = [sh.name[x] for x in sh.layer_of_font(f)]
    free = [n for n in LAYER_NAMES if n not in used]
    if not free:
        return
    la = sh.next
    g.emit(["newLayer", f, free[0]], dump=False)
    a = _new_glyph(g, la, g.nm("A"))
    xs = _populate(g, a, 2)
    g.emit(["touch", la, "lib"], dump=False)
    if rng.random() < 0.5:
        used = [sh.name[x] for x in sh.layer_of_font(f)]
        g.emit(["renameLayer", la, [n for n in ["R1", "R2", "R3", "R4"] if n not in used][0]], dump=False)
    _maybe_dump(g)
    g.emit(["delLayer", f, sh.name[la]], dump=True)
    g.emit(["clean"], dump=False)
    for x in [la, a] + xs + [k for k in sh.kids[la] if sh.kind[k] == "lib"]:
        g.mutate(x, dump=False)
    g.emit(["dump"])
    d = sh.layer_of_font(f)[0]
    g.emit(["insertGlyph", d, a, rng.choice([g.nm("A"), "Q"])], dump=True)
    b = _new_glyph(g, d, g.nm("B"))
    if sh.base.get(xs[0]) is None or "B" not in BASES:
        pass
    if sh.base.get(xs[0]) is None:
        g.emit(["insert", b, xs[0], 0], dump=True)
        g.emit(["clean"], dump=False)
        g.mutate(xs[0], dump=True)
    # the deleted layer can be created again under its old name
    g.emit(["newLayer", f, free[0]], dump=True)


def sc_owned_twice(g):
    sh, rng = g.sh, g.rng
    la = sh.live_layers()[0]
    f = sh.fonts()[0]
    a = _new_glyph(g, la, "C")
    b = _new_glyph(g, la, "D")
    gl = g.new_child("guideline")
    g.emit(["insert", a, gl, 0], dump=False)
    an = g.new_child("anchor")
    g.emit(["insert", a, an, 0], dump=False)
    fg = g.new_child("guideline")
    g.emit(["insert", f, fg, 0], dump=False)
    _maybe_dump(g)
    tries = [["insert", f, gl, 0], ["insert", b, gl, 0], ["insert", b, an, 0], ["insert", a, an, 0],
             ["insert", a, fg, 0], ["insert", f, fg, 1]]
    if len(sh.fonts()) > 1:
        tries.append(["insert", sh.fonts()[1], fg, 0])
        tries.append(["insert", sh.fonts()[1], gl, 0])
    rng.shuffle(tries)
    for t in tries[:rng.randint(2, len(tries))]:
        g.emit(t, dump=rng.random() < 0.5)
    g.emit(["dump"])
    # after the owner lets go, the same insertions are accepted
    g.emit(["remove", a, gl], dump=False)
    g.emit(["insert", f, gl, 0], dump=True)
    g.emit(["remove", f, fg], dump=False)
    g.emit(["insert", b, fg, 0], dump=True)
    g.emit(["clean"], dump=False)
    g.mutate(gl, dump=False)
    g.mutate(fg, dump=True)


def sc_dead_glyph_ops(g):
    sh, rng = g.sh, g.rng
    la = rng.choice(sh.live_layers())
    a = _new_glyph(g, la, g.nm("A"))
    xs = _populate(g, a, 3)
    _maybe_dump(g)
    g.emit(["delGlyph", la, g.nm("A")], dump=True)
    b = _new_glyph(g, la, g.nm("B"))
    plain = [x for x in xs if sh.base.get(x) is None]
    if plain:
        g.emit(["insert", b, plain[0], 0], dump=True)
    # operations on the deleted glyph: its list still holds the objects it let go
    r = rng.random()
    if r < 0.35 and plain:
        g.emit(["remove", a, plain[0]], dump=True)
    elif r < 0.7:
        g.emit(["clearAll", a], dump=True)
    else:
        g.emit(["clear", a, sh.kind[xs[0]]], dump=True)
    g.emit(["clean"], dump=False)
    for x in xs:
        g.mutate(x, dump=False)
    g.emit(["dump"])
    y = g.new_child()
    g.emit(["insert", a, y, 0], dump=True)      # a deleted glyph can still adopt
    g.emit(["clean"], dump=False)
    g.mutate(y, dump=True)


def sc_lazy_loading(g):
    sh, rng = g.sh, g.rng
    if sh.disk is None:
        return sc_replaced_glyph(g)
    la = rng.choice([l for l in sh.live_layers() if l in g.disk_layer])
    names = list(sh.unloaded[la])
    if not names:
        return
    name = rng.choice(names)
    r = rng.random()
    if r < 0.5:
        x = sh.next
        g.emit(["getGlyph", la, name, g.spec_of(la, name)], dump=True)
        kids = list(sh.kids[x])
        g.emit(["newGlyph", la, name], dump=True)           # over a loaded glyph
        g.emit(["clean"], dump=False)
        for k in [x] + kids:
            g.mutate(k, dump=False)
        g.emit(["dump"])
    elif r < 0.75:
        g.emit(["newGlyph", la, name], dump=True)           # over a glyph that was never loaded
        g.emit(["getGlyph", la, name, g.spec_of(la, name)], dump=True)
    else:
        other = _new_glyph(g, la, "N")
        g.emit(["renameGlyph", other, name], dump=True)      # rename onto a name that is only on disk
        g.emit(["delGlyph", la, name], dump=True)
        g.emit(["getGlyph", la, name, g.spec_of(la, name)], dump=True)
    for n2 in names[:2]:
        g.emit(["getGlyph", la, n2, g.spec_of(la, n2)], dump=False)
    g.emit(["dump"])


def sc_list_assignment(g):
    sh, rng = g.sh, g.rng
    la = sh.live_layers()[0]
    p = rng.choice([_new_glyph(g, la, "C"), sh.fonts()[0]])
    role = "guideline" if sh.kind[p] == "font" else rng.choice(["anchor", "guideline"])
    xs = []
    for _ in range(3):
        x = g.new_child(role)
        g.emit(["insert", p, x, 0], dump=False)
        xs.append(x)
    extra = g.new_child(role)
    _maybe_dump(g)
    keep = rng.sample(xs, rng.randint(0, 2))
    g.emit(["setList", p, role, keep + [extra]], dump=True)
    g.emit(["clean"], dump=False)
    for x in xs:
        g.mutate(x, dump=False)
    g.emit(["dump"])


def sc_rename_back(g):
    sh, rng = g.sh, g.rng
    la = rng.choice(sh.live_layers())
    a = _new_glyph(g, la, g.nm("A"))
    xs = _populate(g, a, 1)
    _maybe_dump(g)
    g.emit(["renameGlyph", a, "X1"], dump=rng.random() < 0.5)
    g.emit(["renameGlyph", a, g.nm("A")], dump=True)
    g.emit(["delGlyph", la, g.nm("A")], dump=rng.random() < 0.5)
    b = _new_glyph(g, la, g.nm("A"))
    g.emit(["dump"])
    g.emit(["clean"], dump=False)
    g.mutate(a, dump=False)
    g.mutate(xs[0], dump=True)


def sc_two_fonts(g):
    sh, rng = g.sh, g.rng
    if len(sh.fonts()) < 2:
        g.emit(["newFont"], dump=False)
    f1, f2 = sh.fonts()[:2]
    a = _new_glyph(g, sh.layer_of_font(f1)[0], g.nm("A"))
    b = _new_glyph(g, sh.layer_of_font(f2)[0], g.nm("A"))
    xs = _populate(g, a, 2)
    plain = [x for x in xs if sh.base.get(x) is None]
    _maybe_dump(g)
    for x in plain:
        g.emit(["insert", b, x, 0], dump=False)             # owned: rejected
        g.emit(["remove", a, x], dump=rng.random() < 0.5)
        g.emit(["insert", b, x, 0], dump=True)
    g.emit(["clean"], dump=False)
    for x in plain:
        g.mutate(x, dump=True)
    g.emit(["insertGlyph", sh.layer_of_font(f2)[0], a, "Z"], dump=True)


def _based_host(g, la, host, base):
    """a glyph `host` in layer la with a component that names `base`; returns (glyph, component)"""
    h = g.sh.find_glyph(la, host)
    if h is None:
        h = _new_glyph(g, la, host)
    c = g.sh.next
    g.emit(["new", "component", base], dump=False)
    g.emit(["insert", h, c, 0], dump=False)
    return h, c


def _contour_in(g, glyph):
    x = g.new_child("contour")
    g.emit(["insert", glyph, x, 0], dump=False)
    return x


def sc_x_replace_base(g):
    """the glyph object a component observes is replaced (newGlyph / insertGlyph / rename over its name) or deleted"""
    sh, rng = g.sh, g.rng
    la = rng.choice(sh.live_layers())
    a = sh.find_glyph(la, "A")
    if a is None:
        a = _new_glyph(g, la, "A")
    k = _contour_in(g, a)
    h, c = _based_host(g, la, rng.choice(["C", "D"]), "A")
    if rng.random() < 0.4:
        h2, c2 = _based_host(g, la, "B", "A")
    _maybe_dump(g)
    how = rng.random()
    if how < 0.3:
        g.emit(["newGlyph", la, "A"], dump=True)
    elif how < 0.5:
        src = _new_glyph(g, la, "S")
        _contour_in(g, src)
        g.emit(["insertGlyph", la, src, "A"], dump=True)
    elif how < 0.75:
        other = _new_glyph(g, la, "N")
        g.emit(["renameGlyph", other, "A"], dump=True)
    else:
        g.emit(["delGlyph", la, "A"], dump=True)
    g.emit(["clean"], dump=False)
    g.mutate(k, dump=False)         # a contour of the replaced glyph: nobody may hear it
    g.mutate(a, dump=True)
    now = sh.find_glyph(la, "A")
    if now is not None:
        k2 = _contour_in(g, now)
        g.emit(["clean"], dump=False)
        g.mutate(k2, dump=True)     # ... while the new one is followed
    g.emit(["remove", h, c], dump=True)
    g.emit(["clean"], dump=False)
    if now is not None:
        g.mutate(k2, dump=True)     # the removed component's former glyph must not hear its former base glyph


def sc_x_layer_deletion(g):
    """a layer with a base glyph, a glyph whose component names it (created before or after it) and an image is deleted"""
    sh, rng = g.sh, g.rng
    f = sh.fonts()[0]
    used = [sh.name[x] for x in sh.layer_of_font(f)]
    free = [n for n in LAYER_NAMES if n not in used]
    if not free:
        return
    la = sh.next
    g.emit(["newLayer", f, free[0]], dump=False)
    if rng.random() < 0.6:
        a = _new_glyph(g, la, "A")
        h, c = _based_host(g, la, "C", "A")
    else:
        h, c = _based_host(g, la, "C", "A")
        a = _new_glyph(g, la, "A")
    k = _contour_in(g, a)
    if rng.random() < 0.6:
        g.emit(["touch", h, "image"], dump=False)
    if rng.random() < 0.5:
        _based_host(g, la, "D", "missing")
    _maybe_dump(g)
    g.emit(["delLayer", f, sh.name[la]], dump=True)
    g.emit(["clean"], dump=False)
    for x in [k, a, c, h, la]:
        g.mutate(x, dump=False)
    g.emit(["dump"])
    d = sh.layer_of_font(f)[0]
    g.emit(["insertGlyph", d, h, "Q"], dump=True)       # the copy's component follows the default layer's "A"
    if rng.random() < 0.5:
        g.emit(["newGlyph", d, "A"], dump=True)


def sc_x_remove_component(g):
    """every way a component leaves its glyph; afterwards a change of its former base glyph reaches nobody through it"""
    sh, rng = g.sh, g.rng
    la = rng.choice(sh.live_layers())
    a = sh.find_glyph(la, "A")
    if a is None:
        a = _new_glyph(g, la, "A")
    k = _contour_in(g, a)
    h, c = _based_host(g, la, "C", "A")
    if rng.random() < 0.5:
        g.emit(["touch", h, "image"], dump=False)
    _maybe_dump(g)
    g.emit(["clean"], dump=False)
    g.mutate(k, dump=True)          # followed: C posts
    how = rng.random()
    if how < 0.2:
        g.emit(["remove", h, c], dump=True)
    elif how < 0.35:
        g.emit(["clear", h, "component"], dump=True)
    elif how < 0.5:
        g.emit(["clearAll", h], dump=True)
    elif how < 0.65:
        g.emit(["decompose", h, c], dump=True)
    elif how < 0.85:
        g.emit(["delGlyph", la, "C"], dump=True)
    else:
        g.emit(["newGlyph", la, "C"], dump=True)
    g.emit(["clean"], dump=False)
    g.mutate(k, dump=True)          # not followed any more
    g.mutate(c, dump=True)
    d = _new_glyph(g, la, "D")
    if sh.owner[c] is None:
        g.emit(["insert", d, c, 0], dump=True)
        g.emit(["clean"], dump=False)
        g.mutate(k, dump=True)      # followed again, through D


def sc_x_rename_base(g):
    """the base glyph is renamed away and back, another glyph takes its name, the component changes its base name"""
    sh, rng = g.sh, g.rng
    la = rng.choice(sh.live_layers())
    a = sh.find_glyph(la, "A")
    if a is None:
        a = _new_glyph(g, la, "A")
    k = _contour_in(g, a)
    h, c = _based_host(g, la, "C", "A")
    _maybe_dump(g)
    if rng.random() < 0.3:
        # the base glyph is renamed onto the name of the glyph that holds the component: that glyph is replaced while
        # `Glyph.NameChanged` is being delivered to its component
        g.emit(["renameGlyph", a, "C"], dump=True)
        g.emit(["clean"], dump=False)
        for x in [k, c, h, a]:
            g.mutate(x, dump=False)
        g.emit(["dump"])
        return
    g.emit(["renameGlyph", a, "X1"], dump=True)
    g.emit(["clean"], dump=False)
    g.mutate(k, dump=True)
    r = rng.random()
    if r < 0.4:
        g.emit(["renameGlyph", a, "A"], dump=True)
    elif r < 0.7:
        n = _new_glyph(g, la, "N")
        g.emit(["renameGlyph", n, "A"], dump=True)
    else:
        g.emit(["setBase", c, "X1"], dump=True)
    g.emit(["clean"], dump=False)
    g.mutate(k, dump=True)
    g.emit(["setBase", c, rng.choice(["B", "missing", None, "A"])], dump=True)
    g.emit(["clean"], dump=False)
    g.mutate(k, dump=True)


XSCENARIOS = [sc_x_replace_base, sc_x_layer_deletion, sc_x_remove_component, sc_x_rename_base]

SCENARIOS = [sc_ghost_after_remove, sc_replaced_glyph, sc_layer_deletion, sc_owned_twice, sc_dead_glyph_ops,
             sc_lazy_loading, sc_list_assignment, sc_rename_back, sc_two_fonts]


def gen_random_case(rng, maxlen, xlink=False, scenario=None):
    # cross-link cases use fonts built in memory: a component whose base glyph is only on disk loads it
    disk = gen_disk(rng) if (not xlink and rng.random() < 0.4) else None
    g = Gen(rng, disk, xlink)
    g.disk_layer = {}
    if disk is not None:
        f = g.sh.next
        g.emit(["openFont"])
        for la, lspec in zip(g.sh.layer_of_font(f), disk["layers"]):
            g.disk_layer[la] = lspec["name"]
    else:
        g.emit(["newFont"])
    if rng.random() < 0.35:
        g.emit(["newFont"])
    if rng.random() < 0.4:
        g.emit(["newGlyphObj"])
    for la in g.sh.live_layers()[:2]:
        if rng.random() < 0.7:
            g.emit(["newGlyph", la, rng.choice(GLYPH_NAMES)])
    scen = None
    if scenario is not None:
        for _ in range(rng.randint(0, 4)):
            g.random_op()
        if xlink and rng.random() < 0.7:
            scen = XSCENARIOS[scenario % len(XSCENARIOS)]
        else:
            scen = SCENARIOS[scenario % len(SCENARIOS)]
        scen(g)
        if rng.random() < 0.3:
            (XSCENARIOS if xlink else SCENARIOS)[rng.randrange(len(XSCENARIOS if xlink else SCENARIOS))](g)
    n = max(len(g.ops) + rng.randint(0, 8), rng.randint(4, maxlen)) if scenario is not None else rng.randint(4, maxlen)
    while len(g.ops) < n:
        g.random_op()
    g.ops.append(["dump"])
    return dict(ops=g.ops, disk=disk, xlink=xlink, scenario=None if scen is None else scen.__name__)


def generate(rng, tier):
    n, maxlen = (1600, 40) if tier == "quick" else (15000, 70)
    for i in range(n):
        yield gen_random_case(rng, maxlen, xlink=(i % 5 >= 3), scenario=(i // 2 if i % 2 else None))


def neighbourhood(case, step, rng):
    """variants around a diverging step: read everything, change everything that exists, re-insert what was let go"""
    ops = case["ops"]
    prefix = ops[:step + 1]
    sh = Shadow(case.get("disk"))
    for op in prefix:
        try:
            sh.apply(op)
        except Exception:
            pass
    ids = sorted(sh.kind)
    yield dict(case, ops=prefix + [["dump"]])
    tail = [["dump"], ["clean"]]
    for n, x in enumerate(ids):
        tail.append(["mutate", x, 1000 + n])
    yield dict(case, ops=prefix + tail + [["dump"]])
    glyphs = [i for i in ids if sh.kind[i] == "glyph"]
    loose = [i for i in ids if sh.kind[i] in CHILD_KINDS and sh.owner.get(i) is None]
    def acyclic(gl, name):
        """the component graph stays acyclic (outside the domain otherwise: the real code recurses without end)"""
        return all(brank(sh.base.get(k)) < rank(name) for k in sh.kids[gl] if sh.kind[k] == "component")
    for x in loose[:6]:
        for gl in glyphs[:4]:
            if sh.kind[x] == "component" and not brank(sh.base.get(x)) < rank(sh.name.get(gl, "")):
                continue
            yield dict(case, ops=prefix + [["insert", gl, x, 0], ["dump"], ["clean"], ["mutate", x, 2000], ["dump"]])
    for la in sh.live_layers()[:2]:
        for gl in glyphs[:4]:
            if acyclic(gl, "NB"):
                yield dict(case, ops=prefix + [["insertGlyph", la, gl, "NB"], ["dump"]])
    yield case


# ---------------------------------------------------------------------------------------
# model side
# ---------------------------------------------------------------------------------------

def enc_op(op, case):
    k = op[0]
    if k == "openFont":
        return [Atom("openFont"), [[l["name"], sorted(l["glyphs"])] for l in case["disk"]["layers"]]]
    if k in ("newLayer", "delLayer", "renameLayer", "newGlyph", "delGlyph", "renameGlyph"):
        return [Atom(k), op[1], op[2]]
    if k == "getGlyph":
        # the components of the glyphs on disk all name the glyph "missing" (_write_disk)
        return [Atom(k), op[1], op[2], list(op[3]), [opt("missing")] * op[3][1]]
    if k == "insertGlyph":
        return [Atom(k), op[1], op[2], opt(op[3])]
    if k == "new":
        if op[1] == "component":
            return [Atom(k), Atom(op[1]), opt(op[2] if len(op) > 2 else None)]
        return [Atom(k), Atom(op[1])]
    if k == "setBase":
        return [Atom(k), op[1], opt(op[2])]
    if k == "decompose":
        return [Atom(k), op[1], op[2]]
    if k in ("insert", "remove"):
        return [Atom(k), op[1], op[2]]
    if k == "clear":
        return [Atom(k), op[1], Atom(op[2])]
    if k == "clearAll":
        return [Atom(k), op[1]]
    if k == "setList":
        return [Atom(k), op[1], Atom(op[2]), list(op[3])]
    if k == "touch":
        return [Atom(k), op[1], Atom(op[2])]
    if k == "mutate":
        return [Atom(k), op[1]]
    if k in ("newFont", "newGlyphObj", "clean", "dump"):
        return [Atom(k)]
    raise ValueError(op)


def model_lines(case):
    return [enc_op(op, case) for op in case["ops"]]


# ---------------------------------------------------------------------------------------
# implementation side
# ---------------------------------------------------------------------------------------

class _Recorder(object):
    def __init__(self):
        self.log = []

    def cb(self, notification):
        self.log.append((notification.name, notification.object))


def _write_disk(disk, path):
    """write the case's UFO with fontTools.ufoLib directly (independent of defcon)"""
    from fontTools.ufoLib import UFOWriter

    class G(object):
        pass

    w = UFOWriter(path, formatVersion=3)
    names = [l["name"] for l in disk["layers"]]
    for lspec in disk["layers"]:
        gs = w.getGlyphSet(layerName=lspec["name"], defaultLayer=(lspec["name"] == "public.default"))
        for gname, spec in sorted(lspec["glyphs"].items()):
            nc, ncomp, na, ng, img, lib = spec
            g = G()
            g.width = 100
            g.anchors = [dict(x=i, y=i, name="a%d" % i) for i in range(na)]
            g.guidelines = [dict(x=i, y=0, angle=0) for i in range(ng)]
            if img:
                g.image = dict(fileName="i.png", xScale=1, xyScale=0, yxScale=0, yScale=1, xOffset=0, yOffset=0)
            if lib:
                g.lib = {"com.x.k": 1}

            def draw(pen, nc=nc, ncomp=ncomp):
                for i in range(nc):
                    pen.beginPath()
                    pen.addPoint((i, 0), "line")
                    pen.addPoint((i, 10), "line")
                    pen.addPoint((10, i), "line")
                    pen.endPath()
                for i in range(ncomp):
                    pen.addComponent("missing", (1, 0, 0, 1, i, 0))
            gs.writeGlyph(gname, g, draw)
        gs.writeContents()
    w.writeLayerContents(names)
    w.close()


class World(object):
    def __init__(self, case):
        self.case = case
        self.objs = {}
        self.kind = {}
        self.ids = {}          # id(python object) -> number
        self.keep = []
        self.fonts = []
        self.recorders = {}
        self.centres = {}      # id(dispatcher) -> font number
        self.tmp = None
        self.counter = 0
        self.stats = {}

    # -- bookkeeping -------------------------------------------------------------------
    def reg(self, obj, kind):
        k = id(obj)
        if k in self.ids:
            return self.ids[k]
        n = len(self.objs)
        self.objs[n] = obj
        self.kind[n] = kind
        self.ids[k] = n
        self.keep.append(obj)
        return n

    def num(self, obj):
        if obj is None:
            return None
        return self.ids.get(id(obj), 999)

    def get(self, n, kinds=None):
        if not isinstance(n, int) or n not in self.objs:
            raise LookupError("no such object")
        if kinds is not None and self.kind[n] not in kinds:
            raise LookupError("wrong kind")
        return self.objs[n]

    def reg_font(self, font):
        f = self.reg(font, "font")
        self.fonts.append(f)
        rec = _Recorder()
        font.dispatcher.addObserver(rec, "cb", notification=None, observable=None)
        self.recorders[f] = rec
        self.centres[id(font.dispatcher)] = f
        self.reg(font.layers, "layerSet")
        for name in font.layers.layerOrder:
            self.reg(font.layers[name], "layer")
        # the font lib is built on first access, which the glyph order bookkeeping does on the first glyph
        # added / deleted / renamed: build it at once so that its number does not depend on that
        self.reg(font.lib, "lib")
        # the font info is built on first access too (the font's guidelines live in it): build it at once
        font.info
        return f

    def reg_glyph_children(self, glyph, with_singletons=True):
        for c in glyph._contours:
            self.reg(c, "contour")
        for c in glyph._components:
            self.reg(c, "component")
        for a in glyph._anchors:
            self.reg(a, "anchor")
        for g in glyph._guidelines:
            self.reg(g, "guideline")
        if with_singletons:
            if glyph._image is not None:
                self.reg(glyph._image, "image")
            if glyph._lib is not None:
                self.reg(glyph._lib, "lib")

    def close(self):
        for f in self.fonts:
            try:
                self.objs[f].close()
            except Exception:
                pass
        if self.tmp is not None:
            shutil.rmtree(self.tmp, ignore_errors=True)

    # -- child lists read off the implementation (read-only) ------------------------------
    def kids_of(self, n):
        """numbers of the objects LISTED in container n (its own lists; nothing is loaded)"""
        o, k = self.objs[n], self.kind[n]
        res = []
        if k == "font":
            res.append(o._layers)
            res.extend(o._guidelines)
            if o._lib is not None:
                res.append(o._lib)
        elif k == "layerSet":
            res.extend(o._layers.values())
        elif k == "layer":
            res.extend(o._glyphs.values())
            if o._lib is not None:
                res.append(o._lib)
        elif k == "glyph":
            res.extend(o._contours)
            res.extend(o._components)
            res.extend(o._anchors)
            res.extend(o._guidelines)
            if o._image is not None:
                res.append(o._image)
            if o._lib is not None:
                res.append(o._lib)
        return [self.num(x) for x in res]

    # -- operations ------------------------------------------------------------------------
    def do(self, op):
        try:
            return self._do(op)
        except LookupError as e:
            if isinstance(e, (KeyError, IndexError)):
                return [Atom("err"), Atom(type(e).__name__)]
            return NOSUCH
        except (AssertionError, ValueError, TypeError, AttributeError, RuntimeError) as e:
            return [Atom("err"), Atom(type(e).__name__)]

    def _do(self, op):
        from defcon import Font, Glyph, Contour, Component, Anchor, Guideline, Point
        k = op[0]
        ok = Atom("ok")
        if k == "newFont":
            return [Atom("id"), self.reg_font(Font())]
        if k == "openFont":
            if self.tmp is None:
                self.tmp = tempfile.mkdtemp(prefix="c11_")
            path = os.path.join(self.tmp, "f%d.ufo" % len(self.fonts))
            _write_disk(self.case["disk"], path)
            return [Atom("id"), self.reg_font(Font(path))]
        if k == "newLayer":
            font = self.get(op[1], ["font"])
            return [Atom("id"), self.reg(font.newLayer(op[2]), "layer")]
        if k == "delLayer":
            font = self.get(op[1], ["font"])
            del font.layers[op[2]]
            return ok
        if k == "renameLayer":
            self.get(op[1], ["layer"]).name = op[2]
            return ok
        if k == "newGlyph":
            layer = self.get(op[1], ["layer"])
            if layer.layerSet is None:
                return DETACHED     # operations on a layer that was deleted from its font: outside the domain
            return [Atom("id"), self.reg(layer.newGlyph(op[2]), "glyph")]
        if k == "getGlyph":
            layer = self.get(op[1], ["layer"])
            if layer.layerSet is None:
                return DETACHED     # operations on a layer that was deleted from its font: outside the domain
            g = layer[op[2]]
            len(g)          # contours of a loaded glyph are built on first access: build them now
            n = self.reg(g, "glyph")
            self.reg_glyph_children(g)
            return [Atom("id"), n]
        if k == "delGlyph":
            layer = self.get(op[1], ["layer"])
            if layer.layerSet is None:
                return DETACHED     # operations on a layer that was deleted from its font: outside the domain
            del layer[op[2]]
            return ok
        if k == "renameGlyph":
            self.get(op[1], ["glyph"]).name = op[2]
            return ok
        if k == "insertGlyph":
            layer = self.get(op[1], ["layer"])
            src = self.get(op[2], ["glyph"])
            if layer.layerSet is None:
                return DETACHED     # operations on a layer that was deleted from its font: outside the domain
            had_image, had_lib = src._image is not None, src._lib is not None
            dest = layer.insertGlyph(src, name=op[3])
            n = self.reg(dest, "glyph")
            self.reg_glyph_children(dest)
            if not had_image and src._image is not None:
                self.reg(src._image, "image")
            if not had_lib and src._lib is not None:
                self.reg(src._lib, "lib")
            return [Atom("id"), n]
        if k == "new":
            kind = op[1]
            if kind == "contour":
                o = Contour()
                o.appendPoint(Point((0, 0), "line"))
                o.appendPoint(Point((0, 10), "line"))
                o.appendPoint(Point((10, 0), "line"))
                o.dirty = False
            elif kind == "component":
                o = Component()
                if op[2] is not None:
                    o.baseGlyph = op[2]
                o.dirty = False
            elif kind == "anchor":
                o = Anchor(anchorDict=dict(x=1, y=2, name="a"))
            elif kind == "guideline":
                o = Guideline(guidelineDict=dict(x=1, y=2, angle=0))
            else:
                raise LookupError("kind")
            return [Atom("id"), self.reg(o, kind)]
        if k == "newGlyphObj":
            return [Atom("id"), self.reg(Glyph(), "glyph")]
        if k == "insert":
            p = self.get(op[1], ["glyph", "font"])
            x = self.get(op[2], CHILD_KINDS)
            kind = self.kind[op[2]]
            if self.kind[op[1]] == "font" and kind != "guideline":
                raise LookupError("kind")
            n = len(self._role_list(p, kind))
            # components are appended: Layer.insertGlyph copies them in list order, which the model knows as
            # insertion order (the order inside a child list is not modelled)
            idx = n if kind == "component" else op[3] % (n + 1)
            getattr(p, "insert" + kind.capitalize())(idx, x)
            return ok
        if k == "setBase":
            self.get(op[1], ["component"]).baseGlyph = op[2]
            return ok
        if k == "decompose":
            g = self.get(op[1], ["glyph"])
            c = self.get(op[2], ["component"])
            if c not in g._components:
                raise ValueError("component not in glyph")
            if g.layer is None:
                return DETACHED     # DecomposeComponentPointPen needs the glyph's layer
            g.decomposeComponent(c)
            self.reg_glyph_children(g, with_singletons=False)
            return ok
        if k == "remove":
            p = self.get(op[1], ["glyph", "font"])
            x = self.get(op[2], CHILD_KINDS)
            kind = self.kind[op[2]]
            if self.kind[op[1]] == "font" and kind != "guideline":
                raise LookupError("kind")
            getattr(p, "remove" + kind.capitalize())(x)
            return ok
        if k == "clear":
            p = self.get(op[1], ["glyph", "font"])
            if self.kind[op[1]] == "font" and op[2] != "guideline":
                raise LookupError("kind")
            getattr(p, "clear" + op[2].capitalize() + "s")()
            return ok
        if k == "clearAll":
            self.get(op[1], ["glyph"]).clear()
            return ok
        if k == "setList":
            p = self.get(op[1], ["glyph", "font"])
            role = op[2]
            if role not in ("anchor", "guideline") or (self.kind[op[1]] == "font" and role != "guideline"):
                raise LookupError("kind")
            xs = [self.get(x, [role]) for x in op[3]]
            try:
                setattr(p, role + "s", xs)
            except Exception:
                # the setter's hold/release bracket has no try/finally: release, so that later steps are comparable
                try:
                    p.releaseHeldNotifications()
                except Exception:
                    pass
                raise
            return ok
        if k == "touch":
            p = self.get(op[1], ["glyph", "layer", "font"])
            if op[2] == "image":
                if self.kind[op[1]] != "glyph":
                    raise LookupError("kind")
                return [Atom("id"), self.reg(p.image, "image")]
            return [Atom("id"), self.reg(p.lib, "lib")]
        if k == "mutate":
            return self._mutate(op[1], op[2])
        if k == "clean":
            return self._clean()
        if k == "dump":
            return self._dump()
        raise ValueError(op)

    @staticmethod
    def _role_list(p, kind):
        return {"contour": p._contours, "component": p._components, "anchor": p._anchors,
                "guideline": p._guidelines}[kind] if kind != "guideline" else p._guidelines

    def _mutate_obj(self, n, v):
        """a change of object n through its public API that is never a no-op (v grows with every call)"""
        o, k = self.get(n), self.kind[n]
        sel = v % 3
        if k == "font":
            o.dirty = True
        elif k == "layerSet":
            o.dirty = True
        elif k == "layer":
            if sel == 0:
                o.color = "%d,0,0,1" % (v % 2) if o.color is None or str(o.color) != "%d,0,0,1" % (v % 2) else "0,1,0,1"
            else:
                o.dirty = True
        elif k == "glyph":
            if sel == 0:
                o.width = 1000 + v
            elif sel == 1:
                o.note = "n%d" % v
            else:
                o.unicodes = [0xE000 + v]
        elif k == "contour":
            if sel == 0:
                o.move((1, 0))
            elif sel == 1:
                from defcon import Point
                o.appendPoint(Point((v, v), "line"))
            else:
                o.dirty = True
        elif k == "component":
            if sel == 0:
                o.transformation = (1, 0, 0, 1, v, 0)
            elif sel == 1:
                o.move((1, 1))
            else:
                o.dirty = True
        elif k == "anchor":
            if sel == 0:
                o.x = 100 + v
            elif sel == 1:
                o.name = "n%d" % v
            else:
                o.move((1, 1))
        elif k == "guideline":
            if sel == 0:
                o.x = 100 + v
            elif sel == 1:
                o.name = "n%d" % v
            else:
                o.angle = (v % 350) + 1
        elif k == "image":
            if sel == 0:
                o.fileName = "f%d.png" % v
            else:
                o.transformation = (1, 0, 0, 1, v, 1)
        elif k == "lib":
            o["com.k%d" % (v % 2)] = v

    def _flags(self):
        return {n: bool(self.objs[n].dirty) for n in self.objs if self.kind[n] in CONTAINER_KINDS}

    def _mutate(self, n, v):
        self.get(n)
        for rec in self.recorders.values():
            del rec.log[:]
        self._mutate_obj(n, v)
        senders = set()
        for f, rec in self.recorders.items():
            for name, obj in rec.log:
                m = self.num(obj)
                if m != 999 and name == CHANGED[self.kind[m]]:
                    senders.add(m)
        self.last_log = {f: list(rec.log) for f, rec in self.recorders.items()}
        flags = self._flags()
        return [Atom("mut"), [Atom("dirty"), [Atom("set")] + [n for n in sorted(flags) if flags[n]]],
                [Atom("posted"), [Atom("set")] + sorted(senders)]]

    def _clean(self):
        """clear every container's dirty flag through the public setter, bottom up (what a save does)"""
        for kind in ("glyph", "layer", "layerSet", "font"):
            for n in sorted(self.objs):
                if self.kind[n] == kind:
                    self.objs[n].dirty = False
        flags = self._flags()
        return [Atom("mut"), [Atom("dirty"), [Atom("set")] + [n for n in sorted(flags) if flags[n]]]]

    def accessors(self, n):
        o, k = self.objs[n], self.kind[n]
        res = []
        for attr in ("glyph", "layer", "layerSet", "font"):
            if attr == "font" and k == "font":
                res.append(None)
                continue
            try:
                res.append(self.num(getattr(o, attr)))
            except AttributeError:
                res.append(None)
        try:
            res.append(self.num(o.getParent()))
        except NotImplementedError:
            res.append(None)
        d = o.dispatcher
        res.append(None if d is None else self.centres.get(id(d), 999))
        return res

    def canon_obj(self, f, obj):
        """an object of a registration: its number, or the fixed sub-object of font f it is, or its class"""
        if obj is None:
            return Atom("dead")
        n = self.ids.get(id(obj))
        if n is not None:
            return n
        for ff in self.fonts:
            font = self.objs[ff]
            if obj is font._images:
                return [Atom("imageSet"), ff]
            if obj is font._data:
                return [Atom("dataSet"), ff]
            if obj is font._info:
                return [Atom("info"), ff]
        return [Atom("unknown"), type(obj).__name__]

    def raw_registrations(self):
        """every registration of every font's centre: (font number, observer object, observable object, name),
        read off `_registry` (read-only); the adaptor's own recorder (observable None) is left out"""
        rows = []
        for f in self.fonts:
            centre = self.objs[f].dispatcher
            for (name, obsref), observers in centre._registry.items():
                for oref in observers:
                    observer = oref()
                    if obsref is None:
                        if observer is self.recorders[f]:
                            continue
                        rows.append((f, observer, Ellipsis, name))
                    else:
                        rows.append((f, observer, obsref(), name))
        return rows

    def registrations(self):
        """the complete registry of every font's centre, canonicalised"""
        return [[f, self.canon_obj(f, o), Atom("any") if m is Ellipsis else self.canon_obj(f, m), nname(name)]
                for (f, o, m, name) in self.raw_registrations()]

    def _dump(self):
        rows = []
        for n in sorted(self.objs):
            acc = self.accessors(n)
            row = [n, Atom(self.kind[n]), [opt(a) for a in acc], [Atom("set")] + sorted(self.kids_of(n))]
            if self.kind[n] in CONTAINER_KINDS:
                row.append(bool(self.objs[n].dirty))
            rows.append(row)
        return [Atom("dump"), rows, [Atom("regs"), [Atom("set")] + self.registrations()]]


# ---------------------------------------------------------------------------------------
# direct oracle: the property's sentences evaluated on the implementation's own child lists
# ---------------------------------------------------------------------------------------

GETPARENT = {"contour": "glyph", "component": "glyph", "anchor": "glyph", "image": "glyph",
             "glyph": "font", "layer": "layerSet", "layerSet": "font"}


class Oracle(object):
    """Snapshots E_t = {(container, object)} of the implementation's child lists.

    S1 (reachable): every object reached from a font by walking the child lists reports exactly the
        containers on the walk, and the font's dispatcher.
    S1b: the sub-objects a font always has (info, kerning, groups, features, image set, data set), once built,
        answer the font.
    S2 (removed): an object that was listed in a container before an operation and is not listed in it
        after it has been removed/replaced; while it is listed nowhere its accessors return nothing.
    S2b (taken along): an object that is not reachable from any font names no layer, layer set, font, dispatcher.
    S3 (inert): a change of an object reaches no FORMER container (one that contained it once,
        directly or indirectly, and does not now): no notification is sent by it, its dirty flag stays.
    S4 (re-insert): inserting an object that no container owns is accepted.
    S5 (exclusive): after no operation is an object listed in two containers that are both alive
        (reachable from a font, or a stand-alone glyph that was never removed from anywhere).
    S6 (no wiring left): every registration in a font's notification centre is between objects of that font:
        observer and observable are the font, reachable from it by the child lists, or one of its fixed
        sub-objects - never an object that was removed / replaced or that a removed container took along.
    S7 (cross links exact): a component reachable from a font observes exactly its layer and the glyph object
        that layer files under its base glyph name (the layer alone when it files none, nothing without a base
        glyph name); an image exactly the font's image set and its layer.
    S3b: while an object is changed, nothing that is not reachable from a font sends a notification.
    S0: no operation dies of a TypeError / AttributeError / RuntimeError (a removed object that is still called back).
    """

    def __init__(self, world):
        self.w = world
        self.viol = []
        self.former = {}        # object -> set of containers that contained it once (transitively)
        self.removed = set()    # objects that lost a listing (removed / replaced)
        self.dead = set()       # containers that were removed themselves
        self.edges = set()
        self.step = -1

    def report(self, clause, site, **kw):
        self.viol.append(dict(clause="C11/" + clause, signature="C11/%s/%s" % (clause, site), step=self.step, **kw))

    def snapshot(self):
        w = self.w
        edges = set()
        for n in w.objs:
            if w.kind[n] in CONTAINER_KINDS:
                for x in w.kids_of(n):
                    if x != 999:
                        edges.add((n, x))
        return edges

    def ancestors(self, edges, x, seen=None):
        seen = set() if seen is None else seen
        for (p, c) in edges:
            if c == x and p not in seen:
                seen.add(p)
                self.ancestors(edges, p, seen)
        return seen

    def walk(self, edges):
        """{object: (glyph, layer, layerSet, font)} for everything reachable from a font"""
        w = self.w
        kids = {}
        for p, c in edges:
            kids.setdefault(p, []).append(c)
        found = {}

        def rec(n, ctx, parent):
            k = w.kind[n]
            ctx = dict(ctx)
            found.setdefault(n, []).append(dict(ctx, parent=parent))
            if k in CONTAINER_KINDS:
                ctx[k] = n
                for c in kids.get(n, ()):
                    rec(c, ctx, n)
        for f in w.fonts:
            rec(f, {}, None)
        return found

    def after(self, op, result):
        w = self.w
        self.step += 1
        before = self.edges
        now = self.snapshot()
        self.edges = now
        k = op[0]
        failed = isinstance(result, list) and result and result[0] == "err"
        # S0: an operation of the domain never dies of a TypeError / AttributeError: the way a callback of an object
        # that has just been let go (and is still called back by the delivery in progress) shows
        if failed and str(result[1]) in ("TypeError", "AttributeError", "RuntimeError"):
            self.report("operation-crashed", "%s/%s" % (k, result[1]), op=list(op))
        # S2 bookkeeping ------------------------------------------------------------------
        for (p, x) in before - now:
            self.removed.add(x)
            if w.kind[x] in CONTAINER_KINDS:
                self.dead.add(x)
        for (p, x) in before | now:
            anc = self.ancestors(before if (p, x) in before else now, x)
            self.former.setdefault(x, set()).update(anc)
        listed = {}
        for (p, x) in now:
            listed.setdefault(x, set()).add(p)
        reach = self.walk(now)
        # S1 --------------------------------------------------------------------------------
        for n, ctxs in reach.items():
            if len(ctxs) != 1:
                continue    # S5 reports it
            ctx = ctxs[0]
            kind = w.kind[n]
            if kind == "font":
                continue
            acc = w.accessors(n)
            exp = [ctx.get("glyph"), ctx.get("layer"), ctx.get("layerSet"), ctx.get("font")]
            names = ["glyph", "layer", "layerSet", "font"]
            for i, a in enumerate(names):
                if a == kind or (kind in CONTAINER_KINDS and CONTAINER_KINDS.index(a) >= CONTAINER_KINDS.index(kind)):
                    continue        # a glyph has no .glyph, a layer no .layer / .glyph ...
                if acc[i] != exp[i]:
                    self.report("wrong-parent", "%s.%s/after-%s" % (kind, a, k), obj=n, expected=exp[i], observed=acc[i])
            want = ctx.get(GETPARENT[kind]) if kind in GETPARENT else ctx["parent"]
            if acc[4] != want:
                self.report("wrong-parent", "%s.getParent/after-%s" % (kind, k), obj=n, expected=want, observed=acc[4])
            if acc[5] != ctx.get("font"):
                self.report("wrong-dispatcher", "%s/after-%s" % (kind, k), obj=n, expected=ctx.get("font"), observed=acc[5])
        # S1b: the font's fixed sub-objects (only those already built; nothing is built by looking)
        for f in w.fonts:
            font = w.objs[f]
            for attr in ("_info", "_kerning", "_groups", "_features", "_images", "_data"):
                sub = getattr(font, attr, None)
                if sub is None:
                    continue
                if sub.font is not font or sub.getParent() is not font or sub.dispatcher is not font.dispatcher:
                    self.report("wrong-parent", "font.%s/after-%s" % (attr, k), obj=f)
            for la in font.layers:
                ud = la._unicodeData
                if ud is not None and (ud.layer is not la or ud.font is not font or ud.dispatcher is not font.dispatcher):
                    self.report("wrong-parent", "layer.unicodeData/after-%s" % k, obj=f)
        # S2 --------------------------------------------------------------------------------
        for x in sorted(self.removed):
            if x in listed:
                continue
            if w.kind[x] not in ("contour", "component", "anchor", "guideline", "glyph", "layer"):
                continue
            acc = w.accessors(x)
            for name, a in zip(["glyph", "layer", "layerSet", "font", "getParent", "dispatcher"], acc):
                if a is not None:
                    self.report("removed-still-answers", "%s.%s/after-%s" % (w.kind[x], name, k), obj=x, observed=a)
        # S2b: what a removed container took with it (a deleted glyph's contours ...) is not in the font any more:
        # it must not name a layer, layer set, font or dispatcher (its `glyph` may still be the removed glyph)
        for x in sorted(w.objs):
            if x in reach or x in self.removed and x not in listed or w.kind[x] == "font":
                continue
            if not self.former.get(x):
                continue
            acc = w.accessors(x)
            for name, a in zip(["layer", "layerSet", "font", "dispatcher"], [acc[1], acc[2], acc[3], acc[5]]):
                if a is not None:
                    self.report("unreachable-answers", "%s.%s/after-%s" % (w.kind[x], name, k), obj=x, observed=a)
        # S6 / S7: the registry ----------------------------------------------------------------
        by_observer = {}
        ghosts = set()
        for (f, observer, observable, name) in w.raw_registrations():
            by_observer.setdefault(id(observer), []).append((f, observable, name))
            for role, obj in (("observer", observer), ("observable", observable)):
                if obj is Ellipsis or obj is None:
                    continue
                n = w.ids.get(id(obj))
                if n is None:
                    continue        # a fixed sub-object of a font (image set, data set, info): S1b
                if n != f and not any(c.get("font") == f for c in reach.get(n, ())):
                    key = (f, id(observer), id(observable), name, role)
                    ghosts.add(key)
                    if key not in self.ghosts:      # reported once, at the operation that leaves it behind
                        self.report("ghost-registration", "%s-as-%s/%s/after-%s" % (w.kind[n], role, name, k), obj=n, font=f)
        self.ghosts = ghosts
        inexact = set()
        for n, ctxs in reach.items():
            kind = w.kind[n]
            if len(ctxs) != 1 or kind not in ("component", "image"):
                continue
            ctx, o = ctxs[0], w.objs[n]
            f, layer = ctx.get("font"), w.objs.get(ctx.get("layer"))
            expected = set()
            if kind == "component" and o.baseGlyph is not None and layer is not None:
                target = layer._glyphs.get(o.baseGlyph)
                if target is not None:
                    expected = {(id(target), "Glyph.NameChanged"), (id(target), "Glyph.ContoursChanged"),
                                (id(target), "Glyph.ComponentsChanged"), (id(layer), "Layer.GlyphWillBeDeleted"),
                                (id(layer), "Layer.GlyphAdded"), (id(layer), "Layer.GlyphNameChanged")}
                else:
                    expected = {(id(layer), "Layer.GlyphNameChanged"), (id(layer), "Layer.GlyphAdded"),
                                (id(layer), "Layer.GlyphDeleted")}
            elif kind == "image" and layer is not None:
                images = w.objs[f]._images
                expected = {(id(images), "ImageSet.ImageAdded"), (id(images), "ImageSet.ImageDeleted"),
                            (id(images), "ImageSet.ImageChanged"), (id(layer), "Layer.ColorChanged")}
            actual = set()
            for (ff, observable, name) in by_observer.get(id(o), ()):
                if observable is o and name is None:
                    continue        # its observation of itself
                actual.add((None if observable is Ellipsis else id(observable), name))
                if ff != f:
                    self.report("cross-link-inexact", "%s/other-centre/after-%s" % (kind, k), obj=n, centre=ff)
            if actual != expected:
                def show(rows):
                    return sorted((str(w.ids.get(i, "sub")), nm) for (i, nm) in rows)
                key = (n, tuple(show(expected - actual)), tuple(show(actual - expected)))
                inexact.add(key)
                if key not in self.inexact:
                    self.report("cross-link-inexact", "%s/after-%s" % (kind, k), obj=n, missing=show(expected - actual),
                                extra=show(actual - expected))
        self.inexact = inexact
        # S5 --------------------------------------------------------------------------------
        alive = set(reach)
        for n in w.objs:
            if w.kind[n] == "glyph" and n not in self.dead and n not in listed:
                alive.add(n)        # stand-alone glyph
        for x, ps in listed.items():
            owners = [p for p in ps if p in alive]
            if len(owners) > 1:
                self.report("owned-twice", "%s/after-%s" % (w.kind[x], k), obj=x, containers=sorted(owners))
        # S4 --------------------------------------------------------------------------------
        if k == "insert" and failed and result != NOSUCH:
            p, x = op[1], op[2]
            if p in w.objs and x in w.objs:
                was_listed_alive = any(q == x and pp in self.alive_before for (pp, q) in before)
                already = (p, x) in before
                if not was_listed_alive and not already and all(a is None for a in self.acc_before.get(x, [None])):
                    self.report("reinsert-rejected", "%s/%s" % (w.kind[x], result[1]), obj=x, container=p)
        self.alive_before = alive
        self.acc_before = {n: w.accessors(n) for n in w.objs if w.kind[n] in CHILD_KINDS}
        # S3 --------------------------------------------------------------------------------
        if k == "mutate" and not failed and op[1] in w.objs:
            x = op[1]
            current = self.ancestors(now, x) | {x}
            legit = set(current)
            # a base glyph's change legitimately makes the glyphs that reference it post (component cross links)
            legit |= self.referencers(current)
            former = self.former.get(x, set()) - legit
            for f, log in w.last_log.items():
                for name, obj in log:
                    s = w.num(obj)
                    if s in former:
                        self.report("ghost-notification", "%s/former-%s" % (w.kind[x], w.kind[s]), obj=x, sender=s,
                                    notification=name)
                        break
            for p in former:
                if w.kind[p] in CONTAINER_KINDS and self.flags_before.get(p) is False and bool(w.objs[p].dirty):
                    self.report("ghost-dirty", "%s/former-%s" % (w.kind[x], w.kind[p]), obj=x, container=p)
            # S3b: whatever sends a notification is in a font
            for f, log in w.last_log.items():
                for name, obj in log:
                    sn = w.ids.get(id(obj))
                    if sn is not None and sn not in reach:
                        self.report("unreachable-sender", "%s/while-%s-changes" % (w.kind[sn], w.kind[x]), obj=x, sender=sn,
                                    notification=name)
                        break
        self.flags_before = w._flags()

    alive_before = frozenset()
    acc_before = {}
    flags_before = {}
    ghosts = frozenset()
    inexact = frozenset()

    def referencers(self, current):
        """glyphs that reference a glyph of `current` through components (transitively), with their ancestors"""
        w = self.w
        res = set()
        todo = [n for n in current if w.kind.get(n) == "glyph"]
        seen = set(todo)
        while todo:
            g = todo.pop()
            go = w.objs[g]
            layer = go.layer
            if layer is None:
                continue
            for n in w.objs:
                if w.kind[n] != "glyph" or n in seen:
                    continue
                o = w.objs[n]
                if o.layer is layer and any(c.baseGlyph == go.name for c in o._components):
                    seen.add(n)
                    todo.append(n)
                    res.add(n)
                    res |= self.ancestors(self.edges, n)
        return res


def replay_known(entry):
    """F48 is outside the generated domain (no operation addresses a font-less layer): its witness is replayed here"""
    if entry.get("signature") != "C11/removed-still-answers/glyph.layer/fontless-layer":
        return False
    from defcon import Font, Layer
    layer = Layer()
    g1 = layer.newGlyph("A")
    del layer["A"]
    font = Font()
    dead = font.newLayer("x")
    del font.layers["x"]
    g2 = dead.newGlyph("A")
    del dead["A"]
    keep = [layer, g1, font, dead, g2]
    return g1.layer is layer and g2.layer is dead and dead.layerSet is None and bool(keep)


def run_impl(case):
    w = World(case)
    orc = Oracle(w)
    outs = []
    stats = {}
    try:
        for op in case["ops"]:
            r = w.do(op)
            outs.append(r)
            orc.after(op, r)
            stats["op." + op[0]] = stats.get("op." + op[0], 0) + 1
            if isinstance(r, list) and r and r[0] == "err":
                stats["err." + str(r[1])] = stats.get("err." + str(r[1]), 0) + 1
        if case.get("scenario"):
            stats["scenario." + case["scenario"]] = 1
        if case.get("xlink"):
            stats["xlink_cases"] = 1
        if case.get("disk"):
            stats["disk_cases"] = 1
        stats["objects"] = len(w.objs)
        stats["removed_objects"] = len(orc.removed)
        stats["len"] = len(case["ops"])
    finally:
        w.close()
    flav = set(op[0] for op in case["ops"])
    nontrivial = bool(orc.removed) and "mutate" in flav and bool(flav & {"insert", "insertGlyph", "newGlyph"})
    return dict(out=outs, viol=orc.viol, info=dict(nontrivial=nontrivial, stats=stats))
