"""C14 - serialize then deserialize reproduces any object.

Correspondence of M-Serial (lean/DefconModel/Serial.lean) with defcon's
getDataForSerialization / serialize / setDataFromSerialization / deserialize of all 16 object kinds,
plus a direct oracle on the rebuilt object: equal observable data (public getters), parent accessors,
change propagation (mutate every node of the rebuilt tree; every ancestor must become dirty and post its
*.Changed), identifier registries, and the cross-tree relays (component <- base glyph, image <- image set,
glyph order <- new glyph).

A case = a generated font (built through the public API, optionally saved and re-opened so that glyphs are
lazily / shallowly loaded, optionally edited further) + the object picked from it + operations:
  ["roundtrip", "dict"|"pickle", "alone"|"infont"]   data dictionary or pickled form -> NEW object of the kind
  ["roundtrip", form, target, {"before": bool, "during": [k, ...]}]
                                                      ... a new object that somebody LOOKS AT: `before` = the derived,
                                                      lazily built public data of the new object are read before the data
                                                      are fed (unicode data, references, bounds, keys ... of the still
                                                      empty object, as a glyph overview does as soon as a layer exists);
                                                      `during` = an observer on the target's notification centre reads
                                                      them while the data come in (at the k-th announcement of each
                                                      kind per object, e.g. the k-th Layer.GlyphAdded of a layer)
  ["keys", whitelist, blacklist]                      keys of the data dictionary
  ["partial", whitelist, blacklist]                   filtered data -> new object
"""
import atexit
import hashlib
import json
import os
import pickle
import shutil
import tempfile

from sexp import Atom
import sexp

from props.c14_extract import extract, KINDS  # noqa: F401  (extract is picked up by vcheck)

MODEL = "serial"
SHRINKABLE = True
RULE = ("generated fonts (1-3 layers, 0-5 glyphs each with contours/components/anchors/guidelines/image/libs built in two API "
        "styles, info, kerning, groups, features, libs, temp libs, font guidelines, images, data; built by API, or saved as "
        "UFO 3 / UFO 2 / zipped UFO 3 and re-opened with unread / partly read / fully read glyphs and unread images/data, some with an image "
        "file named by another tool; then optionally edited: delete/rename/replace glyphs, clear/reverse contours, remove "
        "anchors/components/guidelines, delete layers/images/data, change default layer ...) x picked object of each of the "
        "16 kinds x {data dict, pickle} x {new parent-less object, new object inside a font} x {nobody looks at the new object, "
        "its derived / lazily built public data are read before the data are fed, an observer of every notification of the "
        "target's notification centre reads them at the k-th announcement per name and object while the data come in, both} "
        "+ keys/partial ops with whitelist/blacklist; the original is serialized untouched (the model's input is taken from an identically made "
        "twin); non-trivial = the picked object has content beyond a fresh object's; distinct = distinct case descriptions")
ASSUMPTIONS = [
    "defcon with repo_fixes/C14-*.diff applied (font guideline identifiers = F22, Layer.GlyphAdded on rebuild, image-set file "
    "names, C14-r2-1: an outline fed in the shallow form is announced)",
    "identifiers in use inside one glyph / among the font guidelines are unique (C10's invariant); otherwise the rebuild "
    "raises AssertionError, which the model reproduces (theorem glyph_rebuild_rejects_duplicate_identifiers)",
    "objects are edited through their attribute API: an Image keeps its eight entries (theorem "
    "image_entries_hypothesis_needed shows what happens otherwise), colours are in Color()'s normal form, Info values "
    "passed ufoLib's validator (every way in goes through the same setter)",
    "the target is a NEW object of the kind (parent-less; for glyph and layer also freshly made inside a new font; for a "
    "layer set: font.instantiateLayerSet() of a new font, because a LayerSet without a font cannot hold glyphs at all); "
    "feeding data to an object that already has content is not part of the property and not exercised; a new object that "
    "has been looked at (getters called, nothing set) is still a new object",
    "derived public data (unicodeData, component / image references, font.keys(), stored representations) are judged against "
    "the rebuilt object's own plain data, which are judged against the original's: a unicode map that the ORIGINAL got wrong "
    "(C09's subject) is not charged to the round trip; the order of glyph names inside one code point is history, not data",
    "the looking observer reads, it never writes, and it reads nothing that loads a glyph's contours (bounds, area: read before "
    "and after only), so that the load state of the rebuilt glyphs stays what the data dictionary says",
    "a layer's name and a glyph's name are owned by the container (layer set tuple / layer dict key): a parent-less "
    "Layer rebuilt from layer data has no name (names are compared at layer-set and font level)",
    "Lib.getParent() is not judged (it answers whichever ancestor happens to be cached, in any font); the lib's "
    "font/layerSet/layer/glyph accessors are",
    "independence (no shared mutable values between original and rebuilt object via the un-pickled data dict) is not "
    "claimed by the property and not checked",
    "path, ufoFileStructure, dirty flags, representations, undo managers, load state stamps are not part of the "
    "serialized state (the property's font-level enumeration does not list them)",
    "component graphs are acyclic",
]
TRUSTED = ["the canonical text of leaf Python values (harness cv(): ints and integral floats coincide, as Python's == "
           "does); pickle itself; UFOs for the re-opened variants are written by defcon's own Font.save; two fonts made by the "
           "same deterministic procedure are in the same state (original / twin)"]

PNG = b"\x89PNG\r\n\x1a\n"
# scratch UFOs: a memory file system when there is one (an order of magnitude faster than /tmp here)
_TMPROOT = "/dev/shm" if os.path.isdir("/dev/shm") and os.access("/dev/shm", os.W_OK) else None

# ---------------------------------------------------------------------------------------
# canonical text of leaf values
# ---------------------------------------------------------------------------------------


def _asc(s):
    return s.encode("unicode_escape").decode("ascii")


def cv(x):
    if x is None:
        return "None"
    if isinstance(x, bool):
        return "True" if x else "False"
    if isinstance(x, int):
        return str(int(x))
    if isinstance(x, float):
        if x == x and x not in (float("inf"), float("-inf")) and x == int(x):
            return str(int(x))
        return repr(x)
    if isinstance(x, str):
        return "s:" + _asc(str(x))
    if isinstance(x, (bytes, bytearray)):
        return "b:" + bytes(x).hex()
    if isinstance(x, tuple):
        return "(" + ", ".join(cv(i) for i in x) + ")"
    if isinstance(x, list):
        return "[" + ", ".join(cv(i) for i in x) + "]"
    if isinstance(x, dict):
        return "{" + ", ".join(sorted("%s: %s" % (cv(k), cv(v)) for k, v in x.items())) + "}"
    if isinstance(x, (set, frozenset)):
        return "set{" + ", ".join(sorted(cv(i) for i in x)) + "}"
    return "r:" + _asc(repr(x))


def ck(k):
    """dictionary key as path component"""
    return _asc(k) if isinstance(k, str) else cv(k)


# ---------------------------------------------------------------------------------------
# generation
# ---------------------------------------------------------------------------------------

GLYPH_NAMES = ["A", "B", "C", "a.alt", "f_i", "space", ".notdef", "Aacute"]
BASES = ["A", "B", "C", "space"]
COMPOSITES = ["a.alt", "f_i", ".notdef", "Aacute"]
LAYER_NAMES = ["public.default", "background", "Layer 2", "sketches"]
COLORS = ["1,0,0,1", "0,0.5,1,0.25", "0.3,0.3,0.3,1", "0,0,0,0"]
SEGS = ["line", "curve", "qcurve", None, "move"]
INFO_VALUES = {
    "familyName": ["Fam", "Fäm 日", ""],
    "styleName": ["Bold", "Regular"],
    "unitsPerEm": [1000, 2048, 1000.5],
    "ascender": [750, 800.25, -3],
    "descender": [-250, 0],
    "italicAngle": [-12.5, 0, 9],
    "versionMajor": [1, 0],
    "versionMinor": [0, 17],
    "note": ["a note\nwith lines", "x"],
    "copyright": ["(c) ©"],
    "openTypeOS2Panose": [[0] * 10, [2, 0, 5, 3, 6, 0, 0, 2, 0, 4]],
    "openTypeOS2Type": [[], [2], [1, 8]],
    "postscriptBlueValues": [[-10, 0, 500, 510], [0, 10]],
    "postscriptStemSnapH": [[80, 90]],
    "openTypeHeadCreated": ["2020/01/31 12:30:59"],
    "openTypeNameRecords": [[dict(nameID=1, platformID=1, encodingID=0, languageID=0, string="rec")]],
    "openTypeGaspRangeRecords": [[dict(rangeMaxPPEM=8, rangeGaspBehavior=[0, 1])]],
    "openTypeOS2WeightClass": [400, 700],
    "postscriptIsFixedPitch": [True, False],
    "woffMajorVersion": [1],
    "macintoshFONDName": ["fond"],
    "openTypeOS2UnicodeRanges": [[0, 1, 38]],
    "year": [2024],
}


def g_num(rng):
    r = rng.random()
    if r < 0.7:
        return rng.randint(-200, 800)
    if r < 0.9:
        return rng.randint(-800, 1600) / 4.0
    return float(rng.randint(-5, 5))


def g_libval(rng, depth=0, plist=True):
    r = rng.random()
    if r < 0.25:
        return rng.randint(-5, 99)
    if r < 0.4:
        return rng.choice(["v", "", "two words", "ü中", "line1\nline2", "None"])
    if r < 0.5:
        return rng.choice([True, False])
    if r < 0.6:
        return rng.randint(-40, 40) / 8.0
    if r < 0.7 and depth < 2:
        return [g_libval(rng, depth + 1, plist) for _ in range(rng.randint(0, 3))]
    if r < 0.8 and depth < 2:
        return {rng.choice(["k", "a.b", "z"]): g_libval(rng, depth + 1, plist) for _ in range(rng.randint(0, 2))}
    if r < 0.85:
        return {"__bytes__": "0001627974"}
    if not plist and r < 0.95:
        return rng.choice([None, {"__tuple__": [1, 2]}, {"__tuple__": []}, {"t": {"__tuple__": [1, "x"]}}])
    return rng.randint(0, 3)


def dec(v):
    """case descriptions are JSON: bytes and tuples inside lib values are written as tagged dicts"""
    if isinstance(v, dict):
        if set(v) == {"__bytes__"}:
            return bytes.fromhex(v["__bytes__"])
        if set(v) == {"__tuple__"}:
            return tuple(dec(i) for i in v["__tuple__"])
        return {k: dec(i) for k, i in v.items()}
    if isinstance(v, list):
        return [dec(i) for i in v]
    return v


def g_lib(rng, plist=True, p_empty=0.4):
    if rng.random() < p_empty:
        return {}
    keys = rng.sample(["com.a.one", "com.b.two", "public.markColor", "org.x.list", "kéy", "public.verticalOrigin"],
                      rng.randint(1, 3))
    d = {}
    for k in keys:
        if k == "public.markColor":
            d[k] = rng.choice(COLORS)
        elif k == "public.verticalOrigin":
            d[k] = rng.randint(0, 900)
        else:
            d[k] = g_libval(rng, 0, plist)
    return d


class IdPool(object):
    def __init__(self, rng, prefix):
        self.rng, self.n, self.prefix = rng, 0, prefix

    def maybe(self, p=0.4):
        if self.rng.random() < p:
            self.n += 1
            return self.rng.choice(["%s%d", "%s.%d x", "%s-%d_~"]) % (self.prefix, self.n)
        return None


def g_contour(rng, ids, wild=False):
    """a structurally valid contour (GLIF rules) unless `wild` (API-built fonts only)"""
    pts = []
    if wild:
        for i in range(rng.choice([0, 1, 2, 3, 5])):
            seg = rng.choice(["line", "curve", "qcurve", None, None, "move"])
            pts.append([g_num(rng), g_num(rng), seg, rng.random() < 0.3, rng.choice([None, "pt", ""]), ids.maybe(0.25)])
        return dict(id=ids.maybe(0.35), points=pts)
    nseg = rng.choice([0, 1, 2, 3, 3, 4])
    open_ = nseg > 0 and rng.random() < 0.25

    def pt(seg):
        smooth = seg is not None and seg != "move" and rng.random() < 0.3
        name = rng.choice([None, None, None, "pt", "n\u00e4me"])
        pts.append([g_num(rng), g_num(rng), seg, smooth, name, ids.maybe(0.25)])
    if open_:
        pt("move")
    for i in range(nseg):
        kind = rng.choice(["line", "line", "curve", "qcurve"])
        if kind == "curve":
            pt(None)
            pt(None)
        elif kind == "qcurve":
            for _ in range(rng.randint(1, 3)):
                pt(None)
        pt(kind)
    if nseg == 0 and rng.random() < 0.5:
        # a contour of off-curve points only (a closed quadratic blob) is legal
        for _ in range(rng.randint(1, 3)):
            pt(None)
    return dict(id=ids.maybe(0.35), points=pts)


def g_guideline(rng, ids):
    form = rng.random()
    if form < 0.35:
        d = dict(x=g_num(rng), y=None, angle=None)
    elif form < 0.7:
        d = dict(x=None, y=g_num(rng), angle=None)
    else:
        d = dict(x=g_num(rng), y=g_num(rng), angle=rng.choice([0, 45, 90.5, 359]))
    d["name"] = rng.choice([None, "guide", "g 2"])
    d["color"] = rng.choice([None, None] + COLORS)
    d["identifier"] = ids.maybe(0.5)
    return d


def g_glyph(rng, name, all_names, wild=False):
    ids = IdPool(rng, "i")
    g = dict(name=name, style=rng.choice([0, 0, 1]))
    g["unicodes"] = rng.choice([[], [], [65], [0xE9], [66, 0x1F600], [97, 65]])
    g["width"] = rng.choice([0, 500, 612.5, -20])
    g["height"] = rng.choice([0, 0, 1000, 750.5])
    g["note"] = rng.choice([None, None, "note", "nöte\n2"])
    g["lib"] = g_lib(rng)
    g["tempLib"] = g_lib(rng, plist=False, p_empty=0.6)
    g["contours"] = [g_contour(rng, ids, wild and rng.random() < 0.5) for _ in range(rng.choice([0, 0, 1, 1, 2, 3]))]
    comps = []
    if name in COMPOSITES and rng.random() < 0.7:
        for _ in range(rng.randint(1, 2)):
            base = rng.choice(BASES + ["missing"])
            tr = rng.choice([(1, 0, 0, 1, 0, 0), (1, 0, 0, 1, 10, -20), (0.5, 0, 0, 0.5, 0, 0), (1, 0.25, -0.25, 1, 3.5, 0)])
            comps.append([base, list(tr), ids.maybe(0.4)])
    g["components"] = comps
    g["anchors"] = [dict(x=g_num(rng), y=g_num(rng), name=rng.choice([None, "top", "bottom", "_top"]),
                         color=rng.choice([None, None] + COLORS), identifier=ids.maybe(0.4))
                    for _ in range(rng.choice([0, 0, 1, 2]))]
    g["guidelines"] = [g_guideline(rng, ids) for _ in range(rng.choice([0, 0, 0, 1, 2]))]
    if rng.random() < 0.35:
        g["image"] = dict(fileName=rng.choice(["img1.png", "b c.png", "nofile.png"]),
                          xScale=rng.choice([1, 0.5]), xyScale=0, yxScale=rng.choice([0, 0.25]), yScale=rng.choice([1, 2]),
                          xOffset=g_num(rng), yOffset=g_num(rng), color=rng.choice([None] + COLORS))
    else:
        g["image"] = None
    return g


def g_font(rng, size, wild=False):
    f = {}
    nl = rng.choice([1, 1, 2, 2, 3]) if size > 0 else 1
    names = ["public.default"] + rng.sample(LAYER_NAMES[1:], nl - 1)
    default = rng.choice(names) if rng.random() < 0.3 else names[0]
    if rng.random() < 0.2 or default != names[0]:
        # UFO: a layer named public.default must be the default layer
        names[0] = "foreground"
        if default == "public.default":
            default = "foreground"
    layers = []
    for ln in names:
        gn = rng.sample(GLYPH_NAMES, rng.randint(0, min(5, 1 + 2 * size)))
        layers.append(dict(name=ln, color=rng.choice([None, None] + COLORS), lib=g_lib(rng, p_empty=0.6),
                           tempLib=g_lib(rng, plist=False, p_empty=0.7),
                           glyphs=[g_glyph(rng, n, gn, wild) for n in gn]))
    f["layers"] = layers
    f["default"] = default
    order = list(names)
    if rng.random() < 0.4:
        rng.shuffle(order)
    f["order"] = order
    f["info"] = {k: rng.choice(v) for k, v in INFO_VALUES.items() if rng.random() < 0.18}
    f["kerning"] = [[rng.choice(["A", "B", "public.kern1.A"]), rng.choice(["A", "C", "public.kern2.C"]), rng.choice([-50, 10, 12.5, 0])]
                    for _ in range(rng.choice([0, 0, 1, 3]))]
    f["groups"] = {k: rng.sample(GLYPH_NAMES, rng.randint(0, 3))
                   for k in rng.sample(["public.kern1.A", "public.kern2.C", "vowels", "empty"], rng.choice([0, 0, 1, 2]))}
    f["features"] = rng.choice([None, None, "", "feature kern {\n  pos A B -10;\n} kern;\n", "# ü\nlanguagesystem DFLT dflt;"])
    f["lib"] = g_lib(rng)
    f["tempLib"] = g_lib(rng, plist=False, p_empty=0.5)
    ids = IdPool(rng, "F")
    f["guidelines"] = [g_guideline(rng, ids) for _ in range(rng.choice([0, 0, 1, 2, 3]))]
    f["images"] = {n: (PNG + bytes(rng.randrange(256) for _ in range(rng.randint(0, 6)))).hex()
                   for n in rng.sample(["img1.png", "b c.png", "third.png"], rng.choice([0, 0, 1, 2]))}
    f["data"] = {n: bytes(rng.randrange(256) for _ in range(rng.randint(0, 5))).hex()
                 for n in rng.sample(["a.txt", "dir/b.bin", "dir/sub/c", "com.x.y/z.plist"], rng.choice([0, 0, 1, 2]))}
    f["glyphOrder"] = rng.choice([None, None, None, ["B", "A", "ghost"], []])
    f["maps"] = rng.choice([None, None, None, dict(side1={"oldA": "public.kern1.A"}, side2={})])
    return f


HISTORY_OPS = ["delGlyph", "renameGlyph", "clearContours", "reverseContour", "removeAnchor", "delLibKey", "newOver",
               "delLayer", "setDefault", "removeFontGuideline", "delImage", "delData", "clearKerning", "infoNone",
               "appendPoint", "removeComponent", "clearGlyphImage", "setUnicodes", "contourClear"]


def g_look(rng):
    """who looks at the new object, and when (None: nobody - the plain round trip)"""
    if rng.random() < 0.5:
        return None
    before = rng.random() < 0.6
    during = []
    if rng.random() < 0.6:
        during = rng.choice([[1], [1, 2, 3, 4, 5], [2], [rng.randint(1, 5)], [1, 3], [2, 4]])
    if not before and not during:
        before = True
    return dict(before=before, during=sorted(during))


def g_case(rng, tier, kind=None):
    size = rng.choice([0, 1, 1, 2, 2])
    via = rng.choice(["api", "api", "api", "api", "ufo3", "ufo3", "ufo3", "ufo2", "ufoz"])
    font = g_font(rng, size, wild=(via == "api" and rng.random() < 0.3))
    case = dict(font=font, via=via)
    all_glyphs = sorted({g["name"] for l in font["layers"] for g in l["glyphs"]})
    case["preread"] = [n for n in all_glyphs if rng.random() < 0.3] if via != "api" else []
    if via != "api" and rng.random() < 0.25:
        case["preread"] = list(all_glyphs)
    if via == "ufo3" and font["images"] and rng.random() < 0.5:
        case["odd_image_name"] = True
    case["history"] = [[rng.choice(HISTORY_OPS), rng.randrange(1000)] for _ in range(rng.choice([0, 0, 0, 1, 2, 4]))]
    if kind is None:
        kind = rng.choice([k for k, _, _ in KINDS] + ["font", "font", "glyph", "glyph", "layer"])
    case["pick"] = dict(kind=kind, a=rng.randrange(1000), b=rng.randrange(1000), c=rng.randrange(1000))
    ops = [["roundtrip", "dict", "alone"], ["roundtrip", "pickle", "alone"]]
    if kind in ("glyph", "layer"):
        ops.append(["roundtrip", rng.choice(["dict", "pickle"]), "infont"])
    for op in ops:
        look = g_look(rng)
        if look is not None:
            op.append(look)
    keys = [k for k in ("name", "width", "lib", "tempLib", "image", "_contours", "_shallowLoadedContours", "anchors", "layers",
                        "glyphs", "color", "info", "kerning", "guidelines", "text", "pen", "baseGlyph", "identifier",
                        "x", "familyName", "com.a.one", "a.txt", "img1.png", "unknown")]
    if rng.random() < 0.5:
        wl = rng.sample(keys, rng.randint(0, 4)) if rng.random() < 0.5 else None
        bl = rng.sample(keys, rng.randint(0, 3)) if rng.random() < 0.6 else None
        ops.append(["keys", wl, bl])
        if kind in ("component", "features", "lib", "kerning", "groups", "anchor", "guideline", "image", "info", "dataSet"):
            ops.append(["partial", wl, bl])
    case["ops"] = ops
    return case


def generate(rng, tier):
    n = 1000 if tier == "quick" else 20000
    kinds = [k for k, _, _ in KINDS]
    for i in range(n):
        # every kind is hit regularly; the rest is drawn at random (fonts and glyphs more often)
        yield g_case(rng, tier, kind=kinds[i % len(kinds)] if i % 3 == 0 else None)


def neighbourhood(case, step, rng):
    """variants around a diverging case: the same font with every kind picked, both forms, both targets"""
    for k, _, _ in KINDS:
        for a in range(3):
            c = json.loads(json.dumps(case))
            c["pick"] = dict(kind=k, a=a, b=a, c=a)
            ops = [["roundtrip", "dict", "alone"], ["roundtrip", "pickle", "alone"]]
            if k in ("glyph", "layer"):
                ops.append(["roundtrip", "dict", "infont"])
            c["ops"] = ops
            yield c
            if k in ("font", "layerSet", "layer", "glyph", "groups"):
                # ... and with somebody looking at the new object before / while the data come in
                for look in (dict(before=True, during=[]), dict(before=False, during=[1]), dict(before=True, during=[1, 2, 3])):
                    c2 = json.loads(json.dumps(c))
                    c2["ops"] = [op + [look] for op in ops]
                    yield c2
    for via in ("api", "ufo3", "ufo2", "ufoz"):
        c = json.loads(json.dumps(case))
        c["via"] = via
        c["pick"] = dict(kind="font", a=0, b=0, c=0)
        c["ops"] = [["roundtrip", "dict", "alone"], ["roundtrip", "pickle", "alone"]]
        yield c


def search(rng, tier, broken):
    """directed search when a table obligation / the extractor broke: every kind on fresh generated fonts"""
    n = 150 if tier == "quick" else 1500
    kinds = [k for k, _, _ in KINDS]
    for i in range(n):
        yield g_case(rng, tier, kind=kinds[i % len(kinds)])


# ---------------------------------------------------------------------------------------
# building the original through the public API
# ---------------------------------------------------------------------------------------

def _fill_glyph(g, d):
    """two API styles (d["style"]): dictionaries / pens, or objects built attribute by attribute and inserted"""
    from defcon.objects.contour import Contour
    from defcon.objects.component import Component
    from defcon.objects.anchor import Anchor
    from defcon.objects.guideline import Guideline
    from defcon.objects.point import Point
    objs = d.get("style", 0) == 1
    g.unicodes = list(d["unicodes"])
    g.width = d["width"]
    g.height = d["height"]
    g.note = d["note"]
    if d["lib"]:
        if objs:
            for k, v in dec(d["lib"]).items():
                g.lib[k] = v
        else:
            g.lib.update(dec(d["lib"]))
    if d["tempLib"]:
        g.tempLib.update(dec(d["tempLib"]))
    pen = g.getPointPen()
    for c in d["contours"]:
        if objs:
            ct = Contour()
            ct.identifier = c["id"]
            for (x, y, seg, smooth, name, ident) in c["points"]:
                ct.appendPoint(Point((x, y), segmentType=seg, smooth=smooth, name=name, identifier=ident))
            g.appendContour(ct)
        else:
            pen.beginPath(identifier=c["id"])
            for (x, y, seg, smooth, name, ident) in c["points"]:
                pen.addPoint((x, y), segmentType=seg, smooth=smooth, name=name, identifier=ident)
            pen.endPath()
    for base, tr, ident in d["components"]:
        if objs:
            cp = Component()
            cp.baseGlyph = base
            cp.transformation = tuple(tr)
            cp.identifier = ident
            g.appendComponent(cp)
        else:
            pen.addComponent(base, tuple(tr), identifier=ident)
    for a in d["anchors"]:
        if objs:
            an = Anchor()
            an.x, an.y, an.name, an.color, an.identifier = a["x"], a["y"], a["name"], a["color"], a["identifier"]
            g.appendAnchor(an)
        else:
            g.appendAnchor(dict(a))
    for gl in d["guidelines"]:
        if objs:
            gu = Guideline()
            gu.x, gu.y, gu.angle, gu.name, gu.color, gu.identifier = (gl["x"], gl["y"], gl["angle"], gl["name"], gl["color"],
                                                                       gl["identifier"])
            g.appendGuideline(gu)
        else:
            g.appendGuideline(dict(gl))
    if d["image"] is not None:
        im = d["image"]
        if objs:
            img = g.image
            img.fileName = im["fileName"]
            img.transformation = (im["xScale"], im["xyScale"], im["yxScale"], im["yScale"], im["xOffset"], im["yOffset"])
            img.color = im["color"]
        else:
            g.image = dict(im)


def build_font(fd):
    from defcon import Font
    f = Font()
    first = fd["layers"][0]["name"]
    if first != "public.default":
        f.layers["public.default"].name = first
    for ld in fd["layers"]:
        layer = f.layers[ld["name"]] if ld["name"] in f.layers else f.newLayer(ld["name"])
        layer.color = ld["color"]
        if ld["lib"]:
            layer.lib.update(dec(ld["lib"]))
        if ld["tempLib"]:
            layer.tempLib.update(dec(ld["tempLib"]))
        # bases first so that components find them; the rest in the described order
        for gd in sorted(ld["glyphs"], key=lambda g: g["name"] not in BASES):
            _fill_glyph(layer.newGlyph(gd["name"]), gd)
    f.layers.defaultLayer = f.layers[fd["default"]]
    f.layers.layerOrder = list(fd["order"])
    for k, v in fd["info"].items():
        setattr(f.info, k, v)
    for a, b, v in fd["kerning"]:
        f.kerning[(a, b)] = v
    for k, v in fd["groups"].items():
        f.groups[k] = list(v)
    f.features.text = fd["features"]
    if fd["lib"]:
        f.lib.update(dec(fd["lib"]))
    if fd["tempLib"]:
        f.tempLib.update(dec(fd["tempLib"]))
    for gl in fd["guidelines"]:
        f.appendGuideline(dict(gl))
    for n, hx in fd["images"].items():
        f.images[n] = bytes.fromhex(hx)
    for n, hx in fd["data"].items():
        f.data[n] = bytes.fromhex(hx)
    if fd["glyphOrder"] is not None:
        f.glyphOrder = list(fd["glyphOrder"])
    if fd["maps"] is not None:
        f.kerningGroupConversionRenameMaps = fd["maps"]
    return f


def _plistable(v):
    if v is None or isinstance(v, tuple):
        return False
    if isinstance(v, list):
        return all(_plistable(i) for i in v)
    if isinstance(v, dict):
        return all(isinstance(k, str) and _plistable(i) for k, i in v.items())
    return True


def apply_history(f, history):
    """a few edits through the public API after the font exists (every failure of an edit is simply skipped:
    the property is about whatever content results)"""
    for op, r in history:
        try:
            layers = list(f.layers)
            layer = layers[r % len(layers)]
            names = sorted(layer.keys())
            glyph = layer[names[r % len(names)]] if names else None
            if op == "delGlyph" and glyph is not None:
                # keep the component graph well-founded: never delete a glyph others are built on
                if glyph.name not in layer.componentReferences:
                    del layer[glyph.name]
            elif op == "renameGlyph" and glyph is not None and glyph.name not in layer.componentReferences:
                new = "renamed%d" % (r % 3)
                if new not in layer:
                    glyph.name = new
            elif op == "clearContours" and glyph is not None:
                glyph.clearContours()
            elif op == "reverseContour" and glyph is not None and len(glyph):
                glyph[r % len(glyph)].reverse()
            elif op == "contourClear" and glyph is not None and len(glyph):
                glyph[r % len(glyph)].clear()
            elif op == "appendPoint" and glyph is not None and len(glyph):
                glyph[r % len(glyph)].addPoint((r % 50, 7), segmentType="line", name="added")
            elif op == "removeAnchor" and glyph is not None and glyph.anchors:
                glyph.removeAnchor(glyph.anchors[r % len(glyph.anchors)])
            elif op == "removeComponent" and glyph is not None and glyph.components:
                glyph.removeComponent(glyph.components[r % len(glyph.components)])
            elif op == "clearGlyphImage" and glyph is not None:
                glyph.clearImage()
            elif op == "setUnicodes" and glyph is not None:
                glyph.unicodes = [r % 200 + 32, 65]
            elif op == "delLibKey":
                for k in sorted(f.lib.keys())[:1]:
                    if k != "public.glyphOrder":
                        del f.lib[k]
            elif op == "newOver" and glyph is not None and glyph.name not in layer.componentReferences:
                layer.newGlyph(glyph.name).width = 77
            elif op == "delLayer" and len(layers) > 1 and layer is not f.layers.defaultLayer:
                del f.layers[layer.name]
            elif op == "setDefault":
                f.layers.defaultLayer = layer
            elif op == "removeFontGuideline" and f.guidelines:
                f.removeGuideline(f.guidelines[r % len(f.guidelines)])
            elif op == "delImage" and f.images.fileNames:
                del f.images[sorted(f.images.fileNames)[r % len(f.images.fileNames)]]
            elif op == "delData" and f.data.fileNames:
                del f.data[sorted(f.data.fileNames)[r % len(f.data.fileNames)]]
            elif op == "clearKerning":
                f.kerning.clear()
            elif op == "infoNone":
                f.info.familyName = None
                f.info.postscriptBlueValues = None
        except Exception:
            pass


def reduce_for_ufo2(fd):
    """UFO 2 / GLIF 1 cannot express identifiers and guidelines: take them out of the description"""
    fd = json.loads(json.dumps(fd))
    for ld in fd["layers"]:
        for g in ld["glyphs"]:
            g["guidelines"] = []
            for c in g["contours"]:
                c["id"] = None
                for pt in c["points"]:
                    pt[5] = None
            for c in g["components"]:
                c[2] = None
            for a in g["anchors"]:
                a["identifier"] = None
                a["color"] = None
            g["image"] = None
    fd["guidelines"] = []
    return fd


def _readable(path):
    """every glyph of the UFO at `path` can be read back"""
    from defcon import Font
    try:
        f = Font(path)
        for layer in f.layers:
            for n in layer.keys():
                len(layer[n])
        f.info.familyName, f.kerning, f.groups, f.lib, f.features.text
        f.close()
        return None
    except Exception as e:
        return "%s: %s" % (type(e).__name__, e)


class Built(object):
    """the original font (kept alive together with everything derived from it)"""

    def __init__(self, case):
        self.case = case
        self.tmp = None
        self.keep = []
        self.save_error = None
        self.odd_image = False
        fd = case["font"]
        via = case["via"]
        if via == "ufo2":
            fd = reduce_for_ufo2(fd)
        f = build_font(fd)
        if via != "api":
            self.tmp = tempfile.mkdtemp(prefix="c14_", dir=_TMPROOT)
            path = os.path.join(self.tmp, "f.ufoz" if via == "ufoz" else "f.ufo")
            # what cannot be written to a UFO is taken out first (temp libs are re-applied after re-opening)
            for lib in [f.lib] + [l.lib for l in f.layers] + [g.lib for l in f.layers for g in l]:
                for k in list(lib.keys()):
                    if not _plistable(lib[k]):
                        del lib[k]
            self.keep.append(f)
            try:
                if via == "ufoz":
                    f.save(path, formatVersion=3, structure="zip")
                else:
                    f.save(path, formatVersion=3 if via == "ufo3" else 2)
                saved = True
            except Exception as e:
                saved = False
                self.save_error = "%s: %s" % (type(e).__name__, e)
            if saved and case.get("odd_image_name"):
                # a UFO written by another tool: an image file whose name defcon itself would not have chosen
                imgdir = os.path.join(path, "images")
                names = sorted(os.listdir(imgdir)) if os.path.isdir(imgdir) else []
                if names:
                    os.rename(os.path.join(imgdir, names[0]), os.path.join(imgdir, "Odd Name.png"))
                    self.odd_image = True
            if saved:
                self.save_error = _readable(path)
                saved = self.save_error is None
            self.font = self._open(path if saved else None, fd, case)
            self.twin = self._open(path if saved else None, fd, case)
        else:
            apply_history(f, case.get("history", []))
            self.font = f
            self.twin = self._open(None, fd, case)

    @staticmethod
    def _open(path, fd, case):
        """one instance of the original: opened from the saved UFO (or built again through the API), pre-read as the
        case says, temp libs applied, then edited.  Two instances made this way are in the same state, including
        which glyphs are loaded and how: the harness describes the original to the model from the TWIN, so that
        the original itself is untouched when it is serialized."""
        from defcon import Font
        f = Font(path) if path is not None else build_font(fd)
        if path is not None:
            for n in case.get("preread", []):
                for layer in f.layers:
                    if n in layer:
                        len(layer[n])      # full load of the contours
            # temp libs do not live in the UFO
            if fd["tempLib"]:
                f.tempLib.update(dec(fd["tempLib"]))
            for ld in fd["layers"]:
                if ld["name"] in f.layers and ld["tempLib"]:
                    f.layers[ld["name"]].tempLib.update(dec(ld["tempLib"]))
        apply_history(f, case.get("history", []))
        return f

    def close(self):
        for f in (self.font, self.twin):
            try:
                f.close()
            except Exception:
                pass
        if self.tmp:
            shutil.rmtree(self.tmp, ignore_errors=True)


def pick_object(font, pick):
    """(kind, object) - falls back to a fresh parent-less object when the font has none of that kind"""
    import defcon
    kind, a, b, c = pick["kind"], pick["a"], pick["b"], pick["c"]
    layers = list(font.layers)
    layer = layers[a % len(layers)]
    names = sorted(layer.keys())
    glyph = layer[names[b % len(names)]] if names else None
    if kind == "font":
        return font
    if kind == "layerSet":
        return font.layers
    if kind == "layer":
        return layer
    if kind == "glyph":
        if glyph is None:
            glyph = defcon.Glyph()
            glyph.name = "fallback"
        return glyph
    if kind == "info":
        return font.info
    if kind == "features":
        return font.features
    if kind == "kerning":
        return font.kerning
    if kind == "groups":
        return font.groups
    if kind == "imageSet":
        return font.images
    if kind == "dataSet":
        return font.data
    if kind == "lib":
        cands = [font.lib, font.tempLib, layer.lib, layer.tempLib] + ([glyph.lib, glyph.tempLib] if glyph is not None else [])
        return cands[c % len(cands)]
    if kind == "guideline":
        cands = list(font.guidelines) + [g for l in layers for n in sorted(l.keys()) for g in l[n].guidelines]
        return cands[c % len(cands)] if cands else defcon.Guideline()
    # glyph-level kinds: look through all glyphs for one that has such a child
    glyphs = [l[n] for l in layers for n in sorted(l.keys())]
    if kind == "contour":
        cands = [ct for g in glyphs for ct in g]
        return cands[c % len(cands)] if cands else defcon.Contour()
    if kind == "component":
        cands = [x for g in glyphs for x in g.components]
        return cands[c % len(cands)] if cands else defcon.Component()
    if kind == "anchor":
        cands = [x for g in glyphs for x in g.anchors]
        return cands[c % len(cands)] if cands else defcon.Anchor()
    if kind == "image":
        cands = [g.image for g in glyphs]
        return cands[c % len(cands)] if cands else defcon.Image()
    raise ValueError(kind)


# ---------------------------------------------------------------------------------------
# real object -> model input (structured) and facts
# ---------------------------------------------------------------------------------------

ANCHOR_ATTRS = ["x", "y", "name", "color", "identifier"]
GUIDELINE_ATTRS = ["x", "y", "angle", "name", "color", "identifier"]
IMAGE_ATTRS = ["fileName", "xScale", "xyScale", "yxScale", "yScale", "xOffset", "yOffset", "color"]


def s_dict(d):
    return [[ck(k), cv(v)] for k, v in d.items()]


def pens_of(glyph):
    """the point-pen stream of the contours, without forcing the full load"""
    from defcon.objects.contour import Recorder
    rec = []
    shallow = glyph._shallowLoadedContours
    if shallow is not None:
        glyph._drawShallowLoadedContours(Recorder(rec), shallow)
    else:
        for c in glyph._contours:
            c.drawPoints(Recorder(rec))
    pens = []
    for cmd, args, kw in rec:
        if cmd == "beginPath":
            pens.append([cv(kw.get("identifier")), []])
        elif cmd == "addPoint":
            (x, y) = args[0]
            pens[-1][1].append([cv(x), cv(y), cv(kw.get("segmentType")), cv(kw.get("smooth", False)), cv(kw.get("name")),
                                cv(kw.get("identifier"))])
    return pens


def s_pen_of_contour(c):
    return [cv(c.identifier), [[cv(p.x), cv(p.y), cv(p.segmentType), cv(p.smooth), cv(p.name), cv(p.identifier)] for p in c]]


def s_glyph(g):
    pens = pens_of(g)
    shallow = g._shallowLoadedContours is not None
    img = Atom("none") if g._image is None else [Atom("some"), s_dict(g._image)]
    return [cv(g.name), cv(g.unicodes), cv(g.width), cv(g.height), cv(g.note), s_dict(g.lib), s_dict(g.tempLib), img,
            [Atom("some"), pens] if shallow else Atom("none"), [] if shallow else pens,
            [[cv(c.baseGlyph), cv(c.transformation), cv(c.identifier)] for c in g.components],
            [s_dict(a) for a in g.anchors], [s_dict(a) for a in g.guidelines]]


def s_layer(l):
    # Layer.getDataForSerialization iterates self.keys() (a set): the order the data dictionary will have
    names = list(l.keys())
    return [cv(l.name), cv(l.color), s_dict(l.lib), s_dict(l.tempLib), [[cv(n), s_glyph(l[n])] for n in names]]


def s_layerset(ls):
    d = ls.defaultLayer
    return [cv(d.name if d is not None else None), [s_layer(ls[n]) for n in ls.layerOrder]]


def s_info(info):
    return [[k, cv(getattr(info, k))] for k in info._properties if getattr(info, k) is not None]


def s_fileset(fs):
    return [[ck(n), cv(fs[n])] for n in fs.fileNames]


def s_font(f):
    return [cv(f.ufoFormatVersionTuple), cv(f.kerningGroupConversionRenameMaps), s_fileset(f.data), s_fileset(f.images),
            cv(f.features.text), s_dict(f.groups), s_dict(f.kerning), s_dict(f.lib), s_dict(f.tempLib), s_info(f.info),
            s_layerset(f.layers), [s_dict(g) for g in f.guidelines]]


def struct_of(kind, o):
    if kind == "font":
        return s_font(o)
    if kind == "layerSet":
        return s_layerset(o)
    if kind == "layer":
        return s_layer(o)
    if kind == "glyph":
        return s_glyph(o)
    if kind == "contour":
        return s_pen_of_contour(o)
    if kind == "component":
        return [cv(o.baseGlyph), cv(o.transformation), cv(o.identifier)]
    if kind in ("anchor", "guideline", "image", "lib", "kerning", "groups"):
        return s_dict(o)
    if kind in ("imageSet", "dataSet"):
        return s_fileset(o)
    if kind == "info":
        return s_info(o)
    if kind == "features":
        return cv(o.text)
    raise ValueError(kind)


# --- facts -----------------------------------------------------------------------------

def fb(b):
    return "true" if b else "false"


class Ctx(object):
    """expected ancestors of the objects below a rebuilt root"""

    def __init__(self, font=None, layerSet=None, layer=None, glyph=None):
        self.font, self.layerSet, self.layer, self.glyph = font, layerSet, layer, glyph

    def with_(self, **kw):
        c = Ctx(self.font, self.layerSet, self.layer, self.glyph)
        for k, v in kw.items():
            setattr(c, k, v)
        return c


def _acc(o, name):
    try:
        return getattr(o, name)
    except AttributeError:
        return "no-such-accessor"


def parent_ok(o, container, ctx, accessors):
    """all parent accessors of `o` answer the expected ancestor; returns (ok, detail)"""
    bad = []
    try:
        p = o.getParent()
    except Exception as e:
        p = e
    # Lib.getParent answers whichever of font/layer/glyph happens to be cached (asking a glyph lib for its font makes
    # getParent answer the font from then on, also in a font that never saw serialization): judged by the accessors only
    if p is not container and type(o).__name__ != "Lib":
        bad.append("getParent")
    for a in accessors:
        want = getattr(ctx, a)
        got = _acc(o, a)
        if got is not want:
            bad.append(a)
    return (not bad, bad)


class Walk(object):
    """collects facts, nodes to probe and parent defects of a (rebuilt or original) tree"""

    def __init__(self):
        self.facts = []
        self.nodes = []     # (path, obj, ancestors from the object up to the root, mutate kind)
        self.parent_bad = []

    def add(self, p, v):
        self.facts.append([p, v])

    def wiring(self, p, o, container, ctx, accessors, note, chain, mut, observed=True):
        ok, bad = parent_ok(o, container, ctx, accessors)
        self.add(p + "/@parent", fb(ok and container is not None))
        if not ok:
            self.parent_bad.append((p, bad))
        if observed:
            self.add(p + "/@observed", fb(container is not None and bool(o.hasObserver(container, note))))
            self.nodes.append((p, o, [o] + chain, mut))

    def items(self, p, d):
        for k, v in d.items():
            self.add(p + "/" + ck(k), cv(v))

    def attrs(self, p, o, names):
        for n in names:
            self.add(p + "/" + n, cv(getattr(o, n) if n not in ("xScale", "xyScale", "yxScale", "yScale", "xOffset", "yOffset")
                                     else o.get(n)))


GL = ["font", "layerSet", "layer", "glyph"]


def walk_glyph(w, p, g, ctx, chain):
    """facts of a glyph; `chain` = ancestors above the glyph (layer, layerSet, font)"""
    pens = pens_of(g)
    w.add(p + "/name", cv(g.name))
    w.add(p + "/unicodes", cv(g.unicodes))
    w.add(p + "/width", cv(g.width))
    w.add(p + "/height", cv(g.height))
    w.add(p + "/note", cv(g.note))
    w.add(p + "/@shallow", fb(g._shallowLoadedContours is not None))
    w.items(p + "/lib", g.lib)
    w.items(p + "/tempLib", g.tempLib)
    w.attrs(p + "/image", g.image, IMAGE_ATTRS)
    for i, pen in enumerate(pens):
        w.add(p + "/pen/%d" % i, pen)
    w.add(p + "/pen/n", str(len(pens)))
    # --- from here on the contours are fully loaded
    c2 = ctx.with_(glyph=g)
    gchain = [g] + chain
    for i, c in enumerate(g):
        w.wiring(p + "/c/%d" % i, c, g, c2, GL, "Contour.Changed", gchain, "contour")
    # the loaded contours must say what the stream said
    pens2 = [s_pen_of_contour(c) for c in g]
    if pens2 != pens:
        w.add(p + "/pen/@loaded-differs", "true")
    for i, c in enumerate(g.components):
        q = p + "/k/%d" % i
        w.add(q, [cv(c.baseGlyph), cv(c.transformation), cv(c.identifier)])
        w.wiring(q, c, g, c2, GL, "Component.Changed", gchain, "component")
    w.add(p + "/k/n", str(len(g.components)))
    for i, a in enumerate(g.anchors):
        q = p + "/a/%d" % i
        w.attrs(q, a, ANCHOR_ATTRS)
        w.wiring(q, a, g, c2, GL, "Anchor.Changed", gchain, "anchor")
    w.add(p + "/a/n", str(len(g.anchors)))
    for i, a in enumerate(g.guidelines):
        q = p + "/g/%d" % i
        w.attrs(q, a, GUIDELINE_ATTRS)
        w.wiring(q, a, g, c2, GL, "Guideline.Changed", gchain, "guideline")
    w.add(p + "/g/n", str(len(g.guidelines)))
    for ident in sorted(g.identifiers):
        w.add(p + "/@id/" + cv(ident), "1")
    w.wiring(p + "/lib", g.lib, g, c2, GL, "Lib.Changed", gchain, "lib")
    w.wiring(p + "/image", g.image, g, c2, GL, "Image.Changed", gchain, "image")
    w.wiring(p + "/tempLib", g.tempLib, g, c2, GL, None, gchain, None, observed=False)


def glyph_ids_in_use(g):
    ids = []
    for c in g:
        ids.append(c.identifier)
        ids.extend(pt.identifier for pt in c)
    ids.extend(c.identifier for c in g.components)
    ids.extend(a.identifier for a in g.anchors)
    ids.extend(a.identifier for a in g.guidelines)
    return sorted(i for i in ids if i is not None)


def walk_glyph_all(w, p, g, container, ctx, chain):
    walk_glyph(w, p, g, ctx, chain)
    # Glyph.getParent answers the font
    ok, bad = parent_ok(g, ctx.font, ctx, ["font", "layerSet", "layer"])
    w.add(p + "/@parent", fb(ok and container is not None))
    if not ok:
        w.parent_bad.append((p, bad))
    w.add(p + "/@observed", fb(container is not None and bool(g.hasObserver(container, "Glyph.Changed"))))
    w.nodes.append((p, g, [g] + chain, "glyph"))


def walk_layer(w, p, l, container, ctx, chain):
    c2 = ctx.with_(layer=l)
    lchain = [l] + chain
    w.add(p + "/color", cv(l.color))
    w.items(p + "/lib", l.lib)
    w.items(p + "/tempLib", l.tempLib)
    w.wiring(p + "/lib", l.lib, l, c2.with_(glyph=None), ["font", "layerSet", "layer", "glyph"], "Lib.Changed", lchain, "lib")
    w.wiring(p + "/tempLib", l.tempLib, l, c2.with_(glyph=None), ["font", "layerSet", "layer", "glyph"], None, lchain, None,
             observed=False)
    w.wiring(p, l, container, ctx, ["font", "layerSet"], "Layer.Changed", chain, "layer")
    names = sorted(l.keys())
    for n in names:
        walk_glyph_all(w, p + "/G/" + cv(n), l[n], l, c2, lchain)
    w.add(p + "/G/@names", [Atom("set")] + [cv(n) for n in names])
    w.add(p + "/@cmap", [Atom("set")] + cmap_records(l))


def cmap_of(layer):
    """Layer.unicodeData as {code: sorted glyph names} (the order inside one code is history, not data)"""
    return {code: sorted(names) for code, names in layer.unicodeData.items()}


def cmap_from_glyphs(layer):
    """what the unicode data have to say: the inverse of the glyphs' unicodes"""
    want = {}
    for n in layer.keys():
        for code in layer[n].unicodes:
            if n not in want.setdefault(code, []):
                want[code].append(n)
    return {code: sorted(names) for code, names in want.items()}


def cmap_records(layer):
    """Layer.unicodeData told glyph by glyph, the way the model keeps it: [name, unicodes of the glyph] for every glyph
    the unicode data list; a record that does not say what the glyph itself says is marked"""
    by_name = {}
    for code, names in layer.unicodeData.items():
        for n in names:
            by_name.setdefault(n, []).append(code)
    recs = []
    for n in sorted(by_name):
        codes = sorted(by_name[n])
        own = list(layer[n].unicodes) if n in layer else None
        if own is not None and codes == sorted(set(own)):
            recs.append([cv(n), cv(own)])
        else:
            recs.append([cv(n), "stale:" + cv(codes)])
    return recs


def walk_layerset(w, p, ls, container, ctx, chain):
    c2 = ctx.with_(layerSet=ls)
    d = ls.defaultLayer
    w.add(p + "/order", [cv(n) for n in ls.layerOrder])
    w.add(p + "/default", cv(d.name if d is not None else None))
    ok, bad = parent_ok(ls, container, ctx, ["font"])
    w.add(p + "/@parent", fb(ok and container is not None))
    if not ok:
        w.parent_bad.append((p, bad))
    w.add(p + "/@observed", fb(container is not None and bool(ls.hasObserver(container, "LayerSet.Changed"))))
    for n in ls.layerOrder:
        walk_layer(w, p + "/L/" + cv(n), ls[n], ls, c2, [ls] + chain)


def walk_font(w, f):
    ctx = Ctx(font=f)
    w.add("fmt", cv(f.ufoFormatVersionTuple))
    w.add("maps", cv(f.kerningGroupConversionRenameMaps))
    w.add("features", cv(f.features.text))
    w.wiring("features", f.features, f, ctx, ["font"], "Features.Changed", [f], "features")
    for name, o, note, mut in (("data", f.data, "DataSet.Changed", "data"), ("images", f.images, "ImageSet.Changed", "images")):
        for n in o.fileNames:
            w.add(name + "/" + ck(n), cv(o[n]))
        w.wiring(name, o, f, ctx, ["font"], note, [f], mut)
    for name, o, note in (("groups", f.groups, "Groups.Changed"), ("kerning", f.kerning, "Kerning.Changed"),
                          ("lib", f.lib, "Lib.Changed")):
        w.items(name, o)
        w.wiring(name, o, f, ctx, ["font"], note, [f], name)
    w.items("tempLib", f.tempLib)
    w.wiring("tempLib", f.tempLib, f, ctx, ["font"], None, [f], None, observed=False)
    for k in f.info._properties:
        v = getattr(f.info, k)
        if v is not None:
            w.add("info/" + k, cv(v))
    w.wiring("info", f.info, f, ctx, ["font"], "Info.Changed", [f], "info")
    walk_layerset(w, "layers", f.layers, f, ctx, [f])
    for i, a in enumerate(f.guidelines):
        q = "fg/%d" % i
        w.attrs(q, a, GUIDELINE_ATTRS)
        w.wiring(q, a, f, ctx.with_(glyph=None), ["font", "glyph"], "Guideline.Changed", [f], "guideline")
    w.add("fg/n", str(len(f.guidelines)))
    for ident in sorted(f.identifiers):
        w.add("font/@id/" + cv(ident), "1")


def walk_any(kind, o, ctx=None, container=None, chain=None):
    """facts of an object of `kind` (prefix conventions = Drivers/Serial.lean)"""
    w = Walk()
    ctx = ctx or Ctx()
    chain = chain or []
    if kind == "font":
        walk_font(w, o)
    elif kind == "layerSet":
        walk_layerset(w, "layers", o, container, ctx, chain)
    elif kind == "layer":
        walk_layer(w, "layer", o, container, ctx, chain)
    elif kind == "glyph":
        walk_glyph_all(w, "glyph", o, container, ctx, chain)
    elif kind == "contour":
        w.add("contour/pen", s_pen_of_contour(o))
        w.add("contour/@parent", fb(o.glyph is not None))
        w.add("contour/@observed", "false")
    elif kind == "component":
        w.add("component", [cv(o.baseGlyph), cv(o.transformation), cv(o.identifier)])
        w.add("component/@parent", fb(o.glyph is not None))
        w.add("component/@observed", "false")
    elif kind in ("anchor", "guideline", "image"):
        w.attrs(kind, o, dict(anchor=ANCHOR_ATTRS, guideline=GUIDELINE_ATTRS, image=IMAGE_ATTRS)[kind])
        w.add(kind + "/@parent", fb(o.getParent() is not None))
        w.add(kind + "/@observed", "false")
    elif kind in ("lib", "kerning", "groups"):
        w.items(kind, o)
    elif kind in ("imageSet", "dataSet"):
        for n in o.fileNames:
            w.add(kind + "/" + ck(n), cv(o[n]))
    elif kind == "info":
        for k in o._properties:
            v = getattr(o, k)
            if v is not None:
                w.add("info/" + k, cv(v))
    elif kind == "features":
        w.add("features", cv(o.text))
    else:
        raise ValueError(kind)
    return w


def is_data_fact(path):
    return "/@" not in path and not path.startswith("@")


# ---------------------------------------------------------------------------------------
# probes on the rebuilt tree
# ---------------------------------------------------------------------------------------

class Recorder2(object):
    def __init__(self):
        self.got = []

    def cb(self, notification):
        self.got.append((notification.name, id(notification.object)))


def all_objects(root_nodes):
    seen = {}
    for _, o, chain, _ in root_nodes:
        for x in chain:
            seen[id(x)] = x
    return list(seen.values())


def mutate(o, mut):
    if mut == "features":
        o.text = (o.text or "") + " #probe"
    elif mut == "data":
        o["probe.bin"] = b"probe" + bytes([len(o.fileNames)])
    elif mut == "images":
        o["probe.png"] = PNG + b"probe" + bytes([len(o.fileNames)])
    elif mut in ("groups",):
        o["probe%d" % len(o)] = ["A"]
    elif mut == "kerning":
        o[("probe", "p%d" % len(o))] = 1
    elif mut == "lib":
        o["probe%d" % len(o)] = 1
    elif mut == "info":
        o.note = (o.note or "") + "probe"
    elif mut == "layer":
        o.color = "0.25,0.5,0.75,1" if o.color != "0.25,0.5,0.75,1" else "1,1,1,1"
    elif mut == "glyph":
        o.width = o.width + 1
    elif mut == "image":
        o.fileName = "probe.png" if o.fileName != "probe.png" else "probe2.png"
    elif mut == "contour":
        if len(o):
            o.move((1, 1))
        else:
            o.dirty = True
    elif mut == "component":
        t = o.transformation
        o.transformation = tuple(t[:4]) + (t[4] + 1, t[5])
    elif mut in ("anchor", "guideline"):
        o.x = (o.x or 0) + 1
    else:
        raise ValueError(mut)


def run_probes(w, dispatcher):
    """mutate every node; returns {path: (all ancestors dirty and announced, detail)}"""
    res = {}
    objs = all_objects(w.nodes)
    rec = Recorder2()
    w.keep_rec = rec
    if dispatcher is not None:
        dispatcher.addObserver(rec, "cb", None, None)
    try:
        for path, o, chain, mut in w.nodes:
            for x in objs:
                x._dirty = False
            rec.got = []
            try:
                mutate(o, mut)
                err = None
            except Exception as e:     # a rebuilt object that cannot be edited is not working either
                err = type(e).__name__
            missing = []
            for x in chain:
                note = (x.changeNotificationName, id(x))
                if not x.dirty:
                    missing.append(type(x).__name__ + ".dirty")
                if note not in rec.got:
                    missing.append(x.changeNotificationName)
            if err:
                missing.append("raises " + err)
            res[path] = (not missing, missing)
    finally:
        if dispatcher is not None:
            dispatcher.removeObserver(rec, None, None)
    return res


def relay_probes(font):
    """cross-tree propagation inside a font: base glyph -> component, image set -> image, new glyph -> glyph order.
    Returns a list of (clause, detail) failures."""
    bad = []
    rec = Recorder2()
    font.dispatcher.addObserver(rec, "cb", None, None)
    try:
        for layer in font.layers:
            for n in sorted(layer.keys()):
                g = layer[n]
                for i, comp in enumerate(g.components):
                    base = comp.baseGlyph
                    if base is None or base not in layer or base == n:
                        continue
                    rec.got = []
                    pen = layer[base].getPointPen()
                    pen.beginPath()
                    pen.addPoint((0, 0), segmentType="line")
                    pen.endPath()
                    if ("Component.BaseGlyphDataChanged", id(comp)) not in rec.got:
                        bad.append(("base-glyph-relay", "layer %s glyph %s component %d of base %s" % (layer.name, n, i, base)))
                img = g.image
                if img.fileName is not None and img.fileName in font.images:
                    rec.got = []
                    font.images[img.fileName] = font.images[img.fileName] + b"x"
                    if ("Image.ImageDataChanged", id(img)) not in rec.got:
                        bad.append(("image-set-relay", "layer %s glyph %s image %s" % (layer.name, n, img.fileName)))
        name = "probe.new"
        font.newGlyph(name)
        if name not in font.glyphOrder:
            bad.append(("glyph-order-relay", "new glyph not appended to glyphOrder"))
        if not font.dirty:
            bad.append(("glyph-order-relay", "font not dirty after newGlyph"))
    finally:
        font.dispatcher.removeObserver(rec, None, None)
    return bad



# ---------------------------------------------------------------------------------------
# somebody looks at the new object: before the data are fed, and while they come in
# ---------------------------------------------------------------------------------------

def _reads(fs):
    n = 0
    for f in fs:
        try:
            f()
            n += 1
        except Exception:      # a reader minds its own errors (a half built font has no default layer yet, ...)
            pass
    return n


def look_layer(l):
    """the derived public data of a layer; nothing here loads or changes a glyph's contours"""
    return _reads([lambda: dict(l.unicodeData), lambda: l.unicodeData.glyphNameForUnicode(65), lambda: l.componentReferences,
                   lambda: l.imageReferences, lambda: sorted(l.keys()), lambda: len(l), lambda: l.color,
                   lambda: l.lib.keys(), lambda: l.tempLib.keys()])


def look_layerset(ls):
    return _reads([lambda: list(ls.layerOrder), lambda: ls.defaultLayer, lambda: len(ls)])


def look_font_top(f):
    return _reads([lambda: dict(f.unicodeData), lambda: sorted(f.keys()), lambda: list(f.glyphOrder),
                   lambda: f.componentReferences, lambda: f.identifiers, lambda: len(f.guidelines)])


def look_groups(g):
    return _reads([lambda: g.getRepresentation("defcon.groups.kerningSide1Groups"),
                   lambda: g.getRepresentation("defcon.groups.kerningSide2Groups"),
                   lambda: g.getRepresentation("defcon.groups.kerningGlyphToSide1Group"),
                   lambda: g.getRepresentation("defcon.groups.kerningGlyphToSide2Group"), lambda: sorted(g.keys())])


def look_glyph_light(g):
    """what can be read of a glyph without loading its contours"""
    return _reads([lambda: g.name, lambda: list(g.unicodes), lambda: g.width, lambda: sorted(g.identifiers),
                   lambda: len(g.components), lambda: len(g.anchors), lambda: len(g.guidelines)])


def look_at(kind, o):
    """`before`: every derived / lazily built public datum of a NEW (still empty) object of the kind is read once"""
    if kind == "font":
        n = look_font_top(o) + look_layerset(o.layers) + sum(look_layer(l) for l in o.layers) + look_groups(o.groups)
        n += _reads([lambda: o.bounds, lambda: o.controlPointBounds, lambda: o.info.familyName, lambda: len(o.kerning),
                     lambda: o.features.text, lambda: o.lib.keys(), lambda: o.tempLib.keys(), lambda: o.images.fileNames,
                     lambda: o.data.fileNames, lambda: o.kerning.find(("A", "B"))])
        return n
    if kind == "layerSet":
        return look_layerset(o) + sum(look_layer(l) for l in o)
    if kind == "layer":
        return look_layer(o) + _reads([lambda: o.bounds, lambda: o.controlPointBounds, lambda: o.glyphsWithOutlines])
    if kind == "glyph":
        return look_glyph_light(o) + _reads([lambda: o.bounds, lambda: o.controlPointBounds, lambda: o.area, lambda: len(o),
                                             lambda: o.lib.keys(), lambda: o.tempLib.keys(), lambda: o.image.fileName,
                                             lambda: o.leftMargin, lambda: o.note])
    if kind == "contour":
        return _reads([lambda: o.bounds, lambda: o.controlPointBounds, lambda: o.area, lambda: o.clockwise, lambda: len(o),
                       lambda: o.segments, lambda: o.open])
    if kind == "component":
        return _reads([lambda: o.bounds, lambda: o.controlPointBounds, lambda: o.baseGlyph, lambda: o.transformation])
    if kind == "groups":
        return look_groups(o)
    if kind in ("imageSet", "dataSet"):
        return _reads([lambda: list(o.fileNames), lambda: o.unreferencedFileNames if kind == "imageSet" else None])
    if kind == "info":
        return _reads([lambda: o.familyName, lambda: o.unitsPerEm, lambda: o.postscriptBlueValues])
    if kind == "features":
        return _reads([lambda: o.text])
    # lib, kerning, anchor, guideline, image: dictionaries
    return _reads([lambda: sorted(o.keys(), key=repr), lambda: len(o), lambda: dict(o)])


class Peeker(object):
    """`during`: an observer of every notification of the target's notification centre that reads the derived public
    data of the announcing object at the k-th announcement of that name by that object, for the k of the schedule
    (what a glyph overview / character map does on Layer.GlyphAdded).  It reads only; what it reads never loads contours."""

    def __init__(self, schedule):
        self.schedule = set(schedule)
        self.count = {}
        self.reads = 0
        self.heard = 0
        self.keep = []

    def cb(self, notification):
        o = notification.object
        self.keep.append(o)
        self.heard += 1
        key = (notification.name, id(o))
        k = self.count[key] = self.count.get(key, 0) + 1
        if k not in self.schedule:
            return
        cls = type(o).__name__
        if cls == "Layer":
            self.reads += look_layer(o)
            font = o.font
        elif cls == "LayerSet":
            self.reads += look_layerset(o)
            font = o.font
        elif cls == "Font":
            font = o
        elif cls == "Glyph":
            self.reads += look_glyph_light(o)
            font = None
        elif cls == "Groups":
            self.reads += look_groups(o)
            font = None
        else:
            return
        if font is not None:
            self.reads += look_font_top(font)


def eff_look(kind, op):
    """(before, during) of a round trip; an observer needs a notification centre, i.e. a target inside a font"""
    look = op[3] if len(op) > 3 and op[3] else None
    if look is None:
        return False, []
    target = op[2]
    has_centre = kind in ("font", "layerSet") or (target == "infont" and kind in ("glyph", "layer"))
    return bool(look.get("before")), (sorted(look.get("during") or []) if has_centre else [])


# ---------------------------------------------------------------------------------------
# derived public data of the rebuilt object: they must say what its plain data say
# ---------------------------------------------------------------------------------------

def _layers_of(kind, o):
    if kind == "font":
        return [("layers/L/" + cv(l.name), l) for l in o.layers]
    if kind == "layerSet":
        return [("layers/L/" + cv(l.name), l) for l in o]
    if kind == "layer":
        return [("layer", o)]
    return []


def _cached_metrics(g):
    return (cv(g.bounds), cv(g.controlPointBounds), cv(g.area))


def derived_bad(kind, new, has_font):
    """[(what, path, from the plain data, answered)] - public getters of the rebuilt object that are computed from its data
    (and possibly kept in a lazily built, incrementally updated cache) and do not say what these data say"""
    bad = []
    for p, l in _layers_of(kind, new):
        want, got = cmap_from_glyphs(l), cmap_of(l)
        if want != got:
            codes = sorted(c for c in set(want) | set(got) if want.get(c) != got.get(c))
            bad.append(("unicodeData", p, {c: want.get(c) for c in codes[:6]}, {c: got.get(c) for c in codes[:6]}))
        want = {}
        for n in l.keys():
            for c in l[n].components:
                want.setdefault(c.baseGlyph, set()).add(n)
        got = {k: set(v) for k, v in l.componentReferences.items()}
        if want != got:
            bad.append(("componentReferences", p, cv({k: sorted(v) for k, v in want.items()}),
                        cv({k: sorted(v) for k, v in got.items()})))
        want = {}
        for n in l.keys():
            fn = l[n].image.fileName
            if fn is not None:
                want.setdefault(fn, []).append(n)
        want = {k: sorted(v) for k, v in want.items()}
        got = {k: sorted(v) for k, v in l.imageReferences.items()}
        if want != got:
            bad.append(("imageReferences", p, cv(want), cv(got)))
    if kind == "font":
        d = new.layers.defaultLayer
        if d is not None:
            if sorted(new.keys()) != sorted(d.keys()):
                bad.append(("font.keys", "layers/default", cv(sorted(d.keys())), cv(sorted(new.keys()))))
            elif any(new[n] is not d[n] for n in d.keys()):
                bad.append(("font.getitem", "layers/default", "the default layer's glyph objects", "other objects"))
            if cmap_of(d) != {c: sorted(v) for c, v in new.unicodeData.items()}:
                bad.append(("font.unicodeData", "layers/default", cv(cmap_of(d)),
                            cv({c: sorted(v) for c, v in new.unicodeData.items()})))
    if has_font:
        # representations kept by objects inside a font: what is answered now against the same getter after every
        # stored representation was dropped
        for gpath, g in _glyphs_of(kind, new):
            holders = [g] + list(g) + list(g.components)

            def drop():
                for x in holders:
                    x.destroyAllRepresentations()
            # (a factory that raises - outlines that are not drawable - leaves an empty entry behind, which
            # Contour.move trips over: nothing of a failed attempt is left in place)
            try:
                got = _cached_metrics(g)
            except Exception:
                got = None
            drop()
            if got is None:
                continue
            try:
                want = _cached_metrics(g)
            except Exception:
                drop()
                continue
            if want != got:
                bad.append(("glyph.representations", gpath, want, got))
                break
        groups = new.groups if kind == "font" else (new if kind == "groups" else None)
        if groups is not None:
            names = ["defcon.groups.kerningSide1Groups", "defcon.groups.kerningSide2Groups",
                     "defcon.groups.kerningGlyphToSide1Group", "defcon.groups.kerningGlyphToSide2Group"]
            try:
                got = [cv(groups.getRepresentation(n)) for n in names]
                groups.destroyAllRepresentations()
                want = [cv(groups.getRepresentation(n)) for n in names]
                if want != got:
                    bad.append(("groups.representations", "groups", want, got))
            except Exception:
                pass
    return bad


def unicode_relay(kind, new):
    """change propagation into the unicode data of the rebuilt layers (inside a font): a glyph that gets other unicodes
    moves in the layer's unicode data.  Returns a list of failure details."""
    bad = []
    for p, l in _layers_of(kind, new):
        names = sorted(l.keys())
        for i, n in enumerate(names[:3]):
            g = l[n]
            old = list(g.unicodes)
            code = 0xF0000 + i
            g.unicodes = [code]
            ud = l.unicodeData
            if ud.get(code) != [n]:
                bad.append("%s: glyph %s got unicode %d, unicodeData[%d] = %r" % (p, n, code, code, ud.get(code)))
            elif any(n in ud.get(c, []) for c in old):
                bad.append("%s: glyph %s lost unicodes %r, unicodeData still lists it" % (p, n, old))
            if bad:
                return bad
    return bad


# ---------------------------------------------------------------------------------------
# one case on the implementation
# ---------------------------------------------------------------------------------------

def _new(kind):
    from defcon.objects.font import Font
    from defcon.objects.layerSet import LayerSet
    from defcon.objects.layer import Layer
    from defcon.objects.glyph import Glyph
    from defcon.objects.contour import Contour
    from defcon.objects.component import Component
    from defcon.objects.anchor import Anchor
    from defcon.objects.guideline import Guideline
    from defcon.objects.image import Image
    from defcon.objects.lib import Lib
    from defcon.objects.kerning import Kerning
    from defcon.objects.groups import Groups
    from defcon.objects.info import Info
    from defcon.objects.features import Features
    from defcon.objects.imageSet import ImageSet
    from defcon.objects.dataSet import DataSet
    return dict(font=Font, layerSet=LayerSet, layer=Layer, glyph=Glyph, contour=Contour, component=Component,
                anchor=Anchor, guideline=Guideline, image=Image, lib=Lib, kerning=Kerning, groups=Groups, info=Info,
                features=Features, imageSet=ImageSet, dataSet=DataSet)[kind]()


def exc_name(e):
    n = type(e).__name__
    return n


def make_target(kind, orig, target, keep):
    """a NEW object of the kind: parent-less, or freshly created inside a new font"""
    from defcon.objects.font import Font
    ctx, container, chain = Ctx(), None, []
    if target == "infont":
        f2 = Font()
        keep.append(f2)
        if kind == "glyph":
            layer = f2.layers.defaultLayer
            new = layer.newGlyph(orig.name)
            ctx, container, chain = Ctx(font=f2, layerSet=f2.layers, layer=layer), layer, [layer, f2.layers, f2]
        else:
            new = f2.newLayer(orig.name) if orig.name != "public.default" else f2.layers["public.default"]
            ctx, container, chain = Ctx(font=f2, layerSet=f2.layers), f2.layers, [f2.layers, f2]
    elif kind == "layerSet":
        # a LayerSet without a font cannot hold glyphs at all (Glyph.__init__ needs layerSet.font): the new layer set
        # is made the way Font makes one; it is not installed as font.layers, so the font does not observe it
        f2 = Font()
        keep.append(f2)
        new = f2.instantiateLayerSet()
        ctx, container, chain = Ctx(font=f2), f2, []
    else:
        new = _new(kind)
    keep.append(new)
    return new, ctx, container, chain


def sig(clause, kind, what):
    return "C14/%s/%s/%s" % (clause, kind, what)


def run_impl(case):
    built = Built(case)
    keep = [built]
    outs, viol = [], []
    stats = {}

    def st(k, n=1):
        stats[k] = stats.get(k, 0) + n
    try:
        font = built.font
        kind = case["pick"]["kind"]
        orig = pick_object(font, case["pick"])
        keep.append(orig)
        st("kind." + kind)
        st("via." + case["via"])
        if built.save_error:
            st("via.save-failed-fell-back-to-api")
        if built.odd_image:
            st("via.ufo3.odd-image-file-name")
        st("history.%d" % min(3, len(case.get("history", []))))
        # ---- 1. model input: the original as it is now, described from its twin (an identically made second
        #         instance) so that nothing touches the original before its serializations are taken
        twin = pick_object(built.twin, case["pick"])
        keep.append(twin)
        struct = sexp.dumps(struct_of(kind, twin))
        _cache_put(case, struct)
        # ---- 2. every serialization the ops need, taken from the original in this state
        feeds = []
        for op in case["ops"]:
            try:
                if op[0] == "roundtrip":
                    if op[1] == "pickle":
                        feeds.append(("blob", orig.serialize()))
                    else:
                        feeds.append(("data", orig.getDataForSerialization()))
                elif op[0] == "partial":
                    feeds.append(("data", orig.getDataForSerialization(whitelist=op[1], blacklist=op[2])))
                elif op[0] == "keys":
                    d = orig.getDataForSerialization(whitelist=op[1], blacklist=op[2])
                    d2 = pickle.loads(orig.serialize(whitelist=op[1], blacklist=op[2]))
                    feeds.append(("keys", (list(d.keys()), list(d2.keys()))))
                else:
                    raise ValueError(op)
            except Exception as e:
                if isinstance(e, ValueError) and e.args and e.args[0] is op:
                    raise
                feeds.append(("exc", e))
        keep.append(feeds)
        # ---- 3. what the original says through its public getters (this loads everything)
        w0 = walk_any(kind, orig)
        st("glyphs.shallow", struct.count("(some ((") + struct.count("(some ())"))
        data0 = sorted((p, sexp.canon(v)) for p, v in w0.facts if is_data_fact(p))
        nontrivial = len(data0) > {"font": 14, "glyph": 16, "layer": 3, "layerSet": 4, "image": 8, "anchor": 5,
                                   "guideline": 6, "contour": 1, "component": 1, "features": 1}.get(kind, 0)
        # ---- 4. rebuild, compare
        for op, (fk, fv) in zip(case["ops"], feeds):
            if fk == "exc":
                outs.append([Atom("err"), Atom(exc_name(fv))])
                st("err.serialize." + exc_name(fv))
                viol.append(dict(clause="C14/serialize-raises", signature=sig("serialize-raises", kind, exc_name(fv)),
                                 op=op, detail=repr(fv)[:300]))
                continue
            st("op." + op[0])
            if op[0] == "keys":
                outs.append([Atom("keys")] + [ck(k) for k in fv[0]])
                st("keys.whitelist" if op[1] is not None else "keys.no-whitelist")
                st("keys.blacklist" if op[2] is not None else "keys.no-blacklist")
                if fv[0] != fv[1]:
                    viol.append(dict(clause="C14/pickle-differs", signature=sig("pickle-differs", kind, "keys"), op=op))
                continue
            target = op[2] if op[0] == "roundtrip" else "alone"
            st("form." + ("pickle" if fk == "blob" else "dict"))
            st("target." + target)
            new, ctx, container, chain = make_target(kind, orig, target, keep)
            before, during = eff_look(kind, op) if op[0] == "roundtrip" else (False, [])
            if before:
                st("look.before")
                st("look.before.reads", look_at(kind, new))
            peeker = None
            if during and new.dispatcher is not None:
                peeker = Peeker(during)
                keep.append(peeker)
                new.dispatcher.addObserver(peeker, "cb", None, None)
                st("look.during")
            if not before and peeker is None:
                st("look.none")
            try:
                try:
                    if fk == "blob":
                        new.deserialize(fv)
                    else:
                        new.setDataFromSerialization(fv)
                finally:
                    if peeker is not None:
                        new.dispatcher.removeObserver(peeker, None, None)
                        st("look.during.heard", peeker.heard)
                        st("look.during.reads", peeker.reads)
            except Exception as e:
                outs.append([Atom("err"), Atom(exc_name(e))])
                st("err." + exc_name(e))
                if op[0] == "roundtrip":
                    viol.append(dict(clause="C14/rebuild-raises", signature=sig("rebuild-raises", kind, exc_name(e)),
                                     op=op, detail=repr(e)[:300]))
                continue
            w = walk_any(kind, new, ctx, container, chain)
            has_font = kind in ("font", "layerSet") or target == "infont"
            dispatcher = new.dispatcher if has_font else None
            # (before the probes edit anything: an edit repairs what a stale cache says)
            derived = derived_bad(kind, new, has_font) if op[0] == "roundtrip" else []
            probes = run_probes(w, dispatcher)
            facts = list(w.facts)
            for path, (ok, missing) in probes.items():
                facts.append([path + "/@prop", fb(ok)])
            outs.append([Atom("ok"), [Atom("set")] + [[p, v] for p, v in facts]])
            if op[0] == "partial":
                continue
            # ---------------- direct oracle ----------------
            data1 = sorted((p, sexp.canon(v)) for p, v in w.facts if is_data_fact(p))
            if data1 != data0:
                d0, d1 = dict(data0), dict(data1)
                diffs = sorted(k for k in set(d0) | set(d1) if d0.get(k) != d1.get(k))
                first = diffs[0]
                viol.append(dict(clause="C14/data-differs", signature=sig("data-differs", kind, _field_of(first)), op=op,
                                 path=first, original=d0.get(first), rebuilt=d1.get(first), n_diffs=len(diffs)))
            for what, p, want, got in derived:
                # equal observable data: the rebuilt object's plain data equal the original's (judged above), so what is
                # derived from them has to be what the original answers as well
                viol.append(dict(clause="C14/derived-data", signature=sig("derived-data", kind, what), op=op, path=p,
                                 from_its_data=want, rebuilt_answers=got))
                break
            for p, bad in w.parent_bad:
                viol.append(dict(clause="C14/parent-link", signature=sig("parent-link", kind, _field_of(p)), op=op,
                                 path=p, accessors=bad))
                break
            if has_font:
                for path, (ok, missing) in sorted(probes.items()):
                    if not ok:
                        viol.append(dict(clause="C14/propagation", signature=sig("propagation", kind, _field_of(path)),
                                         op=op, path=path, missing=missing))
                        break
            # identifier registries say what is in use
            for gpath, g in _glyphs_of(kind, new):
                if sorted(g.identifiers) != glyph_ids_in_use(g):
                    viol.append(dict(clause="C14/identifier-registry", signature=sig("identifier-registry", kind, "glyph"),
                                     op=op, path=gpath, registry=sorted(g.identifiers), in_use=glyph_ids_in_use(g)))
                    break
            if has_font and kind in ("font", "layerSet", "layer"):
                for detail in unicode_relay(kind, new):
                    viol.append(dict(clause="C14/unicode-relay", signature=sig("unicode-relay", kind, "rebuilt"), op=op,
                                     detail=detail))
                    break
            if kind == "font":
                used = sorted(a.identifier for a in new.guidelines if a.identifier is not None)
                if sorted(new.identifiers) != used:
                    viol.append(dict(clause="C14/identifier-registry", signature=sig("identifier-registry", kind, "font"),
                                     op=op, registry=sorted(new.identifiers), in_use=used))
                for clause, detail in relay_probes(new):
                    viol.append(dict(clause="C14/" + clause, signature=sig(clause, kind, "rebuilt"), op=op, detail=detail))
                    break
        return dict(out=outs, viol=viol, info=dict(nontrivial=nontrivial, stats=stats))
    finally:
        built.close()


def _field_of(path):
    """call-site part of a signature: the path with names and indices taken out"""
    parts = path.split("/")
    out = []
    skip = False
    for i, p in enumerate(parts):
        if skip:
            skip = False
            continue
        if p in ("L", "G", "c", "k", "a", "g", "fg", "pen"):
            out.append(p)
            skip = True
            continue
        out.append(p)
    # items of dict-like parts: keep the container only
    for cont in ("lib", "tempLib", "info", "kerning", "groups", "data", "images", "imageSet", "dataSet"):
        if cont in out[:-1]:
            out = out[:out.index(cont) + 1]
            break
    return ".".join(out)


def _glyphs_of(kind, o):
    if kind == "glyph":
        return [("glyph", o)]
    if kind == "layer":
        return [("layer/G/" + n, o[n]) for n in sorted(o.keys())]
    if kind == "layerSet":
        return [("layers/L/%s/G/%s" % (l.name, n), l[n]) for l in o for n in sorted(l.keys())]
    if kind == "font":
        return [("layers/L/%s/G/%s" % (l.name, n), l[n]) for l in o.layers for n in sorted(l.keys())]
    return []


# ---------------------------------------------------------------------------------------
# model side: the model's input is the REAL original object as it is (computed in the worker,
# handed over through a scratch cache; recomputed here when absent, e.g. in a replay)
# ---------------------------------------------------------------------------------------

_CACHE_DIR = None
_CACHE_PID = None


def _cache_dir():
    global _CACHE_DIR, _CACHE_PID
    if _CACHE_DIR is None:
        _CACHE_DIR = tempfile.mkdtemp(prefix="c14cache_", dir=_TMPROOT)
        _CACHE_PID = os.getpid()

        def _rm(d=_CACHE_DIR, pid=_CACHE_PID):
            if os.getpid() == pid:
                shutil.rmtree(d, ignore_errors=True)
        atexit.register(_rm)
    return _CACHE_DIR


_cache_dir()     # created in the parent before the worker pool forks


def _case_key(case):
    return hashlib.sha1(json.dumps(case, sort_keys=True, default=str).encode()).hexdigest()


def _cache_put(case, struct):
    try:
        with open(os.path.join(_CACHE_DIR, _case_key(case)), "w") as f:
            f.write(struct)
    except Exception:
        pass


def _struct_for(case):
    path = os.path.join(_CACHE_DIR, _case_key(case))
    if os.path.exists(path):
        return open(path).read()
    built = Built(case)
    try:
        twin = pick_object(built.twin, case["pick"])
        return sexp.dumps(struct_of(case["pick"]["kind"], twin))
    finally:
        built.close()


def _optkeys(x):
    return Atom("none") if x is None else sexp.dumps([Atom("some"), list(x)])


def model_lines(case):
    struct = _struct_for(case)
    kind = case["pick"]["kind"]
    lines = []
    for op in case["ops"]:
        if op[0] == "roundtrip":
            head = "roundtrip" if op[2] == "alone" else "roundtrip-in-font"
            before, during = eff_look(kind, op)
            look = ""
            if before or during:
                look = " (look %s (%s))" % ("true" if before else "false", " ".join(str(int(k)) for k in during))
            lines.append(Atom("(%s %s %s none none%s)" % (head, kind, struct, look)))
        elif op[0] == "partial":
            lines.append(Atom("(roundtrip %s %s %s %s)" % (kind, struct, _optkeys(op[1]), _optkeys(op[2]))))
        elif op[0] == "keys":
            lines.append(Atom("(keys %s %s %s %s)" % (kind, struct, _optkeys(op[1]), _optkeys(op[2]))))
        else:
            raise ValueError(op)
    return lines
