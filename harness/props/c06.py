"""C06 - in-place save leaves the UFO a full save would; not dirty means persisted."""
import persist_common as pc

SHRINKABLE = True
MODEL = "persist"
model_lines = pc.model_lines
neighbourhood = pc.neighbourhood
PROP = "C06"
RULE = ("same font/history generator as C01 restricted to in-place saves (after a first save-as for memory-built fonts), "
        "saves weighted up, 15% of the ops edit ONE object below a glyph through its own API (contour move / added point, "
        "component move / base, anchor and guideline attribute, image colour / assignment / clearing, glyph-lib key) on loaded and "
        "freshly read glyphs of any layer; after EVERY op the dirty flag of every object kind (font, layer set, layers, layer libs, "
        "loaded glyphs, each contour / component / anchor / guideline, image, glyph lib, parts, image set, data set) is compared "
        "with the M-SubFlags model, and a font that is not dirty must have its UFO hold the shadow content; after each save: ufoLib "
        "read-back == shadow content, no orphan files (glif not in contents.plist, glyph directory not in layercontents, unknown "
        "top-level file), no object reports dirty, and every second save is followed by an immediate second save that must neither "
        "raise nor change any byte of the tree; non-trivial = at least one save and one mutating op; distinct = distinct (spec, ops)")
ASSUMPTIONS = [
    "content domain as C01",
    "dirty flags are read for font, layer set, layers, loaded glyphs and everything they hold (contours only once they are objects: "
    "shallow-loaded contours count as clean), layer libs, loaded info/kerning/groups/features, image set, data set; the font lib's "
    "own flag is left out (public.glyphOrder, C12)",
    "which edits are effective (guarded setters) and what each GLIF holds are computed from the shadow content and handed to the model",
    "no disableNotifications / holds by the caller, flags never reset by hand, acyclic components",
]
TRUSTED = ["fontTools.ufoLib reader/writer"]
MODES = ["inplace"]


def generate(rng, tier):
    n = 500 if tier == "quick" else 6000
    for _ in range(n):
        yield pc.gen_case(rng, tier, MODES, p_save=0.2, sub_edits=0.15, empty_features=True)


def run_impl(case):
    return pc.run_case(case, PROP)
