"""C06 - in-place save leaves the UFO a full save would; not dirty means persisted."""
import persist_common as pc

SHRINKABLE = True
MODEL = "persist"
model_lines = pc.model_lines
neighbourhood = pc.neighbourhood
PROP = "C06"
RULE = ("same font/history generator as C01 restricted to in-place saves (after a first save-as for memory-built fonts), "
        "saves weighted up; after each save: ufoLib read-back == shadow content, no orphan files (glif not in contents.plist, "
        "glyph directory not in layercontents, unknown top-level file), no object reports dirty, and every second save is "
        "followed by an immediate second save that must not change any byte of the tree; non-trivial = at least one save and "
        "one mutating op; distinct = distinct (spec, ops)")
ASSUMPTIONS = [
    "content domain as C01",
    "dirty flags are read for font, layer set, layers, loaded glyphs, layer libs, loaded info/kerning/groups/features/lib, "
    "image set, data set; objects below the glyph are finding F31",
]
TRUSTED = ["fontTools.ufoLib reader/writer"]
MODES = ["inplace"]


def generate(rng, tier):
    n = 500 if tier == "quick" else 6000
    for _ in range(n):
        yield pc.gen_case(rng, tier, MODES, p_save=0.2, sub_edits=0.15)


def run_impl(case):
    return pc.run_case(case, PROP)
