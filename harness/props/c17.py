"""C17 - geometry and metrics: correspondence with M-Geom + direct oracle.

The adaptor drives the real defcon objects (Font/Layer/Glyph/Contour/Component/Anchor/Image) through
their public API in process.  Two streams:

* exact  - integer and dyadic (k/2, k/8) coordinates, on which float arithmetic is exact: every answer is
           sent to the diff as an exact rational and must equal the Lean model's answer;
* float  - arbitrary floats: the model is not run (every line is `(noop)`), only the oracle judges, with
           a tolerance where rounding can enter.

The model the driver runs is the cache layer of M-Geom (`cstep`, lean/DefconModel/GeomCache.lean): cached component
bounds / control bounds and cached glyph area, evicted by edits of the base glyphs.  The ops `kCached` / `gAreaCached`
compare the tables with `hasCachedRepresentation` of the real objects.  Histories flagged `watch` carry an observer
that reads the geometry from INSIDE the notifications the mutations post (`_Watcher`); they are judged by the oracle only.

The oracle (second half of this file) is written against the property text, with its own reading of
a UFO point list (segments, implied points), exact polynomial integration for areas, derivative
roots for curve extrema and a winding-number test; it shares no code or formula with the model.
"""
import math
from fractions import Fraction as F

from sexp import Atom, opt

MODEL = "geom"
SHRINKABLE = True
RULE = ("op sequences over 1-4 glyphs (polygons, open paths, cubics, quadratics with implied points, all-off-curve "
        "contours, degenerate and a few malformed contours, components nested up to 3 levels with dyadic / flipped / "
        "singular transformations and missing bases, anchors, image), observations interleaved with "
        "move/reverse/setStartPoint/clockwise/margin/metric mutations, point edits, assignments of a component's "
        "transformation and base glyph, deletion / re-adding / renaming of glyphs; edits of a base glyph are followed by "
        "reads (bounds, controlPointBounds, area, margins, cache probes) of and margin assignments on the glyphs that "
        "reference it; "
        "non-trivial = at least one mutation that changed something AND at least one later observation of the same "
        "glyph that returned a value; distinct = distinct op lists")
ASSUMPTIONS = [
    "coordinates are rationals; float rounding is outside the model: the exact stream uses integers and dyadic "
    "fractions (exact in IEEE double), the float stream is judged by the oracle with relative tolerance 1e-9 "
    "(1e-6 for curve extrema)",
    "curve extrema (bezierTools.calcCubicBounds/calcQuadraticBounds) are a parameter of the model; on outlines with "
    "off-curve points bounds/margins are compared against the oracle's own extrema computation, not the model",
    "contours with more than two off-curves before a `curve` point (super-beziers, invalid in UFO) are not generated",
    "component graphs are acyclic (also through names that are dangling at the moment) and at most 4 levels deep",
    "a glyph is renamed only to a name that is not in the layer",
    "glyph.area / pointInside raising NotImplementedError on open contours is fontTools' documented 'undefined' "
    "and is accepted",
    "pointInside is cross-checked by the oracle only (exactly on polygons, away from the outline on curves)",
    "reads made from inside notification callbacks are judged by the oracle only, and only for the notifying object "
    "itself, a glyph's area inside its own notifications, and the unions (bounds, control bounds, margins) of the glyph the "
    "running mutation is applied to; a glyph that is only built on the edited one may still hold stale component bounds "
    "inside Glyph.ComponentsChanged (its components hear of the change one after the other): read, not judged",
]
TRUSTED = [
    "fontTools 4.43 pens (PointToSegmentPen, BasePen, TransformPen, Bounds/ControlBounds/AreaPen, "
    "ReverseContourPointPen) are ported into the model and validated by the same differential runs",
    "curved areas: the implementation's float is replaced by the oracle's exact rational when they agree to 1e-9 "
    "relative, then compared exactly with the model's rational",
]

SEGTYPES = ("move", "line", "curve", "qcurve")


# ---------------------------------------------------------------------------------------
# numbers: case values are ints, floats or "n/d" strings (dyadic, turned into exact floats)
# ---------------------------------------------------------------------------------------

def pynum(v):
    if isinstance(v, str):
        return float(F(v))
    return v


def frac(v):
    if isinstance(v, str):
        return F(v)
    return F(v)


def ratom(v):
    f = F(v)
    if f.denominator == 1:
        return Atom(str(f.numerator))
    return Atom("%d/%d" % (f.numerator, f.denominator))


# ---------------------------------------------------------------------------------------
# generation
# ---------------------------------------------------------------------------------------

def _coord(rng, mode, lo=-200, hi=700):
    if mode == "float":
        r = rng.random()
        if r < 0.6:
            return round(rng.uniform(lo, hi), rng.choice([1, 2, 3]))
        if r < 0.8:
            return rng.uniform(lo, hi)
        if r < 0.9:
            return rng.randint(lo, hi)
        return rng.uniform(lo, hi) * rng.choice([1e-3, 1e3])
    r = rng.random()
    if r < 0.55:
        return rng.randint(lo, hi)
    if r < 0.7:
        return float(rng.randint(lo, hi))
    if r < 0.85:
        return "%d/2" % (2 * rng.randint(lo, hi) + 1)
    return "%d/8" % (8 * rng.randint(lo, hi) + rng.choice([1, 3, 5, 7]))


def _delta(rng, mode):
    r = rng.random()
    if r < 0.12:
        return 0
    if r < 0.2:
        return rng.choice([1, -1, 0.0, 100, -250])
    return _coord(rng, mode, -300, 300)


def _pt(rng, mode, cx, cy, rad):
    if mode == "float":
        return [cx + rng.uniform(-rad, rad), cy + rng.uniform(-rad, rad)] if rng.random() < 0.5 else \
               [round(cx + rng.uniform(-rad, rad), 2), round(cy + rng.uniform(-rad, rad), 2)]
    x = _coord(rng, mode, cx - rad, cx + rad)
    y = _coord(rng, mode, cy - rad, cy + rad)
    return [x, y]


class _Ids(object):
    def __init__(self):
        self.n = 0

    def fresh(self, rng, p=0.15):
        if rng.random() < p:
            self.n += 1
            return "id%d" % self.n
        return None


def _mk(rng, ids, xy, typ):
    smooth = typ in ("curve", "qcurve") and rng.random() < 0.3
    name = rng.choice(["top", "a", "b"]) if rng.random() < 0.15 else None
    return [xy[0], xy[1], typ, smooth, name, ids.fresh(rng)]


def gen_contour(rng, mode, ids, kind=None):
    """a list of points [x, y, type|None, smooth, name, identifier]"""
    cx, cy = rng.randint(0, 400), rng.randint(0, 400)
    rad = rng.choice([20, 100, 300])
    kinds = ["polygon", "polygon", "openline", "cubic", "cubic", "quad", "quad", "blob", "mixed", "mixed",
             "opencurve", "single", "empty", "dup", "tame"]
    kind = kind or rng.choice(kinds)
    P = lambda: _pt(rng, mode, cx, cy, rad)
    pts = []
    if kind == "empty":
        return []
    if kind == "single":
        return [_mk(rng, ids, P(), rng.choice(["move", "line", "curve", None]))]
    if kind == "polygon":
        for _ in range(rng.randint(2, 7)):
            pts.append(_mk(rng, ids, P(), "line"))
        return pts
    if kind == "dup":
        # repeated points, closing point equal to the start, zero-length segments
        base = [P() for _ in range(rng.randint(2, 4))]
        seq = []
        for b in base:
            seq.append(b)
            if rng.random() < 0.4:
                seq.append(list(b))
        if rng.random() < 0.6:
            seq.append(list(seq[0]))
        return [_mk(rng, ids, xy, "line") for xy in seq]
    if kind == "openline":
        pts.append(_mk(rng, ids, P(), "move"))
        for _ in range(rng.randint(1, 5)):
            pts.append(_mk(rng, ids, P(), "line"))
        if rng.random() < 0.3:
            pts.append(_mk(rng, ids, [pts[0][0], pts[0][1]], "line"))
        return pts
    if kind == "blob":
        for _ in range(rng.randint(2, 6)):
            pts.append(_mk(rng, ids, P(), None))
        return pts
    if kind == "tame":
        # curves whose handles lie on the chord box: extrema are at on-curve points
        n = rng.randint(2, 4)
        ons = [P() for _ in range(n)]
        for i in range(n):
            a, b = ons[i - 1], ons[i]
            fa, fb = frac(a[0]), frac(a[1])
            ga, gb = frac(b[0]), frac(b[1])
            if mode == "float":
                h1 = [a[0] + (b[0] - a[0]) * 0.25, a[1]]
                h2 = [b[0], a[1] + (b[1] - a[1]) * 0.75]
            else:
                h1 = [str((fa + ga) / 2), str(fb)]
                h2 = [str(ga), str((fb + gb) / 2)]
            pts.append(_mk(rng, ids, h1, None))
            pts.append(_mk(rng, ids, h2, None))
            pts.append(_mk(rng, ids, b, "curve"))
        return pts
    # segment-wise kinds
    openc = kind == "opencurve"
    if openc:
        pts.append(_mk(rng, ids, P(), "move"))
    nseg = rng.randint(2, 5)
    for _ in range(nseg):
        if kind == "cubic" or (kind in ("mixed", "opencurve") and rng.random() < 0.45):
            r = rng.random()
            noff = 2 if r < 0.8 else (1 if r < 0.9 else 0)
            for _ in range(noff):
                pts.append(_mk(rng, ids, P(), None))
            pts.append(_mk(rng, ids, P(), "curve"))
        elif kind == "quad" or (kind in ("mixed", "opencurve") and rng.random() < 0.5):
            for _ in range(rng.choice([0, 1, 1, 1, 2, 2, 3])):
                pts.append(_mk(rng, ids, P(), None))
            pts.append(_mk(rng, ids, P(), "qcurve"))
        else:
            pts.append(_mk(rng, ids, P(), "line"))
    if not openc and rng.random() < 0.4:
        # a closed contour may start anywhere, also on an off-curve point
        k = rng.randrange(len(pts))
        pts = pts[k:] + pts[:k]
    return pts


def gen_malformed(rng, mode, ids):
    """invalid point lists on which nothing raises"""
    cx, cy, rad = 100, 100, 100
    P = lambda: _pt(rng, mode, cx, cy, rad)
    # open contour with trailing off-curves (dropped by the segment pen and by reverse)
    return [_mk(rng, ids, P(), "move")] + [_mk(rng, ids, P(), "line") for _ in range(rng.randint(1, 3))] + \
           [_mk(rng, ids, P(), None) for _ in range(rng.randint(1, 2))]


def gen_penerror_case(rng, tier):
    """A contour the segment pens reject (PenError): every geometry read must raise, and nothing may
    change.  Kept apart from the other cases and never moved: a failed representation request leaves
    an empty cache entry behind, on which Contour.move raises KeyError half way (invalid input, out of
    the property's domain)."""
    mode = "exact"
    ids = _Ids()
    P = lambda: _pt(rng, mode, 100, 100, 100)
    r = rng.random()
    if r < 0.4:                 # line preceded by an off-curve
        bad = [_mk(rng, ids, P(), "line"), _mk(rng, ids, P(), None), _mk(rng, ids, P(), "line"),
               _mk(rng, ids, P(), "line")]
    elif r < 0.7:               # a move inside a contour that does not start with one (raises once rotated)
        bad = [_mk(rng, ids, P(), "line"), _mk(rng, ids, P(), "move"), _mk(rng, ids, P(), "line")]
    else:                       # a second move in an open contour
        bad = [_mk(rng, ids, P(), "move"), _mk(rng, ids, P(), "line"), _mk(rng, ids, P(), "move"),
               _mk(rng, ids, P(), "line")]
    contours = [bad]
    if rng.random() < 0.5:
        contours.insert(rng.randrange(2), gen_contour(rng, mode, ids, "polygon"))
    ops = [["world", rng.random() < 0.8],
           ["newGlyph", "g0", _coord(rng, mode, 0, 1000), _coord(rng, mode, 0, 1000), None, contours, [], [], [0, 0]]]
    nc = len(contours)
    for _ in range(rng.randint(4, 12)):
        i = rng.randrange(nc)
        ops.append(rng.choice([
            ["cBounds", "g0", i], ["cCpb", "g0", i], ["cArea", "g0", i], ["cOpen", "g0", i], ["cPoints", "g0", i],
            ["cSegments", "g0", i], ["gBounds", "g0"], ["gCpb", "g0"], ["gArea", "g0"], ["gMargins", "g0"],
            ["cReverse", "g0", i], ["cSetStart", "g0", i, rng.randrange(-4, 4)], ["cSetClockwise", "g0", i, True],
            ["setRight", "g0", 10], ["setTop", "g0", 5], ["setBottom", "g0", 5], ["setWidth", "g0", 300],
            ["gMetrics", "g0"]]))
    return dict(mode=mode, ops=ops)


TRANSFORMS = [
    [1, 0, 0, 1], [1, 0, 0, 1], [-1, 0, 0, 1], [1, 0, 0, -1], [2, 0, 0, 2], ["1/2", 0, 0, "1/2"],
    [0, 1, -1, 0], [1, "1/2", 0, 1], ["3/2", 0, "1/4", -1], [0, 0, 0, 0], [1, 0, 0, 0],
    [-1, 0, 0, -1], ["-3/4", "1/2", "1/2", 1], [0, "-5/4", "-1/2", 0], ["1/8", 0, 0, 3], [2, 1, 1, "1/2"],
]


def _transform(rng, mode):
    if mode == "float" and rng.random() < 0.5:
        a = rng.uniform(0, 6.3)
        s = rng.uniform(0.3, 2)
        m = [s * math.cos(a), s * math.sin(a), -s * math.sin(a), s * math.cos(a)]
    else:
        m = list(rng.choice(TRANSFORMS))
    return m + [_delta(rng, mode), _delta(rng, mode)]


def _is_curved_contour(pts):
    return any(p[2] is None for p in pts)


# Editing a glyph that components of another glyph point at used to leave those components' cached bounds stale
# (finding F11, property C03: no eviction on base-glyph data changes; repaired in /repo 32fccc7), which C17's
# oracle sees as wrong bounds/margins of the referencing glyph.  Such histories are generated since the repair.
ALLOW_BASE_EDITS = True


def _vo(rng, mode):
    """vertical origin: mostly unset; the boundary value 0 (falsy, but a set origin) on purpose"""
    r = rng.random()
    if r < 0.6:
        return None
    if r < 0.72:
        return 0
    return _coord(rng, mode)


INSIDE_EPS = 0.125


def gen_case(rng, tier):
    if rng.random() < 0.03:
        return gen_penerror_case(rng, tier)
    mode = "float" if rng.random() < 0.25 else "exact"
    in_font = rng.random() < 0.88
    # in a font, the glyphs may live in a non-default layer whose default-layer namesakes are decoys
    ops = [["world", in_font, in_font and rng.random() < 0.3]]
    # what the generator remembers: per contour the on/off-curve pattern (None once it lost track)
    glyphs = {}
    order = []
    nbase = rng.randint(1, 3)
    line_only = rng.random() < 0.35

    def remember(name, contours, comps, anchors):
        glyphs[name] = dict(pats=[[p[2] is not None for p in c] for c in contours], n=[len(c) for c in contours],
                            opens=[bool(c) and c[0][2] == "move" for c in contours],
                            curvedc=[_is_curved_contour(c) for c in contours], comps=[list(k) for k in comps],
                            anchors=len(anchors))
        order.append(name)

    def track_reverse(g, i, twice=False):
        """keep the on/off-curve pattern of contour i in step with a reversal"""
        pat = g["pats"][i]
        if not pat:
            return
        if g["opens"][i]:
            p = list(pat)
            while p and not p[-1]:
                p.pop()             # the reversing pen drops the trailing off-curves of an (invalid) open contour
            g["pats"][i] = p if twice else p[::-1]
            g["n"][i] = len(p)
        elif not twice:
            g["pats"][i] = [pat[0]] + pat[:0:-1]   # closed contours keep their first point

    for gi in range(nbase):
        name = "g%d" % gi
        ids = _Ids()
        contours = []
        for _ in range(rng.choice([0, 1, 1, 2, 2, 3])):
            if line_only and rng.random() < 0.1:
                # invalid-but-accepted point lists only among line outlines (every answer stays exact)
                contours.append(gen_malformed(rng, mode, ids))
            elif line_only:
                contours.append(gen_contour(rng, mode, ids, rng.choice(["polygon", "polygon", "openline", "dup", "single"])))
            else:
                contours.append(gen_contour(rng, mode, ids))
        anchors = [[_coord(rng, mode), _coord(rng, mode)] for _ in range(rng.choice([0, 0, 1, 2]))]
        vo = _vo(rng, mode)
        ops.append(["newGlyph", name, _coord(rng, mode, 0, 1000), _coord(rng, mode, 0, 1000), vo, contours, [], anchors,
                    [_delta(rng, mode), _delta(rng, mode)]])
        remember(name, contours, [], anchors)
    if in_font:
        for ci in range(rng.choice([0, 1, 1, 2, 2, 3])):
            name = "k%d" % ci
            ids = _Ids()
            comps = []
            for _ in range(rng.randint(1, 3)):
                base = rng.choice(order) if rng.random() < 0.93 else "missing"
                if ci and rng.random() < 0.45:
                    base = "k%d" % (ci - 1)         # a chain: k2 -> k1 -> k0 -> g*
                comps.append([base] + _transform(rng, mode))
            contours = []
            if rng.random() < 0.4:
                contours.append(gen_contour(rng, mode, ids, "polygon" if line_only else None))
            anchors = [[_coord(rng, mode), _coord(rng, mode)] for _ in range(rng.choice([0, 1]))]
            vo = _vo(rng, mode)
            ops.append(["newGlyph", name, _coord(rng, mode, 0, 1000), _coord(rng, mode, 0, 1000), vo, contours, comps,
                        anchors, [0, 0]])
            remember(name, contours, comps, anchors)

    def curved(name, depth=0):
        g = glyphs.get(name)
        if g is None or depth > 8:
            return False
        return any(g["curvedc"]) or any(curved(k[0], depth + 1) for k in g["comps"])

    def referenced(name):
        return any(any(k[0] == name for k in g["comps"]) for g in glyphs.values())

    def reach(a, b, depth=0):
        """does the glyph named a reference the name b (through any number of levels)?"""
        g = glyphs.get(a)
        if g is None or depth > 8:
            return False
        return any(k[0] == b or reach(k[0], b, depth + 1) for k in g["comps"])

    def dependants(name):
        return [x for x in order if x != name and reach(x, name)]

    def dep_reads(x):
        gx = glyphs[x]
        res = [["gBounds", x], ["gCpb", x], ["gArea", x], ["gMargins", x], ["gAreaCached", x]]
        for j in range(len(gx["comps"])):
            res += [["kBounds", x, j], ["kCpb", x, j], ["kCached", x, j]]
        return res

    deleted = []
    fresh_names = ["r%d" % i for i in range(6)]

    def base_edit():
        """an edit of a glyph other glyphs are built on, between reads of those glyphs"""
        cands = [x for x in order if dependants(x)]
        if deleted and rng.random() < 0.5:
            name = None
        elif cands and rng.random() < 0.85:
            name = rng.choice(cands)
        else:
            name = rng.choice(order)
        deps = dependants(name) if name else [x for x in order if any(reach(x, d) for d in deleted)]
        if deps and rng.random() < 0.75:
            for x in rng.sample(deps, min(len(deps), rng.randint(1, 2))):
                rd = dep_reads(x)
                for o in rng.sample(rd, rng.randint(1, min(4, len(rd)))):
                    ops.append(o)
        if name is None:
            # re-add a deleted glyph (a new object under the old name), with a new outline
            nm = rng.choice(deleted)
            deleted.remove(nm)
            ids = _Ids()
            contours = [gen_contour(rng, mode, ids, rng.choice(["polygon", "polygon", "openline"]) if line_only else None)
                        for _ in range(rng.choice([0, 1, 1, 2]))]
            comps = []
            if rng.random() < 0.3:
                for b in rng.sample(order, min(len(order), 1)):
                    if b != nm and not reach(b, nm):
                        comps.append([b] + _transform(rng, mode))
            ops.append(["newGlyph", nm, _coord(rng, mode, 0, 1000), _coord(rng, mode, 0, 1000), _vo(rng, mode), contours,
                        comps, [], [0, 0]])
            remember(nm, contours, comps, [])
            name = nm
        else:
            g = glyphs[name]
            nc, nk = len(g["n"]), len(g["comps"])
            choices = ["gDelete", "gRename", "gMove"]
            if nc:
                choices += ["cMove", "cReverse", "cSetPoint", "cSetPoint", "cInsertPoint", "cRemovePoint", "cSetClockwise"]
            if nk:
                choices += ["kSetT", "kSetT", "kSetBase", "kMove"]
            if not (mode == "exact" and curved(name)):
                choices += ["setLeft"]
            what = rng.choice(choices)
            if what == "gDelete":
                if len(order) < 2:
                    return
                ops.append(["gDelete", name])
                order.remove(name)
                del glyphs[name]
                deleted.append(name)
            elif what == "gRename":
                pool = [n for n in fresh_names + deleted + ["missing"] if n not in glyphs and not reach(name, n)]
                if not pool:
                    return
                new = rng.choice(pool)
                ops.append(["gRename", name, new])
                glyphs[new] = glyphs.pop(name)
                order[order.index(name)] = new
                if new in deleted:
                    deleted.remove(new)
                if new in fresh_names:
                    fresh_names.remove(new)
                name = new
            elif what == "gMove":
                ops.append(["gMove", name, _delta(rng, mode), _delta(rng, mode)])
            elif what == "setLeft":
                ops.append(["setLeft", name, _delta(rng, mode)])
            elif what == "cMove":
                ops.append(["cMove", name, rng.randrange(nc), _delta(rng, mode), _delta(rng, mode)])
            elif what == "cReverse":
                i = rng.randrange(nc)
                ops.append(["cReverse", name, i])
                track_reverse(g, i)
            elif what == "cSetClockwise":
                i = rng.randrange(nc)
                ops.append(["cSetClockwise", name, i, rng.random() < 0.5])
                g["pats"][i] = None
            elif what == "cSetPoint":
                i = rng.randrange(nc)
                if not g["n"][i]:
                    return
                j = rng.randrange(g["n"][i]) if rng.random() < 0.95 else g["n"][i] + rng.randint(0, 2)
                ops.append(["cSetPoint", name, i, j, _coord(rng, mode, -100, 500), _coord(rng, mode, -100, 500)])
            elif what == "cInsertPoint":
                i = rng.randrange(nc)
                pat = g["pats"][i]
                if not pat:
                    return
                js = [j for j in range(1, len(pat) + 1) if pat[j - 1]]
                if not js:
                    return
                j = rng.choice(js)
                ops.append(["cInsertPoint", name, i, j,
                            [_coord(rng, mode, -100, 500), _coord(rng, mode, -100, 500), "line", False, None, None]])
                pat.insert(j, True)
                g["n"][i] += 1
            elif what == "cRemovePoint":
                i = rng.randrange(nc)
                pat = g["pats"][i]
                if not pat:
                    return
                js = [j for j in range(1, len(pat)) if pat[j] and pat[j - 1]]
                if not js:
                    return
                j = rng.choice(js)
                ops.append(["cRemovePoint", name, i, j])
                del pat[j]
                g["n"][i] -= 1
            elif what == "kSetT":
                j = rng.randrange(nk)
                t = _transform(rng, mode)
                ops.append(["kSetT", name, j] + t)
                if rng.random() < 0.25:
                    # assigned again: an equal value is no change
                    ops.append(rng.choice(dep_reads(name)))
                    ops.append(["kSetT", name, j] + t)
            elif what == "kSetBase":
                j = rng.randrange(nk)
                pool = [b for b in order + ["missing"] if b != name and not reach(b, name)]
                if not pool:
                    return
                b = rng.choice(pool)
                ops.append(["kSetBase", name, j, b])
                g["comps"][j] = [b] + list(g["comps"][j][1:])
            elif what == "kMove":
                ops.append(["kMove", name, rng.randrange(nk), _delta(rng, mode), _delta(rng, mode)])
        deps = dependants(name)
        if name in glyphs and rng.random() < 0.5:
            deps = deps + [name]
        if deps and rng.random() < 0.92:
            for x in rng.sample(deps, min(len(deps), rng.randint(1, 3))):
                rd = dep_reads(x)
                for o in rng.sample(rd, rng.randint(1, min(5, len(rd)))):
                    ops.append(o)
                if rng.random() < 0.3 and not (mode == "exact" and curved(x)):
                    ops.append([rng.choice(["setLeft", "setRight", "setBottom", "setTop"]), x, _delta(rng, mode)])
                    ops.append(["gMargins", x])
                    ops.append(["gMetrics", x])
                    if rng.random() < 0.5:
                        ops.append(rng.choice(dep_reads(x)))

    nops = rng.randint(6, 22) if tier == "quick" else rng.randint(8, 40)
    for _ in range(nops):
        if in_font and rng.random() < 0.3:
            base_edit()
            continue
        name = rng.choice(order)
        g = glyphs[name]
        nc, nk, na = len(g["n"]), len(g["comps"]), g["anchors"]
        frozen = referenced(name) and not ALLOW_BASE_EDITS
        r = rng.random()
        obs = []
        if nc:
            i = rng.randrange(nc)
            obs += [["cBounds", name, i], ["cCpb", name, i], ["cArea", name, i], ["cOpen", name, i],
                    ["cPoints", name, i], ["cSegments", name, i]]
        if nk:
            j = rng.randrange(nk)
            obs += [["kBounds", name, j], ["kCpb", name, j], ["kTransform", name, j], ["kCached", name, j]]
        obs += [["gBounds", name], ["gCpb", name], ["gArea", name], ["gMargins", name], ["gMetrics", name],
                ["gAnchors", name], ["gImage", name], ["gAreaCached", name]]
        if r < 0.42:
            for o in rng.sample(obs, rng.randint(1, min(4, len(obs)))):
                ops.append(o)
            continue
        if r < 0.50:
            # point-inside probes, off the coordinate lattice of the outline
            if mode == "exact":
                x = "%d/4" % (2 * rng.randint(-100, 1000) + 1)
                y = "%d/4" % (2 * rng.randint(-100, 1000) + 1)
            else:
                x, y = rng.uniform(-50, 500), rng.uniform(-50, 500)
            eo = rng.random() < 0.3
            which = rng.random()
            if nc and which < 0.45:
                ops.append(["inside", "c", name, rng.randrange(nc), x, y, eo])
            elif nk and which < 0.7:
                ops.append(["inside", "k", name, rng.randrange(nk), x, y, eo])
            else:
                ops.append(["inside", "g", name, 0, x, y, eo])
            continue
        # a mutation, often sandwiched between observations (they fill the caches that move patches)
        pre = rng.random() < 0.6
        post = rng.random() < 0.8
        mut = None
        kind = rng.random()
        if kind < 0.16 and nc:
            mut = ["cMove", name, rng.randrange(nc), _delta(rng, mode), _delta(rng, mode)]
        elif kind < 0.28:
            mut = ["gMove", name, _delta(rng, mode), _delta(rng, mode)]
        elif kind < 0.38 and nc:
            mut = [rng.choice(["cReverse", "cReverse", "cReverse2"]), name, rng.randrange(nc)]
        elif kind < 0.50 and nc:
            i = rng.randrange(nc)
            n = g["n"][i]
            pat = g["pats"][i]
            ons = list(range(n)) if pat is None else [ix for ix, on in enumerate(pat) if on]
            rr = rng.random()
            if ons and rr < 0.75:
                ix = rng.choice(ons)
                if rng.random() < 0.2:
                    ix -= n
            elif n and rr < 0.9:
                ix = rng.randrange(-n, n)
            else:
                ix = rng.choice([n, n + 1, -n - 1, 0])
            mut = ["cSetStart", name, i, ix]
        elif kind < 0.56 and nc:
            mut = ["cSetClockwise", name, rng.randrange(nc), rng.random() < 0.5]
        elif kind < 0.62 and nk:
            mut = ["kMove", name, rng.randrange(nk), _delta(rng, mode), _delta(rng, mode)]
        elif kind < 0.66 and na:
            mut = ["aMove", name, rng.randrange(na), _delta(rng, mode), _delta(rng, mode)]
        elif kind < 0.69:
            mut = ["iMove", name, _delta(rng, mode), _delta(rng, mode)]
        elif kind < 0.92:
            side = rng.choice(["setLeft", "setRight", "setBottom", "setTop"])
            if mode == "exact" and curved(name):
                # the model has no curve extrema: margins of curved glyphs are set in the float stream only
                side = rng.choice(["setWidth", "setHeight"])
            mut = [side, name, _delta(rng, mode)]
        elif kind < 0.96:
            mut = [rng.choice(["setWidth", "setHeight"]), name, _coord(rng, mode, 0, 1000)]
        else:
            mut = ["setVO", name, None if rng.random() < 0.3 else (0 if rng.random() < 0.25 else _coord(rng, mode))]
        if mut is None:
            continue
        if frozen and mut[0] in ("cMove", "gMove", "kMove", "cReverse", "cReverse2", "cSetStart", "cSetClockwise",
                                 "setLeft"):
            continue
        if pre:
            for o in rng.sample(obs, rng.randint(1, min(3, len(obs)))):
                ops.append(o)
        ops.append(mut)
        # keep the on/off pattern in step (reverse and setStartPoint move points around)
        if mut[0] in ("cReverse", "cReverse2"):
            track_reverse(g, mut[2], twice=mut[0] == "cReverse2")
        elif mut[0] == "cSetStart":
            pat = g["pats"][mut[2]]
            n = g["n"][mut[2]]
            if pat is not None and -n <= mut[3] < n and n:
                g["pats"][mut[2]] = None    # whether it applied depends on openness: stop tracking
        elif mut[0] == "cSetClockwise":
            g["pats"][mut[2]] = None
        if post:
            for o in rng.sample(obs, rng.randint(1, min(4, len(obs)))):
                ops.append(o)
            if mut[0] in ("setLeft", "setRight", "setBottom", "setTop"):
                ops.append(["gMargins", name])
                ops.append(["gMetrics", name])
    case = dict(mode=mode, ops=ops)
    held_glyphs = [x for x in order if glyphs[x]["n"]]
    if in_font and held_glyphs and rng.random() < 0.12:
        # a batch edit: the notifications of a contour (or of its glyph) are held or disabled by the user around
        # reversals / direction assignments, the caches being warm; judged right after each call and after the
        # release.  Last in the history (what is cached above a contour whose notifications were disabled is left
        # stale by design) and oracle only.
        name = rng.choice(held_glyphs)
        g = glyphs[name]
        i = rng.randrange(len(g["n"]))
        how = rng.choice(["hold-c", "hold-c", "disable-c", "hold-g", "disable-g"])
        creads = [["cArea", name, i], ["cBounds", name, i], ["cCpb", name, i], ["cOpen", name, i], ["cPoints", name, i]]
        ops.append(["cArea", name, i])
        for o in rng.sample(creads, rng.randint(0, 3)):
            ops.append(o)
        if how.startswith("hold") and rng.random() < 0.5:
            ops.append(rng.choice([["gArea", name], ["gBounds", name]]))
        ops.append(["hold", name, i, how])
        for _ in range(rng.randint(1, 3)):
            if rng.random() < 0.5:
                ops.append(["cReverse", name, i])
            else:
                ops.append(["cSetClockwise", name, i, rng.random() < 0.5])
            ops.append(["cArea", name, i])
            if rng.random() < 0.4:
                ops.append(rng.choice(creads))
        ops.append(["release", name, i, how])
        ops.append(["cArea", name, i])
        for o in rng.sample(creads, rng.randint(0, 2)):
            ops.append(o)
        if how.startswith("hold"):
            for o in rng.sample([["gArea", name], ["gBounds", name], ["gCpb", name], ["gMargins", name]], rng.randint(1, 3)):
                ops.append(o)
        if rng.random() < 0.5:
            ops.append(["cSetClockwise", name, i, rng.random() < 0.5])
            ops.append(["cArea", name, i])
        case["held"] = True
        return case
    if in_font and rng.random() < 0.14:
        # an observer (a view, a tool) that looks at the geometry from INSIDE the notifications the mutations post
        names = [n for ns in WATCHED.values() for n in ns if rng.random() < 0.7]
        if not names:
            names = ["Contour.PointsChanged"]
        case["watch"] = dict(names=names, cross=rng.random() < 0.5)
    return case


# the notifications an in-callback reader is registered for, per kind of object
WATCHED = {
    "contour": ("Contour.PointsChanged", "Contour.WindingDirectionChanged", "Contour.Changed"),
    "glyph": ("Glyph.ContoursChanged", "Glyph.ComponentsChanged", "Glyph.Changed"),
    "component": ("Component.TransformationChanged", "Component.BaseGlyphChanged", "Component.BaseGlyphDataChanged",
                  "Component.Changed"),
}


def generate(rng, tier):
    n = 2000 if tier == "quick" else 20000
    for _ in range(n):
        yield gen_case(rng, tier)


OBS_G = ["gBounds", "gCpb", "gArea", "gMargins", "gMetrics", "gAnchors"]
OBS_C = ["cBounds", "cCpb", "cArea", "cOpen", "cPoints", "cSegments"]
OBS_K = ["kBounds", "kCpb", "kTransform"]


def _all_obs(ops):
    res = []
    for op in ops:
        if op[0] == "newGlyph":
            name = op[1]
            for i in range(len(op[5])):
                res += [[o, name, i] for o in OBS_C]
            for j in range(len(op[6])):
                res += [[o, name, j] for o in OBS_K]
            res += [[o, name] for o in OBS_G]
    return res


def neighbourhood(case, step, rng):
    """variants around a diverging step: observe everything after it; fill every cache before it; and
    replay the diverging op after each kind of mutation the property talks about"""
    ops = case["ops"]
    prefix = ops[:step + 1]
    allobs = _all_obs(ops)
    yield dict(case, ops=prefix + allobs)
    if step > 0:
        yield dict(case, ops=ops[:step] + allobs + [ops[step]] + allobs)
    glyph_ops = [op for op in ops if op[0] == "newGlyph"]
    referenced = set(k[0] for g in glyph_ops for k in g[6])
    by_name = dict((g[1], g) for g in glyph_ops)

    def curved(name, depth=0):
        g = by_name.get(name)
        if g is None or depth > 8:
            return False
        return any(_is_curved_contour(c) for c in g[5]) or any(curved(k[0], depth + 1) for k in g[6])

    for g in glyph_ops:
        name = g[1]
        if case.get("mode", "exact") == "exact" and curved(name):
            continue    # the exact stream sets no margins on curved glyphs (their extrema are not dyadic)
        muts = [["setRight", name, 20], ["setTop", name, 12], ["setBottom", name, -5]]
        if name not in referenced or ALLOW_BASE_EDITS:
            # (the outline of a glyph that components point at stays as it is: C03 / F11)
            muts += [["gMove", name, 10, "-7/2"], ["setLeft", name, 33]]
            if g[5]:
                muts += [["cReverse", name, 0], ["cSetStart", name, 0, 1], ["cMove", name, 0, 5, 5]]
        for mut in muts:
            yield dict(case, ops=prefix + allobs + [mut] + allobs)
    yield case


# ---------------------------------------------------------------------------------------
# model side
# ---------------------------------------------------------------------------------------

def _enc_point(p):
    return [ratom(frac(p[0])), ratom(frac(p[1])), Atom(p[2] or "off"), bool(p[3]), opt(p[4]), opt(p[5])]


def enc_op(op, mode):
    k = op[0]
    if k == "world":
        return [Atom("caching"), bool(op[1])]
    if mode == "float" or k == "inside":
        return [Atom("noop")]
    if k == "newGlyph":
        _, name, w, h, vo, contours, comps, anchors, image = op
        return [Atom("newGlyph"), name, ratom(frac(w)), ratom(frac(h)), opt(None if vo is None else ratom(frac(vo))),
                [[_enc_point(p) for p in c] for c in contours],
                [[c[0]] + [ratom(frac(x)) for x in c[1:]] for c in comps],
                [[ratom(frac(a[0])), ratom(frac(a[1]))] for a in anchors],
                [ratom(frac(image[0])), ratom(frac(image[1]))]]
    if k in ("cBounds", "cCpb", "cArea", "cOpen", "cPoints", "cSegments", "kBounds", "kCpb", "kTransform", "cReverse",
             "cReverse2", "kCached"):
        return [Atom(k), op[1], op[2]]
    if k in ("gBounds", "gCpb", "gArea", "gMargins", "gMetrics", "gAnchors", "gImage", "gAreaCached", "gDelete"):
        return [Atom(k), op[1]]
    if k == "gRename":
        return [Atom(k), op[1], op[2]]
    if k == "cSetPoint":
        return [Atom(k), op[1], op[2], op[3], ratom(frac(op[4])), ratom(frac(op[5]))]
    if k == "cInsertPoint":
        return [Atom(k), op[1], op[2], op[3], _enc_point(op[4])]
    if k == "cRemovePoint":
        return [Atom(k), op[1], op[2], op[3]]
    if k == "kSetT":
        return [Atom(k), op[1], op[2]] + [ratom(frac(x)) for x in op[3:9]]
    if k == "kSetBase":
        return [Atom(k), op[1], op[2], op[3]]
    if k in ("cMove", "kMove", "aMove"):
        return [Atom(k), op[1], op[2], ratom(frac(op[3])), ratom(frac(op[4]))]
    if k in ("gMove", "iMove"):
        return [Atom(k), op[1], ratom(frac(op[2])), ratom(frac(op[3]))]
    if k == "cSetStart":
        return [Atom(k), op[1], op[2], op[3]]
    if k == "cSetClockwise":
        return [Atom(k), op[1], op[2], bool(op[3])]
    if k in ("setLeft", "setRight", "setBottom", "setTop", "setWidth", "setHeight"):
        return [Atom(k), op[1], ratom(frac(op[2]))]
    if k == "setVO":
        return [Atom(k), op[1], opt(None if op[2] is None else ratom(frac(op[2])))]
    raise ValueError(op)


def model_lines(case):
    # histories with an in-callback reader are judged by the oracle only: its reads fill caches at moments the
    # model's operation granularity does not have
    mode = "float" if (case.get("watch") or case.get("held")) else case.get("mode", "exact")
    return [enc_op(op, mode) for op in case["ops"]]


# ---------------------------------------------------------------------------------------
# implementation side
# ---------------------------------------------------------------------------------------

def _err(e):
    return [Atom("err"), Atom(type(e).__name__)]


def _box(b):
    return [Atom("box"), opt(None if b is None else [ratom(x) for x in b])]


def _pt_out(p):
    return [ratom(p.x), ratom(p.y), Atom(p.segmentType or "off"), bool(p.smooth), opt(p.name), opt(p.identifier)]


class _Watcher(object):
    """An observer that looks at the geometry from INSIDE notification callbacks, as a glyph view or a tool does.
    What it is given must equal an independent computation over the outline as it is at that moment.  Judged:
    * inside a notification of a contour / component: that object's own bounds, control bounds (and area);
    * inside a notification of a glyph: its area (a representation of its own);
    * inside the notifications of the glyph the running mutation was applied to, and of its contours and
      components: the glyph's bounds, control bounds and margins and its components' bounds too (the unions
      `Glyph.bounds` builds on the fly from its parts).
    Not judged (the reads are made all the same, so that what they leave in the caches meets the rest of the
    mutation): unions of a glyph that is only *built on* the changed one - the change reaches its components
    one observer at a time, a sibling component may not have heard yet - and, with `cross`, the bounds and area
    of every other glyph of the layer."""

    def __init__(self, impl, spec, mode):
        self.impl = impl
        self.names = set(spec.get("names") or ())
        self.cross = bool(spec.get("cross"))
        self.mode = mode
        self.busy = False
        self.viol = []
        self.reads = 0
        self.judged = 0

    def attach(self, kind, obj):
        if obj.dispatcher is None:
            return
        for n in WATCHED[kind]:
            if n in self.names and not obj.hasObserver(self, n):
                obj.addObserver(self, "cb", n)

    def cb(self, notification):
        if self.busy:
            return
        self.busy = True
        try:
            self.look(notification)
        except RecursionError:
            raise
        except Exception:
            pass
        finally:
            self.busy = False

    def locate(self, glyph):
        """the name under which the layer holds this very glyph object right now"""
        impl = self.impl
        if glyph is None or not impl.in_font or impl.font is None:
            return None
        name = glyph.name
        if name is None or name not in impl.layer or impl.layer[name] is not glyph:
            return None
        return name

    def read(self, snap, op, getter, judged=True):
        try:
            raw = getter()
            errname = None
        except RecursionError:
            raise
        except Exception as e:
            raw = None
            errname = type(e).__name__
        self.reads += 1
        if not judged or self.viol:
            return
        self.judged += 1
        orc = Oracle(snap, self.mode)
        orc.real = raw
        for v in orc.judge(op, None, errname, snap):
            v["signature"] += "@" + self.where
            v["inside"] = self.where
            self.viol.append(v)

    def look(self, notification):
        from defcon import Contour, Glyph, Component
        obj = notification.object
        self.where = notification.name
        snap = snap_world(self.impl)
        if isinstance(obj, Contour):
            glyph = obj.glyph
            name = self.locate(glyph)
            if name is None:
                return
            idx = [i for i, c in enumerate(glyph) if c is obj]
            if not idx:
                return
            i = idx[0]
            self.read(snap, ["cBounds", name, i], lambda: obj.bounds)
            self.read(snap, ["cCpb", name, i], lambda: obj.controlPointBounds)
            self.read(snap, ["cArea", name, i],
                      lambda: (obj.getRepresentation("defcon.contour.area"), obj.clockwise, obj.area))
            direct = name == self.impl.target
            self.read(snap, ["gBounds", name], lambda: glyph.bounds, judged=direct)
            self.read(snap, ["gCpb", name], lambda: glyph.controlPointBounds, judged=direct)
            self.read(snap, ["gArea", name], lambda: glyph.area, judged=False)
        elif isinstance(obj, Glyph):
            glyph = obj
            name = self.locate(glyph)
            if name is None:
                return
            direct = name == self.impl.target
            self.read(snap, ["gBounds", name], lambda: glyph.bounds, judged=direct)
            self.read(snap, ["gCpb", name], lambda: glyph.controlPointBounds, judged=direct)
            self.read(snap, ["gArea", name], lambda: glyph.area)
            self.read(snap, ["gMargins", name],
                      lambda: (glyph.leftMargin, glyph.rightMargin, glyph.bottomMargin, glyph.topMargin), judged=direct)
            for j, k in enumerate(glyph.components):
                self.read(snap, ["kBounds", name, j], lambda k=k: k.bounds, judged=direct)
                self.read(snap, ["kCpb", name, j], lambda k=k: k.controlPointBounds, judged=direct)
        elif isinstance(obj, Component):
            glyph = obj.glyph
            name = self.locate(glyph)
            if name is None:
                return
            idx = [j for j, k in enumerate(glyph.components) if k is obj]
            if not idx:
                return
            j = idx[0]
            direct = name == self.impl.target
            self.read(snap, ["kBounds", name, j], lambda: obj.bounds)
            self.read(snap, ["kCpb", name, j], lambda: obj.controlPointBounds)
            self.read(snap, ["gBounds", name], lambda: glyph.bounds, judged=direct)
            self.read(snap, ["gCpb", name], lambda: glyph.controlPointBounds, judged=direct)
            self.read(snap, ["gArea", name], lambda: glyph.area, judged=False)
        else:
            return
        if self.cross:
            for other in sorted(self.impl.layer.keys()):
                g2 = self.impl.layer[other]
                if g2 is glyph:
                    continue
                self.read(snap, ["gBounds", other], lambda: g2.bounds, judged=False)
                self.read(snap, ["gCpb", other], lambda: g2.controlPointBounds, judged=False)
                self.read(snap, ["gArea", other], lambda: g2.area, judged=False)

    def drain(self):
        v, self.viol = self.viol, []
        return v


class Impl(object):
    def __init__(self):
        self.in_font = True
        self.font = None
        self.glyphs = {}
        self.keep = []
        self.other_layer = False
        self.layer = None
        self.raw = None       # the uncanonicalised answer of the last observation (for the oracle)
        self.mid = None       # the point list between the two reversals of cReverse2
        self.watcher = None   # the in-callback reader, when the case asks for one
        self.target = None    # the name of the glyph the running operation is applied to

    def glyph(self, name):
        if self.in_font:
            if self.font is None:
                raise KeyError(name)
            return self.layer[name]
        return self.glyphs[name]

    def has_glyph(self, name):
        if self.in_font:
            return self.font is not None and name in self.layer
        return name in self.glyphs

    def new_glyph(self, op):
        from defcon import Font, Glyph
        _, name, w, h, vo, contours, comps, anchors, image = op
        if self.in_font:
            if self.font is None:
                self.font = Font()
                self.keep.append(self.font)
                self.layer = self.font.newLayer("other") if self.other_layer else self.font.layers.defaultLayer
                self.keep.append(self.layer)
            if self.other_layer:
                # decoy of the same name in the default layer: a huge square nothing in the case resembles
                d = self.font.newGlyph(name)
                dp = d.getPointPen()
                dp.beginPath()
                for xy in ((-90000, -90000), (90000, -90000), (90000, 90000), (-90000, 90000)):
                    dp.addPoint(xy, segmentType="line")
                dp.endPath()
                self.keep.append(d)
            g = self.layer.newGlyph(name)
        else:
            g = Glyph()
            g.name = name
            self.glyphs[name] = g
        self.keep.append(g)
        g.width = pynum(w)
        g.height = pynum(h)
        if vo is not None:
            g.verticalOrigin = pynum(vo)
        pen = g.getPointPen()
        for c in contours:
            pen.beginPath()
            for p in c:
                pen.addPoint((pynum(p[0]), pynum(p[1])), segmentType=p[2], smooth=p[3], name=p[4], identifier=p[5])
            pen.endPath()
        for k in comps:
            pen.addComponent(k[0], tuple(pynum(x) for x in k[1:]))
        for a in anchors:
            g.appendAnchor(dict(x=pynum(a[0]), y=pynum(a[1]), name="anchor"))
        if image[0] or image[1]:
            g.image.move((pynum(image[0]), pynum(image[1])))
        for c in g:
            self.keep.append(c)
            self.keep.extend(list(c))
        self.keep.extend(g.components)
        self.keep.extend(g.anchors)
        self.keep.append(g.image)
        if self.watcher is not None:
            self.watcher.attach("glyph", g)
            for c in g:
                self.watcher.attach("contour", c)
            for k in g.components:
                self.watcher.attach("component", k)
        return Atom("ok")

    def do(self, op, exact_area):
        """returns the canonical value; `exact_area(kind, glyph, index, value)` snaps curved areas"""
        k = op[0]
        ok = Atom("ok")
        self.raw = None
        self.mid = None
        if k == "world":
            self.in_font = bool(op[1])
            self.other_layer = len(op) > 2 and bool(op[2])
            return ok
        if k == "newGlyph":
            return self.new_glyph(op)
        g = self.glyph(op[2] if k == "inside" else op[1])
        if k == "cBounds":
            c = g[op[2]]
            b = self.raw = c.bounds
            return Atom("curved") if any(p.segmentType is None for p in c) else _box(b)
        if k == "cCpb":
            b = self.raw = g[op[2]].controlPointBounds
            return _box(b)
        if k == "cArea":
            c = g[op[2]]
            signed = c.getRepresentation("defcon.contour.area")
            cw = c.clockwise
            a = c.area
            self.raw = (signed, cw, a)
            s2 = exact_area("c", g, op[2], signed)
            # `area` must be |signed|; when it is not, the raw value goes to the diff
            a2 = abs(s2) if F(a) == abs(F(signed)) else F(a)
            return [Atom("area"), ratom(s2), bool(cw), ratom(a2)]
        if k == "cOpen":
            self.raw = bool(g[op[2]].open)
            return self.raw
        if k == "cPoints":
            return [Atom("points")] + [_pt_out(p) for p in g[op[2]]]
        if k == "cSegments":
            return [Atom("segments")] + [[_pt_out(p) for p in s] for s in g[op[2]].segments]
        if k == "kBounds":
            comp = g.components[op[2]]
            b = self.raw = comp.bounds
            return Atom("curved") if _glyph_curved(self, comp.baseGlyph) else _box(b)
        if k == "kCpb":
            b = self.raw = g.components[op[2]].controlPointBounds
            return _box(b)
        if k == "kTransform":
            return [Atom("transform")] + [ratom(x) for x in g.components[op[2]].transformation]
        if k in ("hold", "release"):
            obj = g[op[2]] if op[3].endswith("-c") else g
            if k == "hold":
                if op[3].startswith("hold"):
                    obj.holdNotifications()
                else:
                    obj.disableNotifications()
            elif op[3].startswith("hold"):
                obj.releaseHeldNotifications()
            else:
                obj.enableNotifications()
            return ok
        if k == "kCached":
            comp = g.components[op[2]]
            return [Atom("cached"), bool(comp.hasCachedRepresentation("defcon.component.bounds")),
                    bool(comp.hasCachedRepresentation("defcon.component.controlPointBounds"))]
        if k == "gAreaCached":
            return [Atom("cached"), bool(g.hasCachedRepresentation("defcon.glyph.area"))]
        if k == "cSetPoint":
            c = g[op[2]]
            p = c[op[3]]
            p.x = pynum(op[4])
            p.y = pynum(op[5])
            c.postNotification("Contour.PointsChanged")
            c.dirty = True
            return ok
        if k == "cInsertPoint":
            c = g[op[2]]
            q = op[4]
            pt = c.pointClass((pynum(q[0]), pynum(q[1])), segmentType=q[2], smooth=q[3], name=q[4], identifier=q[5])
            c.insertPoint(op[3], pt)
            return ok
        if k == "cRemovePoint":
            c = g[op[2]]
            c.removePoint(c[op[3]])
            return ok
        if k == "kSetT":
            g.components[op[2]].transformation = tuple(pynum(x) for x in op[3:9])
            return ok
        if k == "kSetBase":
            g.components[op[2]].baseGlyph = op[3]
            return ok
        if k == "gDelete":
            if self.in_font:
                del self.layer[op[1]]
            else:
                del self.glyphs[op[1]]
            return ok
        if k == "gRename":
            if op[2] != op[1] and self.has_glyph(op[2]):
                raise ValueError("the harness renames to unused names only")
            g.name = op[2]
            if not self.in_font:
                self.glyphs[op[2]] = self.glyphs.pop(op[1])
            return ok
        if k == "gBounds":
            b = self.raw = g.bounds
            return Atom("curved") if _glyph_curved(self, op[1]) else _box(b)
        if k == "gCpb":
            b = self.raw = g.controlPointBounds
            return _box(b)
        if k == "gArea":
            a = self.raw = g.area
            return [Atom("rat"), ratom(exact_area("g", g, None, a))]
        if k == "gMargins":
            ms = self.raw = (g.leftMargin, g.rightMargin, g.bottomMargin, g.topMargin)
            if _glyph_curved(self, op[1]):
                return Atom("curved")
            return [Atom("margins")] + [opt(None if m is None else ratom(m)) for m in ms]
        if k == "gMetrics":
            vo = g.verticalOrigin
            return [Atom("metrics"), ratom(g.width), ratom(g.height), opt(None if vo is None else ratom(vo))]
        if k == "gAnchors":
            return [Atom("pts")] + [[ratom(a.x), ratom(a.y)] for a in g.anchors]
        if k == "gImage":
            return [Atom("pts"), [ratom(g.image["xOffset"]), ratom(g.image["yOffset"])]]
        if k == "cMove":
            g[op[2]].move((pynum(op[3]), pynum(op[4])))
            return ok
        if k == "gMove":
            g.move((pynum(op[2]), pynum(op[3])))
            return ok
        if k == "kMove":
            g.components[op[2]].move((pynum(op[3]), pynum(op[4])))
            return ok
        if k == "aMove":
            g.anchors[op[2]].move((pynum(op[3]), pynum(op[4])))
            return ok
        if k == "iMove":
            g.image.move((pynum(op[2]), pynum(op[3])))
            return ok
        if k == "cReverse":
            g[op[2]].reverse()
            return ok
        if k == "cReverse2":
            c = g[op[2]]
            c.reverse()
            first = [_pt_out(p) for p in c]
            self.mid = [(p.x, p.y, p.segmentType, bool(p.smooth), p.name, p.identifier) for p in c]
            c.reverse()
            return [Atom("twice"), [Atom("points")] + first, [Atom("points")] + [_pt_out(p) for p in c]]
        if k == "cSetStart":
            g[op[2]].setStartPoint(op[3])
            return ok
        if k == "cSetClockwise":
            g[op[2]].clockwise = bool(op[3])
            return ok
        if k == "setLeft":
            g.leftMargin = pynum(op[2])
            return ok
        if k == "setRight":
            g.rightMargin = pynum(op[2])
            return ok
        if k == "setBottom":
            g.bottomMargin = pynum(op[2])
            return ok
        if k == "setTop":
            g.topMargin = pynum(op[2])
            return ok
        if k == "setWidth":
            g.width = pynum(op[2])
            return ok
        if k == "setHeight":
            g.height = pynum(op[2])
            return ok
        if k == "setVO":
            g.verticalOrigin = None if op[2] is None else pynum(op[2])
            return ok
        if k == "inside":
            _, kind, name, i, x, y, eo = op
            pt = (pynum(x), pynum(y))
            target = g[i] if kind == "c" else (g.components[i] if kind == "k" else g)
            res = bool(target.pointInside(pt, evenOdd=eo))
            # the same question just below and just above (for the oracle: a probe whose horizontal ray only grazes a
            # curve is told apart from a wrong answer by its neighbours)
            try:
                self.inside_neighbours = (bool(target.pointInside((pt[0], pt[1] - INSIDE_EPS), evenOdd=eo)),
                                          bool(target.pointInside((pt[0], pt[1] + INSIDE_EPS), evenOdd=eo)))
            except Exception:
                self.inside_neighbours = None
            return res
        raise ValueError(op)


def _glyph_curved(impl, name, depth=0):
    try:
        g = impl.glyph(name)
    except KeyError:
        return False
    if depth > 16:
        return True
    for c in g:
        if any(p.segmentType is None for p in c):
            return True
    return any(_glyph_curved(impl, k.baseGlyph, depth + 1) for k in g.components)


# --- raw snapshots (plain attribute reads: they fill no cache) ---------------------------------

def snap_glyph(g):
    return dict(
        width=g.width, height=g.height, vo=g.verticalOrigin,
        contours=[[(p.x, p.y, p.segmentType, bool(p.smooth), p.name, p.identifier) for p in c] for c in g],
        components=[(k.baseGlyph, tuple(k.transformation)) for k in g.components],
        anchors=[(a.x, a.y) for a in g.anchors],
        image=(g.image["xOffset"], g.image["yOffset"]),
    )


def snap_world(impl):
    res = {}
    if impl.in_font:
        if impl.font is not None:
            for name in sorted(impl.layer.keys()):
                res[name] = snap_glyph(impl.layer[name])
    else:
        for name, g in impl.glyphs.items():
            res[name] = snap_glyph(g)
    return res


OBSERVATIONS = ("cBounds", "cCpb", "cArea", "cOpen", "cPoints", "cSegments", "kBounds", "kCpb", "kTransform",
                "gBounds", "gCpb", "gArea", "gMargins", "gMetrics", "gAnchors", "gImage", "inside", "kCached",
                "gAreaCached")


def run_impl(case):
    import warnings
    warnings.filterwarnings("ignore")
    import logging
    logging.disable(logging.CRITICAL)
    mode = case.get("mode", "exact")
    impl = Impl()
    watch = case.get("watch")
    if watch:
        impl.watcher = _Watcher(impl, watch, mode)
    oracle_only = bool(watch or case.get("held"))
    outs = []
    viol = []
    stats = {"mode." + mode: 1, "len": len(case["ops"])}
    changed = set()
    nontrivial = False
    after = snap_world(impl)
    for step, op in enumerate(case["ops"]):
        before = after
        orc = Oracle(before, mode)
        impl.target = None if op[0] in ("world", "newGlyph") else (op[2] if op[0] == "inside" else op[1])
        try:
            val = impl.do(op, orc.snap_area)
            errname = None
        except RecursionError:
            raise
        except Exception as e:      # every exception is an answer (the model has to give the same one)
            val = _err(e)
            errname = type(e).__name__
        after = snap_world(impl)
        k = op[0]
        stats["op." + k] = stats.get("op." + k, 0) + 1
        if errname:
            stats["err." + errname] = stats.get("err." + errname, 0) + 1
        if k == "newGlyph":
            for c in op[5]:
                stats["contour." + _classify(c)] = stats.get("contour." + _classify(c), 0) + 1
            stats["components"] = stats.get("components", 0) + len(op[6])
        elif k != "world":
            if before.get(op[1] if k != "inside" else op[2]) != after.get(op[1] if k != "inside" else op[2]):
                changed.add(op[1])
                stats["mutations_effective"] = stats.get("mutations_effective", 0) + 1
            elif k in OBSERVATIONS and errname is None and (op[1] if k != "inside" else op[2]) in changed:
                nontrivial = True
        if not viol and impl.watcher is not None:
            for v in impl.watcher.drain():
                v["step"] = step
                v["op"] = op
                viol.append(v)
        if not viol:
            orc.real = impl.raw
            orc.twice_mid = impl.mid
            orc.inside_neighbours = getattr(impl, "inside_neighbours", None)
            for v in orc.judge(op, val, errname, after):
                v["step"] = step
                v["op"] = op
                viol.append(v)
        if k == "world":
            outs.append(Atom("ok"))
        elif mode == "float" or k == "inside" or oracle_only:
            outs.append(Atom("skip"))
        else:
            outs.append(val)
    if impl.watcher is not None:
        stats["watch.cases"] = 1
        stats["watch.reads"] = impl.watcher.reads
        stats["watch.judged"] = impl.watcher.judged
    return dict(out=outs, viol=viol[:1], info=dict(nontrivial=nontrivial, stats=stats))


def _classify(c):
    if not c:
        return "empty"
    types = [p[2] for p in c]
    opn = "open" if types[0] == "move" else "closed"
    if all(t is None for t in types):
        return "blob"
    has_c = "curve" in types and None in types
    has_q = "qcurve" in types
    shape = "mixed" if has_c and has_q else ("cubic" if has_c else ("quad" if has_q else "line"))
    return opn + "." + shape


# =======================================================================================
# DIRECT ORACLE - the property evaluated on the implementation's own answers and raw state
# =======================================================================================

class Invalid(Exception):
    """the point list is not a valid UFO contour (the property does not speak about it)"""


def _mid(a, b):
    return ((a[0] + b[0]) / 2, (a[1] + b[1]) / 2)


def contour_beziers(pts):
    """UFO reading of a point list: (is_open, [bezier, ...]); each bezier a list of 2, 3 or 4 control points.
    Coordinates are Fractions.  Raises Invalid for what the GLIF specification forbids."""
    if not pts:
        return True, []
    P = [(F(p[0]), F(p[1])) for p in pts]
    T = [p[2] for p in pts]
    if any(t == "move" for t in T[1:]):
        raise Invalid("move after the first point")
    if len(pts) == 1:
        return T[0] == "move", []
    is_open = T[0] == "move"
    if is_open:
        seq = list(zip(P, T))[1:]
        while seq and seq[-1][1] is None:
            raise Invalid("open contour ends with off-curve points")
        start = P[0]
    else:
        ons = [i for i, t in enumerate(T) if t is not None]
        if not ons:
            n = len(P)
            out = []
            for i in range(n):
                a = _mid(P[i - 1], P[i])
                b = _mid(P[i], P[(i + 1) % n])
                out.append([a, P[i], b])
            return False, out
        f = ons[0]
        seq = [(P[(f + 1 + i) % len(P)], T[(f + 1 + i) % len(P)]) for i in range(len(P))]
        start = P[f]
    out = []
    cur = start
    offs = []
    for p, t in seq:
        if t is None:
            offs.append(p)
            continue
        if t == "line":
            if offs:
                raise Invalid("line preceded by off-curves")
            out.append([cur, p])
        elif t == "curve":
            if len(offs) > 2:
                raise Invalid("more than two off-curves before a curve")
            out.append([cur] + offs + [p])
        elif t == "qcurve":
            c = cur
            for i, o in enumerate(offs):
                e = p if i == len(offs) - 1 else _mid(o, offs[i + 1])
                out.append([c, o, e])
                c = e
            if not offs:
                out.append([cur, p])
        else:
            raise Invalid("move")
        cur = p
        offs = []
    return is_open, out


def _poly(ctrl):
    """power-basis coefficients of a Bezier coordinate polynomial"""
    n = len(ctrl) - 1
    return [math.comb(n, j) * sum((-1) ** (i + j) * math.comb(j, i) * ctrl[i] for i in range(j + 1))
            for j in range(n + 1)]


def _bez_area(bz):
    """integral of x dy along one Bezier"""
    xs = _poly([p[0] for p in bz])
    ys = _poly([p[1] for p in bz])
    dy = [j * ys[j] for j in range(1, len(ys))]
    tot = F(0)
    for i, a in enumerate(xs):
        for j, b in enumerate(dy):
            tot += a * b / (i + j + 1)
    return tot


def signed_area(pts):
    """signed area (counter-clockwise positive) of the contour closed by a straight line if needed"""
    is_open, bzs = contour_beziers(pts)
    if not bzs:
        return F(0)
    tot = sum((_bez_area(b) for b in bzs), F(0))
    a, b = bzs[-1][-1], bzs[0][0]
    if a != b:
        tot += _bez_area([a, b])
    return tot


def _bez_extrema(vals):
    """min and max of one coordinate of a Bezier over [0, 1] (floats)"""
    v = [float(x) for x in vals]
    cand = [v[0], v[-1]]
    c = [float(x) for x in _poly([F(x) for x in vals])]
    d = [j * c[j] for j in range(1, len(c))]
    roots = []
    if len(d) == 2 and d[1] != 0:
        roots = [-d[0] / d[1]]
    elif len(d) == 3:
        if abs(d[2]) < 1e-12 * max(1.0, abs(d[1]), abs(d[0])):
            if d[1] != 0:
                roots = [-d[0] / d[1]]
        else:
            disc = d[1] * d[1] - 4 * d[2] * d[0]
            if disc >= 0:
                s = math.sqrt(disc)
                roots = [(-d[1] + s) / (2 * d[2]), (-d[1] - s) / (2 * d[2])]
    for t in roots:
        if 0 < t < 1:
            cand.append(sum(c[j] * t ** j for j in range(len(c))))
    return min(cand), max(cand)


def box_union(a, b):
    if a is None:
        return b
    if b is None:
        return a
    return (min(a[0], b[0]), min(a[1], b[1]), max(a[2], b[2]), max(a[3], b[3]))


def control_box(pts):
    """box of the points a pen sees (UFO reading: every point of a valid contour)"""
    if not pts:
        return None
    xs = [F(p[0]) for p in pts]
    ys = [F(p[1]) for p in pts]
    return (min(xs), min(ys), max(xs), max(ys))


def curve_box(pts):
    """tight box of the outline: exact for line contours (Fractions), floats when curves are involved"""
    if not pts:
        return None
    is_open, bzs = contour_beziers(pts)
    if not bzs:
        return control_box(pts[:1])
    box = None
    for bz in bzs:
        if len(bz) == 2:
            b = (min(bz[0][0], bz[1][0]), min(bz[0][1], bz[1][1]), max(bz[0][0], bz[1][0]), max(bz[0][1], bz[1][1]))
        else:
            x0, x1 = _bez_extrema([p[0] for p in bz])
            y0, y1 = _bez_extrema([p[1] for p in bz])
            b = (x0, y0, x1, y1)
        box = box_union(box, b)
    return box


def apply_t(t, p):
    xx, xy, yx, yy, dx, dy = [F(v) for v in t]
    return (xx * p[0] + yx * p[1] + dx, xy * p[0] + yy * p[1] + dy)


def compose_t(outer, inner):
    """first inner, then outer (as 2x3 affine maps)"""
    o = [F(v) for v in outer]
    i = [F(v) for v in inner]
    return (o[0] * i[0] + o[2] * i[1], o[1] * i[0] + o[3] * i[1],
            o[0] * i[2] + o[2] * i[3], o[1] * i[2] + o[3] * i[3],
            o[0] * i[4] + o[2] * i[5] + o[4], o[1] * i[4] + o[3] * i[5] + o[5])


IDENT = (1, 0, 0, 1, 0, 0)


def flat_contours(world, name, t=IDENT, depth=0):
    """all contours of a glyph's outline, components resolved and transformed: lists of point tuples"""
    g = world.get(name)
    if g is None:
        return []
    if depth > 16:
        raise Invalid("cyclic components")
    res = []
    for c in g["contours"]:
        res.append([apply_t(t, (F(p[0]), F(p[1]))) + (p[2],) for p in c])
    for base, kt in g["components"]:
        res += flat_contours(world, base, compose_t(t, kt), depth + 1)
    return res


def component_contours(world, name, j):
    base, kt = world[name]["components"][j]
    return flat_contours(world, base, kt, 1)


def winding(bzs_list, pt, flat=1):
    """winding number of closed paths (lists of beziers) around pt; None when pt is on/too near the outline"""
    x, y = pt
    w = 0
    for bzs in bzs_list:
        poly = []
        for bz in bzs:
            if len(bz) == 2 or flat == 1:
                poly.append(bz[0])
                if len(bz) > 2:
                    return None
            else:
                for s in range(flat):
                    t = s / flat
                    poly.append(_bez_eval(bz, t))
        if not poly:
            continue
        if bzs[-1][-1] != bzs[0][0]:
            poly.append(bzs[-1][-1])
        n = len(poly)
        for i in range(n):
            a, b = poly[i], poly[(i + 1) % n]
            # on the edge?
            cross = (b[0] - a[0]) * (y - a[1]) - (b[1] - a[1]) * (x - a[0])
            if flat == 1:
                if cross == 0 and min(a[0], b[0]) <= x <= max(a[0], b[0]) and min(a[1], b[1]) <= y <= max(a[1], b[1]):
                    return None
            else:
                L = math.hypot(b[0] - a[0], b[1] - a[1])
                if L == 0:
                    if math.hypot(x - a[0], y - a[1]) < 0.5:
                        return None
                else:
                    u = max(0.0, min(1.0, ((x - a[0]) * (b[0] - a[0]) + (y - a[1]) * (b[1] - a[1])) / (L * L)))
                    if math.hypot(x - (a[0] + u * (b[0] - a[0])), y - (a[1] + u * (b[1] - a[1]))) < 0.5:
                        return None
            if a[1] <= y:
                if b[1] > y and cross > 0:
                    w += 1
            elif b[1] <= y and cross < 0:
                w -= 1
    return w


def _bez_eval(bz, t):
    pts = [(float(p[0]), float(p[1])) for p in bz]
    while len(pts) > 1:
        pts = [(a[0] + (b[0] - a[0]) * t, a[1] + (b[1] - a[1]) * t) for a, b in zip(pts, pts[1:])]
    return pts[0]


def close_to(a, b, tol, scale=0.0):
    a, b = float(a), float(b)
    return abs(a - b) <= tol * max(1.0, abs(a), abs(b), scale)


def area_scale(contours):
    """magnitude the rounding error of a float area computation is relative to: the terms cancel, so
    it is the squared coordinate range, not the result"""
    m = 1.0
    for c in contours:
        for p in c:
            m = max(m, abs(float(p[0])), abs(float(p[1])))
    return m * m * max(1, sum(len(c) for c in contours))


def _show(v):
    """readable rendering of expected/observed values (exact fractions of floats are shown as floats)"""
    if isinstance(v, F):
        return str(v) if v.denominator <= 4096 else repr(float(v))
    if isinstance(v, (list, tuple)):
        return "(" + ", ".join(_show(x) for x in v) + ")"
    return repr(v)


def _dyadic(v):
    f = F(v)
    return f.denominator <= 4096 and abs(f.numerator) < (1 << 40)


def world_dyadic(world):
    for g in world.values():
        nums = [g["width"], g["height"]] + ([] if g["vo"] is None else [g["vo"]])
        for c in g["contours"]:
            for p in c:
                nums += [p[0], p[1]]
        for _, t in g["components"]:
            nums += list(t)
        for a in g["anchors"]:
            nums += list(a)
        nums += list(g["image"])
        if not all(_dyadic(v) for v in nums):
            return False
    return True


class Oracle(object):
    """judges one operation: `before` is the raw state before it"""

    def __init__(self, before, mode):
        self.w = before
        # exact judgement needs exact arithmetic: once a coordinate is no short dyadic fraction any more
        # (say after a margin of a curved glyph was set, whose extrema are irrational) floats round
        if mode == "exact" and not world_dyadic(before):
            mode = "float"
        self.mode = mode
        self.tol = 0.0 if mode == "exact" else 1e-9
        self.inside_neighbours = None

    # -- helper used by the adaptor: replace a float area by the exact one when they agree --------
    def snap_area(self, kind, g, index, value):
        try:
            name = g.name
            if kind == "c":
                pts = self.w[name]["contours"][index]
                exact = signed_area(pts)
                curved = any(p[2] is None for p in pts)
                scale = area_scale([pts])
            else:
                cs = flat_contours(self.w, name)
                exact = abs(sum((signed_area(c) for c in cs), F(0)))
                curved = True
                scale = area_scale(cs)
        except Exception:
            return F(value)
        if F(value) == exact:
            return exact
        if curved and close_to(value, exact, 1e-9, scale):
            return exact
        return F(value)

    def v(self, clause, site, expected, observed):
        return dict(clause="C17/" + clause, signature="C17/%s/%s" % (clause, site),
                    expected=_show(expected)[:500], observed=_show(observed)[:500])

    def same(self, a, b, tol=None, scale=0.0):
        tol = self.tol if tol is None else tol
        if a is None or b is None:
            return a is None and b is None
        if tol == 0:
            return F(a) == F(b)
        return close_to(a, b, tol, scale)

    def same_box(self, a, b, tol=None):
        if a is None or b is None:
            return a is None and b is None
        return all(self.same(x, y, tol) for x, y in zip(a, b))

    def within(self, inner, outer, tol=1e-9):
        if inner is None:
            return True
        if outer is None:
            return False
        e = tol * max(1.0, max(abs(float(x)) for x in outer))
        return (float(inner[0]) >= float(outer[0]) - e and float(inner[1]) >= float(outer[1]) - e and
                float(inner[2]) <= float(outer[2]) + e and float(inner[3]) <= float(outer[3]) + e)

    # -- expected values from the raw outline ----------------------------------------------
    def outline_boxes(self, contours):
        cb = bb = None
        curved = False
        for c in contours:
            cb = box_union(cb, control_box(c))
            bb = box_union(bb, curve_box(c))
            curved = curved or any(p[2] is None for p in c)
        return cb, bb, curved

    real = None
    twice_mid = None

    def judge(self, op, val, errname, after):
        try:
            return list(self._judge(op, val, errname, after))
        except Invalid:
            return []

    def _judge(self, op, val, errname, after):
        k = op[0]
        w = self.w
        if k in ("world", "newGlyph"):
            return
        name = op[2] if k == "inside" else op[1]
        if name not in w:
            return
        g0 = w[name]
        g1 = after.get(name)
        # ---------------- observations ----------------
        if k in ("cBounds", "cCpb", "cArea", "cOpen") and op[2] < len(g0["contours"]):
            pts = g0["contours"][op[2]]
            real = self.real
            is_open, bzs = contour_beziers(pts)      # Invalid -> no claim
            if errname:
                yield self.v("observation-raises", k, "a value", errname)
                return
            if k == "cCpb":
                if not self.same_box(real, control_box(pts), 0):
                    yield self.v("control-bounds-independent", k, control_box(pts), real)
            elif k == "cBounds":
                cb, bb, curved = self.outline_boxes([pts])
                if not self.same_box(real, bb, 1e-6 if curved else 0):
                    yield self.v("bounds-independent", k, bb, real)
                if not self.within(real, cb, 0 if self.mode == "exact" and not curved else 1e-9):
                    yield self.v("bounds-within-control", k, cb, real)
            elif k == "cArea":
                signed, cw, a = real
                exp = signed_area(pts)
                curved = any(p[2] is None for p in pts)
                sc = area_scale([pts])
                if not self.same(signed, exp, 1e-9 if (curved or self.mode == "float") else 0, sc):
                    yield self.v("area-independent", k, exp, signed)
                elif not self.same(a, abs(exp), 1e-9 if (curved or self.mode == "float") else 0, sc):
                    yield self.v("area-independent", k + ".abs", abs(exp), a)
                if abs(float(exp)) > 1e-6 * max(1.0, sc) and cw != (exp < 0):
                    yield self.v("clockwise-is-negative-area", k, exp < 0, cw)
            elif k == "cOpen":
                if real != is_open:
                    yield self.v("open-is-first-point-move", k, is_open, real)
            return
        if k in ("kBounds", "kCpb") and op[2] < len(g0["components"]):
            real = self.real
            cs = component_contours(w, name, op[2])
            for c in cs:
                contour_beziers(c)
            if errname:
                yield self.v("observation-raises", k, "a value", errname)
                return
            cb, bb, curved = self.outline_boxes(cs)
            ftol = 0 if self.mode == "exact" else 1e-9
            if k == "kCpb" and not self.same_box(real, cb, ftol):
                yield self.v("control-bounds-independent", k, cb, real)
            if k == "kBounds":
                if not self.same_box(real, bb, 1e-6 if curved else ftol):
                    yield self.v("bounds-independent", k, bb, real)
                if not self.within(real, cb):
                    yield self.v("bounds-within-control", k, cb, real)
            return
        if k in ("gBounds", "gCpb", "gArea", "gMargins"):
            real = self.real
            cs = flat_contours(w, name)
            opens = []
            for c in cs:
                is_open, bzs = contour_beziers(c)
                if is_open and bzs and bzs[-1][-1] != bzs[0][0]:
                    opens.append(c)
            if errname:
                if k == "gArea" and errname == "NotImplementedError" and opens:
                    return      # area of an outline with an open contour: undefined, accepted
                yield self.v("observation-raises", k, "a value", errname)
                return
            cb, bb, curved = self.outline_boxes(cs)
            ftol = 0 if self.mode == "exact" else 1e-9
            if k == "gCpb" and not self.same_box(real, cb, ftol):
                yield self.v("control-bounds-independent", k, cb, real)
            if k == "gBounds":
                if not self.same_box(real, bb, 1e-6 if curved else ftol):
                    yield self.v("bounds-independent", k, bb, real)
                if not self.within(real, cb):
                    yield self.v("bounds-within-control", k, cb, real)
            if k == "gArea":
                exp = abs(sum((signed_area(c) for c in cs), F(0)))
                if not self.same(real, exp, 1e-9 if (curved or self.mode == "float") else 0, area_scale(cs)):
                    yield self.v("area-independent", k, exp, real)
            if k == "gMargins":
                exp = self.margins(g0, bb)
                mt = 1e-6 if curved else ftol
                for side, r, e in zip(("left", "right", "bottom", "top"), real, exp):
                    if not self.same(r, e, mt):
                        yield self.v("margin-definition", side, e, r)
            return
        if k == "inside":
            _, kind, name, i, x, y, eo = op
            if kind == "c":
                cs = [[(F(p[0]), F(p[1]), p[2]) for p in g0["contours"][i]]]
            elif kind == "k":
                cs = component_contours(w, name, i)
            else:
                cs = flat_contours(w, name)
            paths = []
            any_open = False
            curved = False
            for c in cs:
                is_open, bzs = contour_beziers(c)
                # a one-point contour reaches the pens as a lone moveTo/endPath whatever its type
                any_open = any_open or (is_open and len(c) > 0) or len(c) == 1
                curved = curved or any(len(b) > 2 for b in bzs)
                if bzs:
                    paths.append(bzs)
            if errname:
                if errname == "NotImplementedError" and any_open:
                    return      # insideness of open contours: undefined, accepted
                yield self.v("point-inside-raises", kind, "a boolean", errname)
                return
            if any_open:
                return
            pt = (F(pynum(x)), F(pynum(y)))
            wn = winding(paths, pt, 1) if not curved else winding(paths, (float(pt[0]), float(pt[1])), 64)
            if wn is None:
                return
            exp = (wn % 2 == 1) if eo else (wn != 0)
            if bool(val) != exp:
                site = kind + (".evenodd" if eo else "")
                nb = self.inside_neighbours
                if curved and nb is not None:
                    # is this a probe whose ray touches a curve without crossing it?  Then the outline says the same just
                    # below and just above, and so does the implementation there
                    fpt = (float(pt[0]), float(pt[1]))
                    exps = []
                    for dy in (-INSIDE_EPS, INSIDE_EPS):
                        w2 = winding(paths, (fpt[0], fpt[1] + dy), 64)
                        exps.append(None if w2 is None else ((w2 % 2 == 1) if eo else (w2 != 0)))
                    if exps == [exp, exp] and list(nb) == [exp, exp]:
                        site = "ray-grazes-a-curve"
                yield self.v("point-inside-agrees", site, exp, val)
            return
        # ---------------- mutations ----------------
        if errname and k in ("setWidth", "setHeight", "setVO"):
            yield self.v("mutation-raises", k, "no exception", errname)
            return
        if k in ("cMove", "gMove", "kMove", "aMove", "iMove"):
            if (k == "cMove" and op[2] >= len(g0["contours"])) or (k == "kMove" and op[2] >= len(g0["components"])) \
                    or (k == "aMove" and op[2] >= len(g0["anchors"])):
                return                  # no such object: nothing to claim
            for c in g0["contours"]:
                contour_beziers(c)      # Invalid -> no claim
            if errname:
                yield self.v("mutation-raises", k, "no exception", errname)
                return
            yield from self.judge_move(op, g0, g1)
            return
        if k in ("cReverse", "cReverse2", "cSetClockwise"):
            yield from self.judge_reverse(op, val, errname, g0, g1)
            return
        if k == "cSetStart":
            yield from self.judge_setstart(op, errname, g0, g1)
            return
        if k in ("setLeft", "setRight", "setBottom", "setTop"):
            yield from self.judge_margin(op, errname, name, g0, g1, after)
            return

    def margins(self, g, bb):
        if bb is None:
            return (None, None, None, None)
        wv, hv, vo = g["width"], g["height"], g["vo"]
        left = bb[0]
        right = F(wv) - F(bb[2]) if not isinstance(bb[2], float) else wv - bb[2]
        if vo is None:
            bottom = bb[1]
            top = hv - bb[3] if isinstance(bb[3], float) else F(hv) - bb[3]
        else:
            bottom = bb[1] - (vo - hv) if isinstance(bb[1], float) else bb[1] - (F(vo) - F(hv))
            top = vo - bb[3] if isinstance(bb[3], float) else F(vo) - bb[3]
        return (left, right, bottom, top)

    def moved(self, a, d):
        """`a + d` the way the property reads it: exactly in the exact stream, one float addition otherwise"""
        if self.mode == "exact":
            return F(a) + F(d)
        return a + d

    def eqnum(self, a, b):
        if self.mode == "exact":
            return F(a) == F(b)
        return a == b or close_to(a, b, 1e-12)

    def judge_move(self, op, g0, g1):
        k = op[0]
        if k == "cMove":
            i, dx, dy = op[2], pynum(op[3]), pynum(op[4])
            cont = {i}
            comps, anch, img = set(), set(), False
        elif k == "gMove":
            dx, dy = pynum(op[2]), pynum(op[3])
            cont = set(range(len(g0["contours"])))
            comps = set(range(len(g0["components"])))
            anch = set(range(len(g0["anchors"])))
            img = False
        elif k == "kMove":
            dx, dy = pynum(op[3]), pynum(op[4])
            cont, comps, anch, img = set(), {op[2]}, set(), False
        elif k == "aMove":
            dx, dy = pynum(op[3]), pynum(op[4])
            cont, comps, anch, img = set(), set(), {op[2]}, False
        else:
            dx, dy = pynum(op[2]), pynum(op[3])
            cont, comps, anch, img = set(), set(), set(), True
        if len(g0["contours"]) != len(g1["contours"]):
            yield self.v("move-translates", k + ".contour-count", len(g0["contours"]), len(g1["contours"]))
            return
        for ci, (c0, c1) in enumerate(zip(g0["contours"], g1["contours"])):
            ddx, ddy = (dx, dy) if ci in cont else (0, 0)
            if len(c0) != len(c1):
                yield self.v("move-translates", k + ".point-count", len(c0), len(c1))
                return
            for p0, p1 in zip(c0, c1):
                if not (self.eqnum(p1[0], self.moved(p0[0], ddx)) and self.eqnum(p1[1], self.moved(p0[1], ddy))):
                    yield self.v("move-translates", k + (".point" if ci in cont else ".other-contour"),
                                 (self.moved(p0[0], ddx), self.moved(p0[1], ddy)), p1[:2])
                    return
                if p0[2:] != p1[2:]:
                    yield self.v("move-translates", k + ".point-attributes", p0[2:], p1[2:])
                    return
        for ki, (k0, k1) in enumerate(zip(g0["components"], g1["components"])):
            ddx, ddy = (dx, dy) if ki in comps else (0, 0)
            exp = k0[1][:4] + (self.moved(k0[1][4], ddx), self.moved(k0[1][5], ddy))
            if k0[0] != k1[0] or not all(self.eqnum(a, b) for a, b in zip(k1[1], exp)):
                yield self.v("move-translates", k + ".component", exp, k1[1])
                return
        for ai, (a0, a1) in enumerate(zip(g0["anchors"], g1["anchors"])):
            ddx, ddy = (dx, dy) if ai in anch else (0, 0)
            if not (self.eqnum(a1[0], self.moved(a0[0], ddx)) and self.eqnum(a1[1], self.moved(a0[1], ddy))):
                yield self.v("move-translates", k + ".anchor", (self.moved(a0[0], ddx), self.moved(a0[1], ddy)), a1)
                return
        ddx, ddy = (dx, dy) if img else (0, 0)
        if not (self.eqnum(g1["image"][0], self.moved(g0["image"][0], ddx)) and
                self.eqnum(g1["image"][1], self.moved(g0["image"][1], ddy))):
            yield self.v("move-translates", k + ".image", (ddx, ddy), g1["image"])
        if (g0["width"], g0["height"], g0["vo"]) != (g1["width"], g1["height"], g1["vo"]):
            yield self.v("move-translates", k + ".metrics", (g0["width"], g0["height"], g0["vo"]),
                         (g1["width"], g1["height"], g1["vo"]))

    def judge_reverse(self, op, val, errname, g0, g1):
        k = op[0]
        i = op[2]
        if i >= len(g0["contours"]):
            return
        c0, c1 = g0["contours"][i], g1["contours"][i]
        is_open, bzs = contour_beziers(c0)     # Invalid -> no claim
        if errname:
            yield self.v("mutation-raises", k, "no exception", errname)
            return
        for j, (a, b) in enumerate(zip(g0["contours"], g1["contours"])):
            if j != i and a != b:
                yield self.v("reverse-laws", k + ".other-contour", a, b)
                return
        a0 = signed_area(c0)
        if k == "cSetClockwise":
            want = bool(op[3])
            if a0 == 0:
                return
            if (a0 < 0) == want:
                if c0 != c1:
                    yield self.v("reverse-laws", k + ".needless", c0, c1)
                return
        if k == "cReverse2":
            if c0 != c1:
                yield self.v("reverse-twice-restores", k, c0, c1)
            # the intermediate state is judged from the answer
            mid = self.twice_mid
            if mid is None:
                return
            c1 = mid
        key = lambda p: (F(p[0]), F(p[1]), p[3], p[4] or "", p[5] or "")
        if sorted(map(key, c0)) != sorted(map(key, c1)):
            yield self.v("reverse-keeps-points", k, sorted(map(key, c0)), sorted(map(key, c1)))
            return
        o1 = (not c1) or c1[0][2] == "move"
        if o1 != is_open:
            yield self.v("reverse-keeps-closedness", k, is_open, o1)
            return
        try:
            a1 = signed_area(c1)
        except Invalid as e:
            yield self.v("reverse-keeps-validity", k, "a valid contour", str(e))
            return
        if a1 != -a0:
            yield self.v("reverse-negates-area", k, -a0, a1)
        if control_box(c0) != control_box(c1):
            yield self.v("reverse-keeps-control-bounds", k, control_box(c0), control_box(c1))
        if c0 and not is_open and c0[0][:2] != c1[0][:2]:
            yield self.v("reverse-keeps-first-point", k, c0[0][:2], c1[0][:2])

    def judge_setstart(self, op, errname, g0, g1):
        i, ix = op[2], op[3]
        if i >= len(g0["contours"]):
            return
        c0, c1 = g0["contours"][i], g1["contours"][i]
        is_open, bzs = contour_beziers(c0)
        n = len(c0)
        ons = [p for p in c0 if p[2] is not None]
        for j, (a, b) in enumerate(zip(g0["contours"], g1["contours"])):
            if j != i and a != b:
                yield self.v("setstart-rotates", "other-contour", a, b)
                return
        if is_open or len(ons) < 2:
            if errname or c0 != c1:
                yield self.v("setstart-rotates", "noop-on-open-or-trivial", c0, errname or c1)
            return
        if not (-n <= ix < n):
            if errname is None and c0 != c1 and sorted(map(repr, c0)) != sorted(map(repr, c1)):
                yield self.v("setstart-rotates", "bad-index", c0, c1)
            elif c0 != c1 and errname:
                yield self.v("setstart-rotates", "failed-but-changed", c0, c1)
            return
        if c0[ix][2] is None:
            # "This point must be an on-curve point": a rejection that changes nothing
            if c0 != c1:
                yield self.v("setstart-rotates", "offcurve-index-changed", c0, c1)
            return
        if errname:
            yield self.v("mutation-raises", "cSetStart", "no exception", errname)
            return
        j = ix % n
        exp = c0[j:] + c0[:j]
        if c1 != exp:
            yield self.v("setstart-rotates", "sequence", exp, c1)
            return
        if signed_area(c1) != signed_area(c0):
            yield self.v("setstart-keeps-shape", "area", signed_area(c0), signed_area(c1))
        b0, b1 = curve_box(c0), curve_box(c1)
        if not self.same_box(b0, b1, 1e-9 if bzs and any(len(b) > 2 for b in bzs) else 0):
            yield self.v("setstart-keeps-shape", "bounds", b0, b1)

    def judge_margin(self, op, errname, name, g0, g1, after):
        k, value = op[0], pynum(op[2])
        cs0 = flat_contours(self.w, name)
        cs1 = flat_contours(after, name)
        for c in cs0:
            contour_beziers(c)
        if errname:
            yield self.v("mutation-raises", k, "no exception", errname)
            return
        _, bb0, curved = self.outline_boxes(cs0)
        _, bb1, _ = self.outline_boxes(cs1)
        if bb0 is None:
            if g0 != g1:
                yield self.v("margin-laws", k + ".no-outline-changed", g0, g1)
            return
        tol = 1e-6 if curved else (0 if self.mode == "exact" else 1e-9)
        m0 = dict(zip(("left", "right", "bottom", "top"), self.margins(g0, bb0)))
        m1 = dict(zip(("left", "right", "bottom", "top"), self.margins(g1, bb1)))
        side = {"setLeft": "left", "setRight": "right", "setBottom": "bottom", "setTop": "top"}[k]
        opp = {"left": "right", "right": "left", "bottom": "top", "top": "bottom"}[side]
        if not self.same(m1[side], value, tol):
            yield self.v("margin-set-then-get", side, value, m1[side])
        if not self.same(m1[opp], m0[opp], tol):
            yield self.v("margin-keeps-opposite", side, m0[opp], m1[opp])
        diff = float(value) - float(m0[side])
        dim = "width" if side in ("left", "right") else "height"
        other = "height" if dim == "width" else "width"
        if not close_to(float(g1[dim]), float(g0[dim]) + diff, max(tol, 1e-12)) and \
                not (tol == 0 and F(g1[dim]) == F(g0[dim]) + F(value) - F(m0[side])):
            yield self.v("margin-adjusts-" + dim, side, float(g0[dim]) + diff, g1[dim])
        if g1[other] != g0[other]:
            yield self.v("margin-keeps-" + other, side, g0[other], g1[other])
        # the horizontal setters must not touch the vertical margins and vice versa
        for s2 in ("left", "right") if dim == "height" else ("bottom", "top"):
            if not self.same(m1[s2], m0[s2], tol):
                yield self.v("margin-keeps-other-axis", side + "." + s2, m0[s2], m1[s2])


# ---------------------------------------------------------------------------------------
# known finding F61: a probe whose horizontal ray touches a curve without crossing it is counted as one crossing by
# fontTools' PointInsidePen (Contour / Component / Glyph.pointInside delegate to it): a point far outside the outline
# is reported inside.  The witness below is the history the thorough tier found; it is replayed on every run.
# ---------------------------------------------------------------------------------------

F61_WITNESS = {'mode': 'exact', 'ops': [['newGlyph', 'k0', 566, 314, 649, [[[337, 235, None, False, None, None], ['3319/8', '399/2', None, False, None, None], [281.0, 171.0, None, False, None, None], [359, 244, 'qcurve', False, 'a', None], [309.0, 313, None, False, None, None], [414, 194, None, False, None, None], [291.0, '1627/8', 'qcurve', True, None, None], [352, '1745/8', None, False, None, None], [352.0, 301.0, None, False, None, None], [352, '361/2', 'curve', True, None, 'id1'], ['2341/8', '1643/8', 'curve', True, None, None], ['2707/8', 148, None, False, 'b', None], ['3369/8', 286, None, False, 'b', None], ['547/2', 213, 'curve', False, None, None]]], [['g0', 1, 0, 0, -1, '-2033/8', 226]], [], [0, 0]], ['cSetClockwise', 'k0', 0, False], ['inside', 'c', 'k0', 0, '-37/4', '741/4', True]]}


def replay_known(entry):
    if entry.get("signature") != "C17/point-inside-agrees/ray-grazes-a-curve":
        return False
    r = run_impl(F61_WITNESS)
    return any(v.get("signature") == entry["signature"] for v in r["viol"])
