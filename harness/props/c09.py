"""C09 - the unicode map is the inverse of the glyphs' unicodes (M-Layer, unicode-heavy histories)."""
import layer_common as lc

MODEL = "layer"
SHRINKABLE = True
RULE = ("same generator family as C07 with unicode assignments weighted up and the first access to a layer's unicodeData "
        "placed at a random position of the history; unicode lists WITH repeated code points, re-assignments that only "
        "reorder / repeat / drop a repetition, glyph.unicode = v, glyph.unicodes = [], read-modify-write on the list the "
        "getter hands out, renames onto names that are present, newGlyph / insertGlyph over present names, reloadGlyphs "
        "after an external rewrite of glyphs that have and have not been read, look-ups (unicodeForGlyphName, "
        "pseudoUnicodeForGlyphName, glyphNameForUnicode, `c in unicodeData`); a third of the cases have several layers "
        "(operations on non-default layers, through the Font API, changes of the default layer, new layers); every case "
        "runs unread / partly read / fully read / as a memory-only twin; the map is compared with the model name by name "
        "WITH multiplicity and by the oracle with the inverse of the abstract content after every op once it exists; "
        "non-trivial = non-empty glyph set and a mutating op; distinct = distinct (content, variant, ops)")
ASSUMPTIONS = [
    "what another program leaves in a GLIF is what glifLib reads from it: no repeated code point (lists assigned in memory may repeat)",
    "the order of names under one code point is not part of the property and is not compared; a name may be listed as often as "
    "the glyph's own list repeats the code point (the lazy constructor appends per list element), never more often",
    "unicodeForGlyphName / pseudoUnicodeForGlyphName are judged by the oracle on the data of the default layer only: on another "
    "layer's data they answer from the default layer's glyph of that name (UnicodeData.font), which the model reproduces and the "
    "property does not speak about",
]
TRUSTED = ["ufoLib's GlyphSet.getUnicodes GLIF scanner is exercised, not modelled (it reports each code point of a GLIF once)"]
JUDGED = ("uni",)
PROP = "C09"


OPTS = dict(dup_rate=0.3, rename_onto_rate=0.45, reassign_rate=0.35, setter_rate=0.15, via_rate=0.2, lookup_rate=0.55,
            lookup_pre=0.08, save_pre=0.04, multi_rate=0.34)


def generate(rng, tier):
    groups, maxops = (450, 14) if tier == "quick" else (4000, 30)
    for _ in range(groups):
        for c in lc.gen_group(rng, maxops, uni_weight=2.5, incoherent_rate=0.0, opts=OPTS):
            yield c


model_lines = lc.model_lines
neighbourhood = lc.neighbourhood


def run_impl(case):
    return lc.run_case(case, PROP, JUDGED)
