"""C09 - the unicode map is the inverse of the glyphs' unicodes (M-Layer, unicode-heavy histories)."""
import layer_common as lc

MODEL = "layer"
SHRINKABLE = True
RULE = ("same generator family as C07 with unicode assignments weighted up and the first access to layer.unicodeData "
        "placed at a random position of the history; the map is compared (names under a code point as sets) with the "
        "inverse of the abstract content after every op once it exists; non-trivial = non-empty glyph set and a mutating "
        "op; distinct = distinct (content, variant, ops)")
ASSUMPTIONS = [
    "renames never target a name that is present",
    "glyph unicodes lists carry no duplicates",
    "order and multiplicity of names under one code point are not part of the property; duplicates are reported though",
]
TRUSTED = ["ufoLib's GlyphSet.getUnicodes GLIF scanner is exercised, not modelled"]
JUDGED = ("uni",)
PROP = "C09"


def generate(rng, tier):
    groups, maxops = (150, 14) if tier == "quick" else (4000, 30)
    for _ in range(groups):
        for c in lc.gen_group(rng, maxops, uni_weight=2.5, incoherent_rate=0.0):
            yield c


model_lines = lc.model_lines
neighbourhood = lc.neighbourhood


def run_impl(case):
    return lc.run_case(case, PROP, JUDGED)
