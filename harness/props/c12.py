"""C12 - the font's glyph order follows glyph creation, deletion and renaming.

Correspondence with M-GlyphOrder (lean/DefconModel/GlyphOrder.lean) + a direct oracle that
evaluates the clauses of the property on consecutive (before, op, after) observations of the
real defcon font.

A case is
  dict(origin=<how the font comes to exist>, init=<start content or None>, ops=[...])
origins: "new" (Font()), "ufo3"/"ufo2" (Font(path) on a UFO written with fontTools.ufoLib),
"deser" (Font().setDataFromSerialization(hand-made dict)), "deser_rt" (…(getDataForSerialization()
of a loaded font)).  Output 0 is the observation of the start state, output i+1 that after ops[i].
`lazy=True` (loaded origins): font.lib is not touched before the first operation, so the first callback
itself triggers the lazy read of lib.plist; the start observation is then what ufoLib wrote.
"""
import os
import shutil
import sys
import tempfile

from sexp import Atom, opt

MODEL = "glyphorder"
SHRINKABLE = True
RULE = ("histories of newGlyph/insertGlyph/delete/rename in 1-4 layers (+ glyphOrder/lib assignments, newLayer, delLayer, "
        "save-and-reopen) over fonts that are new, loaded from a generated UFO 3/UFO 2, or deserialised, with empty, partial, "
        "complete, superset, disjoint or duplicate-carrying start orders; after every op font.glyphOrder, "
        "font.lib.get('public.glyphOrder') and every layer's key set are compared with the model; non-trivial = at least one "
        "successful glyph-set op whose outcome depended on cross-layer existence or on the current content of the order "
        "(delete while another layer keeps the name, delete of the last copy, rename onto a name in the order, rename whose "
        "old name stays, re-creation of a name present in the order); distinct = distinct (origin, init, ops)")
ASSUMPTIONS = [
    "no user-level hold/disable of the layers' or the font's notifications (delivery itself is C04's subject)",
    "glyph order values are lists of strings (or None); glyph and layer names are non-empty strings",
    "the default layer is never deleted; layers are not renamed; no external changes / reload",
    "operations address glyphs through layer[name]; glyph objects that were replaced or deleted (no longer in the font) are "
    "not renamed afterwards (a replaced loaded glyph stays observed by its layer: finding F16, C11's subject)",
    "renaming a glyph onto a name that exists in the same layer silently replaces that glyph (code as it is); only the name "
    "sets and the order are compared",
]
TRUSTED = ["UFO fixtures are written with fontTools.ufoLib.UFOWriter (not defcon)",
           "the generator's own bookkeeping of layer contents only biases choices; it is never used as an expectation"]



def _quiet_unraisable(u):
    # defcon's BaseObject.__del__ unregisters observers; when a whole font is dropped at the end of a
    # case the objects die in arbitrary order and some __del__ find their parents already gone.  That
    # happens after the last observation and is only noise on stderr.
    if getattr(u.object, "__name__", "") == "__del__":
        return
    sys.__unraisablehook__(u)


sys.unraisablehook = _quiet_unraisable

POOL = ["a", "b", "c", "d", "e", "A", "a.alt", "f_i", "space"]
GHOSTS = ["ghost", "zeta", ".notdef"]
LAYERS = ["foreground", "background", "sketch", "public.default"]
KEY = "public.glyphOrder"


# ---------------------------------------------------------------------------------------
# generation
# ---------------------------------------------------------------------------------------

def _start_order(rng, union, pool, kind):
    u = list(union)
    rng.shuffle(u)
    extras = [n for n in pool + GHOSTS if n not in union]
    rng.shuffle(extras)
    if kind == "none":
        return None
    if kind == "emptylist":
        return []
    if kind == "partial":
        return u[:rng.randint(0, max(0, len(u) - 1))] if u else []
    if kind == "complete":
        return u
    if kind == "superset":
        res = list(u)
        for x in extras[:rng.randint(1, 3)]:
            res.insert(rng.randint(0, len(res)), x)
        return res
    if kind == "disjoint":
        return extras[:rng.randint(1, 3)]
    if kind == "dups":
        res = list(u) + extras[:rng.randint(0, 2)]
        rng.shuffle(res)
        if res:
            for _ in range(rng.randint(1, 2)):
                res.insert(rng.randint(0, len(res)), rng.choice(res))
        return res
    raise ValueError(kind)


ORDER_KINDS = ["none", "partial", "complete", "superset", "disjoint", "dups", "emptylist"]
ORDER_WEIGHTS = [14, 22, 22, 22, 6, 9, 5]


def _gen_init(rng, origin, pool):
    if origin == "ufo2":
        names = ["public.default"]
    else:
        names = rng.sample(LAYERS[:3], rng.randint(1, 3))
    layers = []
    for n in names:
        k = rng.choice([0, 1, 2, 2, 3, 3, 4, 5])
        layers.append([n, sorted(rng.sample(pool, min(k, len(pool))))])
    default = "public.default" if origin == "ufo2" else rng.choice(names)
    union = sorted({g for _, gs in layers for g in gs})
    kind = rng.choices(ORDER_KINDS, ORDER_WEIGHTS)[0]
    lib = _start_order(rng, union, pool, kind)
    if lib == [] and kind != "emptylist":
        lib = None if rng.random() < 0.7 else []
    return dict(layers=layers, default=default, lib=lib, kind=kind)


class _Track(object):
    """generator-side bookkeeping, only to bias the choice of names"""

    def __init__(self, init):
        if init is None:
            self.layers = {"public.default": set()}
            self.default = "public.default"
            self.seen = set()
        else:
            self.layers = {n: set(gs) for n, gs in init["layers"]}
            self.default = init["default"]
            self.seen = set(init["lib"] or [])
        for gs in self.layers.values():
            self.seen |= gs

    def union(self):
        u = set()
        for gs in self.layers.values():
            u |= gs
        return u

    def apply(self, op):
        k = op[0]
        if k in ("newGlyph", "insertGlyph") and op[1] in self.layers:
            self.layers[op[1]].add(op[2])
            self.seen.add(op[2])
        elif k == "delGlyph" and op[1] in self.layers:
            self.layers[op[1]].discard(op[2])
        elif k == "rename" and op[1] in self.layers and op[2] in self.layers[op[1]]:
            self.layers[op[1]].discard(op[2])
            self.layers[op[1]].add(op[3])
            self.seen.add(op[3])
        elif k == "newLayer":
            self.layers.setdefault(op[1], set())
        elif k == "delLayer":
            self.layers.pop(op[1], None)
        elif k in ("setOrder", "setLib"):
            self.seen |= set(op[1] or [])


def _pick_layer(rng, tr, nonempty=False):
    names = sorted(tr.layers)
    if rng.random() < 0.03:
        return "nolayer"
    if nonempty:
        full = [n for n in names if tr.layers[n]]
        if full and rng.random() < 0.85:
            return rng.choice(full)
    return rng.choice(names)


def _gen_op(rng, tr, pool, origin):
    r = rng.random()
    L = _pick_layer(rng, tr, nonempty=(0.32 <= r < 0.82))
    here = sorted(tr.layers.get(L, ()))
    elsewhere = sorted(tr.union() - set(here))
    stale = sorted(tr.seen - tr.union())           # mentioned (e.g. in the order) but in no layer
    if r < 0.20:
        cands = [(pool, 4), (elsewhere, 3), (stale, 3), (here, 2)]
        g = _weighted_name(rng, cands, pool)
        via = "font" if (L == tr.default and rng.random() < 0.4) else "layer"
        return ["newGlyph", L, g, via]
    if r < 0.32:
        g = _weighted_name(rng, [(pool, 4), (elsewhere, 3), (stale, 2), (here, 2)], pool)
        kind = rng.choice(["standalone", "standalone-rename", "layer", "layer-rename", "otherfont", "self"])
        via = "font" if (L == tr.default and rng.random() < 0.4) else "layer"
        if kind in ("layer", "layer-rename"):
            srcs = [(l2, x) for l2 in sorted(tr.layers) for x in sorted(tr.layers[l2]) if l2 != L]
            if srcs:
                l2, x = rng.choice(srcs)
                if kind == "layer":
                    return ["insertGlyph", L, x, ["layer", l2, x, False], via]
                return ["insertGlyph", L, g, ["layer", l2, x, True], via]
            kind = "standalone"
        if kind == "self" and here:
            x = rng.choice(here)
            return ["insertGlyph", L, x, ["layer", L, x, rng.random() < 0.5], via]
        if kind == "standalone-rename":
            return ["insertGlyph", L, g, ["standalone", rng.choice(pool), True], via]
        if kind == "otherfont":
            return ["insertGlyph", L, g, ["otherfont", g, rng.random() < 0.5], via]
        return ["insertGlyph", L, g, ["standalone", g, False], via]
    if r < 0.55:
        if here and rng.random() < 0.9:
            # prefer names that also live elsewhere (the cross-layer rule) half of the time
            shared = [x for x in here if any(x in gs for l2, gs in tr.layers.items() if l2 != L)]
            g = rng.choice(shared) if shared and rng.random() < 0.5 else rng.choice(here)
        else:
            g = rng.choice(pool)
        via = "font" if (L == tr.default and rng.random() < 0.4) else "layer"
        return ["delGlyph", L, g, via]
    if r < 0.82:
        if here and rng.random() < 0.92:
            shared = [x for x in here if any(x in gs for l2, gs in tr.layers.items() if l2 != L)]
            old = rng.choice(shared) if shared and rng.random() < 0.4 else rng.choice(here)
        else:
            old = rng.choice(pool)
        fresh = [x for x in pool if x not in tr.seen and x not in tr.union()]
        new = _weighted_name(rng, [(fresh, 5), (elsewhere, 3), (stale, 3), (here, 1), ([old], 0.3)], pool)
        return ["rename", L, old, new]
    if r < 0.88:
        u = sorted(tr.union())
        kind = rng.choices(ORDER_KINDS, ORDER_WEIGHTS)[0]
        return ["setOrder", _start_order(rng, u, pool, kind)]
    if r < 0.90:
        u = sorted(tr.union())
        kind = rng.choices(ORDER_KINDS, ORDER_WEIGHTS)[0]
        return ["setLib", _start_order(rng, u, pool, kind)]
    if r < 0.945:
        free = [n for n in LAYERS[:3] + ["extra"] if n not in tr.layers]
        if free and rng.random() < 0.9:
            return ["newLayer", rng.choice(free)]
        return ["newLayer", rng.choice(sorted(tr.layers))]
    if r < 0.97:
        cands = [n for n in sorted(tr.layers) if n != tr.default]
        if cands and rng.random() < 0.9:
            return ["delLayer", rng.choice(cands)]
        return ["delLayer", "nolayer"]
    return ["save"]


def _weighted_name(rng, cands, pool):
    cands = [(xs, w) for xs, w in cands if xs]
    if not cands:
        return rng.choice(pool)
    xs = rng.choices([c[0] for c in cands], [c[1] for c in cands])[0]
    return rng.choice(list(xs))


def gen_case(rng, maxlen):
    origin = rng.choices(["new", "ufo3", "ufo2", "deser", "deser_rt"], [28, 30, 8, 20, 14])[0]
    pool = rng.sample(POOL, rng.randint(3, 6))
    ops = []
    if origin == "new":
        init = None
        tr = _Track(None)
        # build content through the API first, then (usually) force a start order of a chosen kind
        for _ in range(rng.randint(0, 2)):
            free = [n for n in LAYERS[:3] if n not in tr.layers]
            op = ["newLayer", rng.choice(free)]
            ops.append(op)
            tr.apply(op)
        for _ in range(rng.randint(0, 7)):
            op = ["newGlyph", rng.choice(sorted(tr.layers)), rng.choice(pool), "layer"]
            ops.append(op)
            tr.apply(op)
        if rng.random() < 0.75:
            kind = rng.choices(ORDER_KINDS, ORDER_WEIGHTS)[0]
            op = ["setOrder", _start_order(rng, sorted(tr.union()), pool, kind)]
            ops.append(op)
            tr.apply(op)
    else:
        init = _gen_init(rng, origin, pool)
        tr = _Track(init)
    for _ in range(rng.randint(2, maxlen)):
        op = _gen_op(rng, tr, pool, origin)
        ops.append(op)
        tr.apply(op)
    case = dict(origin=origin, init=init, ops=ops)
    if origin in ("ufo3", "ufo2") and rng.random() < 0.5:
        case["lazy"] = True
    return case


def generate(rng, tier):
    n, maxlen = (2500, 16) if tier == "quick" else (40000, 40)
    for _ in range(n):
        yield gen_case(rng, maxlen)


def neighbourhood(case, step, rng):
    """variants around a diverging output line (`step` counts the start observation as 0):
    follow the diverging op with the glyph-set ops the property talks about, on the names and
    layers involved, and precede it with start orders of the four kinds."""
    ops = case["ops"]
    k = max(0, step)            # ops[:k] reproduces up to and including the diverging op
    prefix = ops[:k]
    yield dict(case, ops=prefix)
    tr = _Track(case.get("init"))
    for op in prefix:
        tr.apply(op)
    names = set()
    if prefix:
        names |= {x for x in prefix[-1][1:4] if isinstance(x, str)}
    names |= set(list(tr.union())[:4])
    names = sorted(n for n in names if n not in tr.layers) or ["a"]
    layers = sorted(tr.layers)
    follow = []
    for L in layers:
        for g in names:
            follow.append(["delGlyph", L, g, "layer"])
            follow.append(["newGlyph", L, g, "layer"])
            follow.append(["insertGlyph", L, g, ["standalone", g, False], "layer"])
            for g2 in names + ["fresh"]:
                if g2 != g:
                    follow.append(["rename", L, g, g2])
    for f in follow:
        yield dict(case, ops=prefix + [f])
    # the diverging op itself under other start orders
    if prefix:
        last = prefix[-1]
        u = sorted(tr.union() | {x for x in names})
        for kind in ("none", "partial", "complete", "superset", "dups"):
            for _ in range(3):
                so = ["setOrder", _start_order(rng, u, POOL, kind)]
                yield dict(case, ops=prefix[:-1] + [so, last])
                for f in follow[:40]:
                    yield dict(case, ops=prefix[:-1] + [so, last, f])
    for _ in range(200):
        a, b = rng.choice(follow), rng.choice(follow)
        yield dict(case, ops=prefix + [a, b])
    yield case


# ---------------------------------------------------------------------------------------
# model side
# ---------------------------------------------------------------------------------------

def _lib(v):
    return opt(None if v is None else list(v))


def enc_op(op):
    k = op[0]
    if k in ("newGlyph", "insertGlyph", "delGlyph"):
        return [Atom(k), op[1], op[2]]
    if k == "rename":
        return [Atom(k), op[1], op[2], op[3]]
    if k in ("setOrder", "setLib"):
        return [Atom(k), _lib(op[1])]
    if k in ("newLayer", "delLayer"):
        return [Atom(k), op[1]]
    if k == "save":
        return [Atom("save")]
    raise ValueError(op)


def model_lines(case):
    init = case.get("init")
    if init is None:
        first = [Atom("init"), [["public.default", []]], _lib(None)]
    else:
        first = [Atom("init"), [[n, list(gs)] for n, gs in init["layers"]], _lib(init["lib"])]
    return [first] + [enc_op(op) for op in case["ops"]]


# ---------------------------------------------------------------------------------------
# implementation side
# ---------------------------------------------------------------------------------------

class _G(object):
    width = 500
    height = 0
    unicodes = ()
    note = None
    lib = None
    image = None
    guidelines = None
    anchors = None


def write_ufo(path, init, fmt):
    from fontTools.ufoLib import UFOWriter
    w = UFOWriter(path, formatVersion=fmt)
    names = []
    for lname, glyphs in init["layers"]:
        if fmt >= 3:
            gs = w.getGlyphSet(layerName=lname, defaultLayer=(lname == init["default"]))
        else:
            gs = w.getGlyphSet()
        for i, g in enumerate(glyphs):
            o = _G()
            o.width = 400 + 10 * i
            gs.writeGlyph(g, o)
        gs.writeContents()
        names.append(lname)
    if fmt >= 3:
        w.writeLayerContents(names)
    lib = {"com.example.other": 1}
    if init["lib"] is not None:
        lib[KEY] = list(init["lib"])
    w.writeLib(lib)
    w.close()


def hand_serialization(init):
    layers = []
    for lname, glyphs in init["layers"]:
        layers.append((lname, {"glyphs": {g: {"width": 300} for g in glyphs}}, lname == init["default"]))
    lib = {"com.example.other": 1}
    if init["lib"] is not None:
        lib[KEY] = list(init["lib"])
    return {"layers": {"layers": layers}, "lib": lib}


class World(object):
    def __init__(self, case, tmp):
        from defcon import Font
        self.Font = Font
        self.tmp = tmp
        self.keep = []           # every defcon object stays alive during the case
        self.nsave = 0
        origin, init = case["origin"], case.get("init")
        if origin == "new":
            self.font = Font()
        elif origin in ("ufo3", "ufo2"):
            p = os.path.join(tmp, "start.ufo")
            write_ufo(p, init, 3 if origin == "ufo3" else 2)
            self.font = Font(p)
        elif origin == "deser":
            self.font = Font()
            self.font.newGlyph("preexisting")        # replaced wholesale by the deserialised layers/lib
            self.font.setDataFromSerialization(hand_serialization(init))
        elif origin == "deser_rt":
            p = os.path.join(tmp, "src.ufo")
            write_ufo(p, init, 3)
            src = Font(p)
            self.keep.append(src)
            data = src.getDataForSerialization()
            self.font = Font()
            self.font.setDataFromSerialization(data)
        else:
            raise ValueError(origin)
        self.other = None

    def observe(self, font=None):
        f = font or self.font
        order = f.glyphOrder
        lib = f.lib.get(KEY)
        layers = [(l.name, sorted(l.keys())) for l in f.layers]
        return order, lib, layers

    def source(self, spec):
        from defcon import Glyph
        kind = spec[0]
        if kind == "layer":
            _, l2, x, _ = spec
            if l2 in self.font.layers and x in self.font.layers[l2]:
                return self.font.layers[l2][x]
            kind = "standalone"
            spec = ["standalone", x, spec[3]]
        if kind == "otherfont":
            if self.other is None:
                self.other = self.Font()
                self.keep.append(self.other)
            g = self.other.newGlyph(spec[1])
            g.width = 321
            return g
        g = Glyph()
        g.name = spec[1]
        g.width = 123
        g.unicodes = [65]
        return g

    def do(self, op):
        font = self.font
        k = op[0]
        if k == "newGlyph":
            _, L, g, via = op
            layer = font.layers[L]
            self.keep.append(font.newGlyph(g) if via == "font" and layer is font.layers.defaultLayer else layer.newGlyph(g))
        elif k == "insertGlyph":
            _, L, g, spec, via = op
            layer = font.layers[L]
            src = self.source(spec)
            self.keep.append(src)
            explicit = bool(spec[-1]) or src.name != g
            target = font if (via == "font" and layer is font.layers.defaultLayer) else layer
            if explicit:
                self.keep.append(target.insertGlyph(src, name=g))
            else:
                self.keep.append(target.insertGlyph(src))
        elif k == "delGlyph":
            _, L, g, via = op
            layer = font.layers[L]
            if g in layer._glyphs:
                self.keep.append(layer._glyphs[g])
            if via == "font" and layer is font.layers.defaultLayer:
                del font[g]
            else:
                del layer[g]
        elif k == "rename":
            _, L, old, new = op
            layer = font.layers[L]
            glyph = layer[old]
            self.keep.append(glyph)
            if new in layer._glyphs:
                self.keep.append(layer._glyphs[new])
            glyph.name = new
        elif k == "setOrder":
            font.glyphOrder = None if op[1] is None else list(op[1])
        elif k == "setLib":
            if op[1] is None:
                del font.lib[KEY]
            else:
                font.lib[KEY] = list(op[1])
        elif k == "newLayer":
            self.keep.append(font.newLayer(op[1]))
        elif k == "delLayer":
            if op[1] in font.layers:
                self.keep.append(font.layers[op[1]])
            del font.layers[op[1]]
        elif k == "save":
            if font.path is None:
                self.nsave += 1
                font.save(os.path.join(self.tmp, "saved%d.ufo" % self.nsave))
            else:
                font.save()
            re = self.Font(font.path)
            self.keep.append(re)
            return self.observe(re)
        else:
            raise ValueError(op)
        return None


def _enc_obs(res, obs):
    order, lib, layers = obs
    return [res, [Atom("order")] + list(order), opt(None if lib is None else list(lib)),
            [Atom("layers")] + [[n, [Atom("set")] + list(gs)] for n, gs in layers]]


def run_impl(case):
    tmp = tempfile.mkdtemp(prefix="c12_")
    try:
        w = World(case, tmp)
        outs = []
        trace = []
        if case.get("lazy") and case["origin"] in ("ufo3", "ufo2"):
            # do not touch font.lib before the first operation: the first callback then triggers the lazy
            # read of lib.plist itself.  The start observation is what ufoLib wrote to disk.
            init = case["init"]
            before = (list(init["lib"] or []), None if init["lib"] is None else list(init["lib"]),
                      [(l.name, sorted(l.keys())) for l in w.font.layers])
        else:
            before = w.observe()
        outs.append(_enc_obs(Atom("ok"), before))
        for op in case["ops"]:
            err = None
            reopened = None
            try:
                reopened = w.do(op)
            except KeyError:
                err = "KeyError"
            except Exception as e:     # anything else is unexpected: shows as a divergence
                err = type(e).__name__
            after = w.observe()
            outs.append(_enc_obs(Atom("ok") if err is None else [Atom("err"), Atom(err)], after))
            trace.append(dict(op=op, err=err, before=before, after=after, reopened=reopened))
            before = after
        viol, stats, nontrivial = oracle(case, trace)
        stats["origin." + case["origin"]] = 1
        if case.get("lazy"):
            stats["origin.lazy-lib"] = 1
        if case.get("init"):
            stats["startorder." + case["init"].get("kind", "?")] = 1
        stats["len"] = len(case["ops"])
        try:
            w.font.close()
        except Exception:
            pass
        return dict(out=outs, viol=viol, info=dict(nontrivial=nontrivial, stats=stats))
    finally:
        shutil.rmtree(tmp, ignore_errors=True)


# ---------------------------------------------------------------------------------------
# direct oracle: the clauses of the property, evaluated on what the implementation itself
# reported before and after each operation (no model, no expected-state bookkeeping)
# ---------------------------------------------------------------------------------------

def _has(layers, name, g):
    for n, gs in layers:
        if n == name:
            return g in gs
    return False


def _anywhere(layers, g):
    return any(g in gs for _, gs in layers)


def _without(order, names):
    return [x for x in order if x not in names]


def oracle(case, trace):
    viol = []
    stats = {}
    nontrivial = False

    def bump(k):
        stats[k] = stats.get(k, 0) + 1

    def bad(clause, site, step, t, why):
        viol.append(dict(clause="C12/" + clause, signature="C12/%s/%s" % (clause, site), step=step, op=t["op"],
                         why=why, before=dict(order=t["before"][0], layers=t["before"][2]),
                         after=dict(order=t["after"][0], lib=t["after"][1], layers=t["after"][2])))

    for i, t in enumerate(trace):
        op, err = t["op"], t["err"]
        k = op[0]
        ob, lb, layb = t["before"]
        oa, la, laya = t["after"]
        bump("op." + k)
        if err:
            bump("err.%s.%s" % (k, err))
        n0 = len(viol)

        # stored in and read from the font lib ------------------------------------------------
        if list(oa) != list(la if la is not None else []):
            bad("stored", k, i, t, "font.glyphOrder differs from font.lib.get('public.glyphOrder')")
        if k == "setOrder" and not err:
            want = list(op[1] or [])
            if list(oa) != want:
                bad("stored", "setOrder/readback", i, t, "glyphOrder does not read back what was assigned")
            if want and la != want:
                bad("stored", "setOrder/lib", i, t, "assigned order is not in the lib")
        if k == "setLib" and not err:
            if list(oa) != list(op[1] or []):
                bad("stored", "setLib/readback", i, t, "glyphOrder is not read from the lib")
        if k == "save" and not err and t["reopened"] is not None:
            if list(t["reopened"][0]) != list(oa):
                bad("stored", "save/reopen", i, t, "order read from the saved lib is %r" % (t["reopened"][0],))
        if k in ("setOrder", "setLib"):
            if len(viol) > n0:
                break
            continue

        # which names may this operation touch ---------------------------------------------------
        touched = set()
        ok = not err
        if ok and k in ("newGlyph", "insertGlyph", "delGlyph"):
            touched = {op[2]}
        elif ok and k == "rename":
            touched = {op[2], op[3]}
        elif ok and k == "delLayer":
            touched = {g for n, gs in layb if n == op[1] for g in gs}   # the property says nothing here

        # the order never gains duplicates ---------------------------------------------------------
        for n in set(oa):
            if oa.count(n) > max(1, ob.count(n)):
                bad("no-new-duplicates", k, i, t, "%r occurs %d times, %d before" % (n, oa.count(n), ob.count(n)))
                break
        # names untouched keep their relative order (and are neither dropped nor added) ---------------
        if _without(oa, touched) != _without(ob, touched):
            bad("others-keep-order", k, i, t, "untouched names changed: %r -> %r" % (_without(ob, touched), _without(oa, touched)))

        if ok and k in ("newGlyph", "insertGlyph"):
            L, g = op[1], op[2]
            site = k
            if g in ob:
                bump("create.present")
                if _anywhere(layb, g) is False:
                    bump("create.present.stale-name")
                    nontrivial = True
            else:
                bump("create.absent")
            if not _has(laya, L, g):
                bad("created", site + "/not-in-layer", i, t, "glyph is not in the layer after creation")
            if g not in oa:
                bad("created", site + "/missing", i, t, "created name is not in the order")
            elif g not in ob and list(oa) != list(ob) + [g]:
                bad("created", site + "/not-appended", i, t, "absent name was not appended at the end")
        elif ok and k == "delGlyph":
            L, g = op[1], op[2]
            still = _anywhere(laya, g)
            if still:
                bump("delete.still-exists")
                nontrivial = True
                if g in ob and g not in oa:
                    bad("deleted", "delGlyph/left-while-kept", i, t, "name left the order although a layer still has it")
            else:
                bump("delete.gone." + ("in-order" if g in ob else "not-in-order"))
                if g in ob:
                    nontrivial = True
                if ob.count(g) <= 1 and g in oa:
                    bad("deleted", "delGlyph/stayed-when-gone", i, t, "no layer has the name any more but it is still in the order")
        elif ok and k == "rename" and op[2] != op[3]:
            L, old, new = op[1], op[2], op[3]
            stays = _anywhere(laya, old)
            if new not in oa:
                bad("renamed", "rename/new-missing", i, t, "new name is not in the order")
            if stays:
                bump("rename.old-stays")
                nontrivial = True
                if old in ob and old not in oa:
                    bad("renamed", "rename/old-left-while-kept", i, t, "old name left the order although a layer still has it")
                if new not in ob and list(oa) != list(ob) + [new]:
                    bad("renamed", "rename/not-appended", i, t, "old name must stay: new name must be appended")
            elif old in ob:
                if new in ob:
                    bump("rename.new-already-in-order")
                    nontrivial = True
                else:
                    bump("rename.replace")
                    idx = ob.index(old)
                    if len(oa) != len(ob) or oa[idx] != new:
                        bad("renamed", "rename/position", i, t, "new name did not take the old name's position %d" % idx)
                if ob.count(old) <= 1 and old in oa:
                    bad("renamed", "rename/old-stayed-when-gone", i, t, "old name is in no layer but still in the order")
            else:
                bump("rename.old-not-in-order")
                if new in ob:
                    nontrivial = True
                if new not in ob and list(oa) != list(ob) + [new]:
                    bad("renamed", "rename/not-appended", i, t, "new name must be appended")
        if len(viol) > n0:
            break
    return viol[:3], stats, nontrivial
