"""C12 - the font's glyph order follows glyph creation, deletion and renaming.

Correspondence with M-GlyphOrder (lean/DefconModel/GlyphOrder.lean) + a direct oracle that
evaluates the clauses of the property on consecutive (before, op, after) observations of the
real defcon font.

A case is
  dict(origin=<how the font comes to exist>, init=<start content or None>, ops=[...])
origins: "new" (Font()), "ufo3"/"ufo2" (Font(path) on a UFO written with fontTools.ufoLib),
"deser" (Font().setDataFromSerialization(hand-made dict)), "deser_rt" (…(getDataForSerialization()
of a loaded font)).  Output 0 is the observation of the start state, output i+1 that after ops[i].
`lazy=True` (loaded origins): font.lib is not touched before the first operation, so the first callback
itself triggers the lazy read of lib.plist; the start observation is then what ufoLib wrote.
"""
import os
import shutil
import sys
import tempfile

from sexp import Atom, opt

MODEL = "glyphorder"
SHRINKABLE = True
RULE = ("histories of newGlyph/insertGlyph/delete/rename in 1-4 layers, through the layer or through the font "
        "(font.newGlyph / font.insertGlyph / del font[name], also after the default layer was changed or deleted), "
        "+ glyphOrder/lib assignments, newLayer, delLayer (default layer included), layer renaming, layerOrder assignment, "
        "defaultLayer assignment, layer.holdNotifications()/releaseHeldNotifications() around blocks of such operations "
        "(nested, overlapping on several layers, with Layer.insertGlyph's own bracket inside), layer.disableNotifications()/"
        "enableNotifications(), font.holdNotifications()/releaseHeldNotifications(), glyph.holdNotifications() around a chain "
        "of renamings of that glyph onto unused names (judged at the glyph's release as the renaming first -> last), "
        "save-and-reopen, over fonts that are new, "
        "loaded from a generated UFO 3/UFO 2, or deserialised, with empty, partial, complete, superset, disjoint or "
        "duplicate-carrying start orders; after every op font.glyphOrder, font.lib.get('public.glyphOrder'), every layer's "
        "key set, hold and disable state, the default layer and font.keys() are compared with the model; non-trivial = at "
        "least one successful glyph-set op whose outcome depended on cross-layer existence or on the current content of the "
        "order (delete while another layer keeps the name, delete of the last copy, rename onto a name in the order, rename "
        "whose old name stays, re-creation of a name present in the order) or a release that delivered at least two held "
        "notifications; distinct = distinct (origin, init, ops)")
ASSUMPTIONS = [
    "holds and disables are those of BaseObject.holdNotifications()/disableNotifications() on a layer or on the font (keys "
    "(None, object, None) of the centre); holds of one notification name, of the layer set or of the whole centre are not "
    "exercised (delivery itself is C04's subject)",
    "while a layer's notifications are DISABLED the font is not told about its glyphs: the property's sentences are not "
    "demanded of operations on a disabled layer, nor of a release that happens while the layer is disabled",
    "glyph order values are lists of strings (or None); glyph and layer names are non-empty strings",
    "a layer is not renamed onto the name of another layer, nor while its notifications are held or disabled (the layer set "
    "then keeps the old key); no external changes / reload; nothing is saved once the default layer was deleted or re-assigned or "
    "a layer renamed (`save` is then an observation only)",
    "operations address glyphs through layer[name]; glyph objects that were replaced or deleted (no longer in the font) are "
    "not renamed afterwards (a replaced loaded glyph stays observed by its layer: finding F16, C11's subject)",
    "renaming a glyph onto a name that exists in the same layer silently replaces that glyph (code as it is); only the name "
    "sets and the order are compared",
]
TRUSTED = ["UFO fixtures are written with fontTools.ufoLib.UFOWriter (not defcon)",
           "the generator's own bookkeeping of layer contents only biases choices; it is never used as an expectation"]



def _quiet_unraisable(u):
    # defcon's BaseObject.__del__ unregisters observers; when a whole font is dropped at the end of a
    # case the objects die in arbitrary order and some __del__ find their parents already gone.  That
    # happens after the last observation and is only noise on stderr.
    if getattr(u.object, "__name__", "") == "__del__":
        return
    sys.__unraisablehook__(u)


sys.unraisablehook = _quiet_unraisable

POOL = ["a", "b", "c", "d", "e", "A", "a.alt", "f_i", "space"]
GHOSTS = ["ghost", "zeta", ".notdef"]
LAYERS = ["foreground", "background", "sketch", "public.default"]
KEY = "public.glyphOrder"


# ---------------------------------------------------------------------------------------
# generation
# ---------------------------------------------------------------------------------------

def _start_order(rng, union, pool, kind):
    u = list(union)
    rng.shuffle(u)
    extras = [n for n in pool + GHOSTS if n not in union]
    rng.shuffle(extras)
    if kind == "none":
        return None
    if kind == "emptylist":
        return []
    if kind == "partial":
        return u[:rng.randint(0, max(0, len(u) - 1))] if u else []
    if kind == "complete":
        return u
    if kind == "superset":
        res = list(u)
        for x in extras[:rng.randint(1, 3)]:
            res.insert(rng.randint(0, len(res)), x)
        return res
    if kind == "disjoint":
        return extras[:rng.randint(1, 3)]
    if kind == "dups":
        res = list(u) + extras[:rng.randint(0, 2)]
        rng.shuffle(res)
        if res:
            for _ in range(rng.randint(1, 2)):
                res.insert(rng.randint(0, len(res)), rng.choice(res))
        return res
    raise ValueError(kind)


ORDER_KINDS = ["none", "partial", "complete", "superset", "disjoint", "dups", "emptylist"]
ORDER_WEIGHTS = [14, 22, 22, 22, 6, 9, 5]


def _gen_init(rng, origin, pool):
    if origin == "ufo2":
        names = ["public.default"]
    else:
        names = rng.sample(LAYERS[:3], rng.randint(1, 3))
    layers = []
    for n in names:
        k = rng.choice([0, 1, 2, 2, 3, 3, 4, 5])
        layers.append([n, sorted(rng.sample(pool, min(k, len(pool))))])
    default = "public.default" if origin == "ufo2" else rng.choice(names)
    union = sorted({g for _, gs in layers for g in gs})
    kind = rng.choices(ORDER_KINDS, ORDER_WEIGHTS)[0]
    lib = _start_order(rng, union, pool, kind)
    if lib == [] and kind != "emptylist":
        lib = None if rng.random() < 0.7 else []
    return dict(layers=layers, default=default, lib=lib, kind=kind)


class _Track(object):
    """generator-side bookkeeping, only to bias the choice of names"""

    def __init__(self, init):
        if init is None:
            self.layers = {"public.default": set()}
            self.default = "public.default"
            self.seen = set()
        else:
            self.layers = {n: set(gs) for n, gs in init["layers"]}
            self.default = init["default"]
            self.seen = set(init["lib"] or [])
        for gs in self.layers.values():
            self.seen |= gs
        self.held = {}
        self.disabled = {}
        self.fontheld = 0
        self.lastren = {}        # layer -> the name the last successful renaming in it led to

    def union(self):
        u = set()
        for gs in self.layers.values():
            u |= gs
        return u

    def quiet(self, L):
        return not self.held.get(L) and not self.disabled.get(L)

    def apply(self, op):
        k = op[0]
        if k in ("fontNewGlyph", "fontInsertGlyph", "fontDelGlyph"):
            if self.default is None:
                return
            op = [k[4].lower() + k[5:], self.default] + list(op[1:])
            k = op[0]
        if k in ("newGlyph", "insertGlyph") and op[1] in self.layers:
            self.layers[op[1]].add(op[2])
            self.seen.add(op[2])
        elif k == "delGlyph" and op[1] in self.layers:
            self.layers[op[1]].discard(op[2])
        elif k == "rename" and op[1] in self.layers and op[2] in self.layers[op[1]]:
            self.layers[op[1]].discard(op[2])
            self.layers[op[1]].add(op[3])
            self.seen.add(op[3])
            self.lastren[op[1]] = op[3]
        elif k == "heldRename" and op[1] in self.layers and op[2] in self.layers[op[1]]:
            self.layers[op[1]].discard(op[2])
            self.layers[op[1]].add(op[3][-1])
            self.seen |= set(op[3])
            self.lastren[op[1]] = op[3][-1]
        elif k == "newLayer":
            self.layers.setdefault(op[1], set())
        elif k == "delLayer":
            if op[1] in self.layers:
                self.layers.pop(op[1], None)
                self.held.pop(op[1], None)
                self.disabled.pop(op[1], None)
                if self.default == op[1]:
                    self.default = None
        elif k == "renameLayer":
            o, n = op[1], op[2]
            if o in self.layers and n not in self.layers and self.quiet(o):
                self.layers = {(n if x == o else x): v for x, v in self.layers.items()}
                if self.default == o:
                    self.default = n
        elif k == "setLayerOrder":
            if sorted(op[1]) == sorted(self.layers):
                self.layers = {n: self.layers[n] for n in op[1]}
        elif k == "setDefault":
            if op[1] in self.layers:
                self.default = op[1]
        elif k == "holdLayer" and op[1] in self.layers:
            self.held[op[1]] = self.held.get(op[1], 0) + 1
        elif k == "releaseLayer" and self.held.get(op[1]):
            self.held[op[1]] -= 1
        elif k == "disableLayer" and op[1] in self.layers:
            self.disabled[op[1]] = self.disabled.get(op[1], 0) + 1
        elif k == "enableLayer" and self.disabled.get(op[1]):
            self.disabled[op[1]] -= 1
        elif k == "holdFont":
            self.fontheld += 1
        elif k == "releaseFont" and self.fontheld:
            self.fontheld -= 1
        elif k in ("setOrder", "setLib"):
            self.seen |= set(op[1] or [])


def _pick_layer(rng, tr, nonempty=False):
    names = sorted(tr.layers)
    if rng.random() < 0.03:
        return "nolayer"
    if nonempty:
        full = [n for n in names if tr.layers[n]]
        if full and rng.random() < 0.85:
            return rng.choice(full)
    return rng.choice(names)


def _gen_layer_op(rng, tr, pool):
    """layer-set operations, holds and disables, font-level glyph operations"""
    names = sorted(tr.layers)
    r = rng.random()
    heldnow = sorted(n for n in names if tr.held.get(n))
    disnow = sorted(n for n in names if tr.disabled.get(n))
    if r < 0.22:
        if heldnow and rng.random() < 0.5:
            return ["holdLayer", rng.choice(heldnow)]                  # nested
        return ["holdLayer", rng.choice(names) if rng.random() < 0.96 else "nolayer"]
    if r < 0.36:
        if heldnow and rng.random() < 0.9:
            return ["releaseLayer", rng.choice(heldnow)]
        return ["releaseLayer", rng.choice(names + ["nolayer"])]      # usually KeyError: nothing is held
    if r < 0.42:
        return ["disableLayer", rng.choice(names)]
    if r < 0.48:
        if disnow and rng.random() < 0.9:
            return ["enableLayer", rng.choice(disnow)]
        return ["enableLayer", rng.choice(names)]
    if r < 0.56:
        quiet = [n for n in names if tr.quiet(n)]
        free = [n for n in LAYERS + ["extra", "renamed"] if n not in tr.layers]
        if quiet and free and rng.random() < 0.9:
            return ["renameLayer", rng.choice(quiet), rng.choice(free)]
        if quiet:
            o = rng.choice(quiet)
            return ["renameLayer", o, o]
        return ["renameLayer", "nolayer", "x"]
    if r < 0.62:
        perm = list(names)
        rng.shuffle(perm)
        q = rng.random()
        if q < 0.08 and perm:
            perm = perm[:-1]
        elif q < 0.16 and perm:
            perm = perm[:-1] + [perm[0]]
        elif q < 0.2:
            perm = perm + ["nolayer"]
        return ["setLayerOrder", perm]
    if r < 0.68:
        return ["setDefault", rng.choice(names) if rng.random() < 0.95 else "nolayer"]
    if r < 0.72:
        return ["holdFont"] if (not tr.fontheld or rng.random() < 0.3) else ["releaseFont"]
    if r < 0.74:
        return ["releaseFont"]
    # font-level glyph operations
    here = sorted(tr.layers.get(tr.default, ())) if tr.default is not None else []
    others = sorted(tr.union() - set(here))
    stale = sorted(tr.seen - tr.union())
    q = rng.random()
    if q < 0.4:
        return ["fontNewGlyph", _weighted_name(rng, [(pool, 4), (others, 3), (stale, 3), (here, 2)], pool)]
    if q < 0.6:
        g = _weighted_name(rng, [(pool, 4), (others, 3), (stale, 2), (here, 2)], pool)
        kind = rng.choice(["standalone", "standalone-rename", "otherfont"])
        if kind == "standalone-rename":
            return ["fontInsertGlyph", g, ["standalone", rng.choice(pool), True]]
        if kind == "otherfont":
            return ["fontInsertGlyph", g, ["otherfont", g, rng.random() < 0.5]]
        return ["fontInsertGlyph", g, ["standalone", g, False]]
    if here and rng.random() < 0.9:
        return ["fontDelGlyph", rng.choice(here)]
    return ["fontDelGlyph", rng.choice(pool)]


def _gen_held_rename(rng, tr, pool):
    """the GLYPH's own notifications held around a chain of renamings: glyph.holdNotifications(); glyph.name = n1;
    glyph.name = n2; …; glyph.releaseHeldNotifications() - with names that nothing has or lists"""
    full = [n for n in sorted(tr.layers) if tr.layers[n]]
    if not full:
        return None
    L = rng.choice(full)
    fresh = [n for n in POOL + GHOSTS + ["f1", "f2", "f3", "f4"] if n not in tr.seen and n not in tr.union()]
    if len(fresh) < 2:
        return None
    rng.shuffle(fresh)
    old = rng.choice(sorted(tr.layers[L])) if rng.random() < 0.95 else rng.choice(pool)
    return ["heldRename", L, old, fresh[:rng.randint(1, min(3, len(fresh)))]]


def _gen_held_glyph_op(rng, tr, pool, L):
    """a glyph operation inside a held block on layer L: few names, so that notifications repeat (are coalesced)
    and names are deleted, re-created and renamed back and forth before anything is delivered"""
    small = pool[:3]
    here = sorted(tr.layers.get(L, ()))
    r = rng.random()
    if r < 0.3:
        if rng.random() < 0.3:
            g = rng.choice(small)
            return ["insertGlyph", L, g, ["standalone", g, False], "layer"]
        return ["newGlyph", L, rng.choice(small), "layer"]
    if r < 0.62:
        cands = [x for x in here if x in small] or here
        if cands and rng.random() < 0.93:
            return ["delGlyph", L, rng.choice(cands), "layer"]
        return ["delGlyph", L, rng.choice(small), "layer"]
    cands = [x for x in here if x in small] or here
    if here and rng.random() < 0.12:
        fresh = [x for x in POOL + GHOSTS + ["f1", "f2", "f3", "f4"] if x not in tr.seen and x not in tr.union()]
        if len(fresh) >= 2:
            rng.shuffle(fresh)
            return ["heldRename", L, rng.choice(here), fresh[:rng.randint(2, min(3, len(fresh)))]]
    last = tr.lastren.get(L)
    if last in here and rng.random() < 0.4:
        # go on renaming the glyph that was renamed last: a chain a -> b -> c inside the hold
        fresh = [x for x in POOL + GHOSTS if x not in tr.seen and x not in tr.union()]
        if fresh:
            return ["rename", L, last, rng.choice(fresh)]
    if cands and rng.random() < 0.95:
        old = rng.choice(cands)
        fresh = [x for x in pool if x not in tr.seen]
        new = _weighted_name(rng, [(small, 5), (fresh, 3), (pool, 1)], pool)
        return ["rename", L, old, new]
    return ["rename", L, rng.choice(small), rng.choice(small)]


def _gen_op(rng, tr, pool, origin):
    if not tr.layers:
        # every layer has been deleted
        return rng.choice([["newLayer", rng.choice(LAYERS[:3])], ["fontNewGlyph", rng.choice(pool)],
                           ["newGlyph", "nolayer", rng.choice(pool), "layer"], ["setDefault", "nolayer"],
                           ["newLayer", rng.choice(LAYERS[:3])]])
    heldnow = sorted(n for n in tr.layers if tr.held.get(n))
    if heldnow:
        # inside a held block: mostly glyph operations on the held layer, sometimes the release
        q = rng.random()
        if q < 0.17:
            return ["releaseLayer", rng.choice(heldnow)]
        if q < 0.72:
            return _gen_held_glyph_op(rng, tr, pool, rng.choice(heldnow))
    if rng.random() < 0.13:
        return _gen_layer_op(rng, tr, pool)
    if rng.random() < 0.07:
        op = _gen_held_rename(rng, tr, pool)
        if op is not None:
            return op
    r = rng.random()
    L = _pick_layer(rng, tr, nonempty=(0.32 <= r < 0.82))
    here = sorted(tr.layers.get(L, ()))
    elsewhere = sorted(tr.union() - set(here))
    stale = sorted(tr.seen - tr.union())           # mentioned (e.g. in the order) but in no layer
    if r < 0.20:
        cands = [(pool, 4), (elsewhere, 3), (stale, 3), (here, 2)]
        g = _weighted_name(rng, cands, pool)
        via = "font" if (L == tr.default and rng.random() < 0.4) else "layer"
        return ["newGlyph", L, g, via]
    if r < 0.32:
        g = _weighted_name(rng, [(pool, 4), (elsewhere, 3), (stale, 2), (here, 2)], pool)
        kind = rng.choice(["standalone", "standalone-rename", "layer", "layer-rename", "otherfont", "self"])
        via = "font" if (L == tr.default and rng.random() < 0.4) else "layer"
        if kind in ("layer", "layer-rename"):
            srcs = [(l2, x) for l2 in sorted(tr.layers) for x in sorted(tr.layers[l2]) if l2 != L]
            if srcs:
                l2, x = rng.choice(srcs)
                if kind == "layer":
                    return ["insertGlyph", L, x, ["layer", l2, x, False], via]
                return ["insertGlyph", L, g, ["layer", l2, x, True], via]
            kind = "standalone"
        if kind == "self" and here:
            x = rng.choice(here)
            return ["insertGlyph", L, x, ["layer", L, x, rng.random() < 0.5], via]
        if kind == "standalone-rename":
            return ["insertGlyph", L, g, ["standalone", rng.choice(pool), True], via]
        if kind == "otherfont":
            return ["insertGlyph", L, g, ["otherfont", g, rng.random() < 0.5], via]
        return ["insertGlyph", L, g, ["standalone", g, False], via]
    if r < 0.55:
        if here and rng.random() < 0.9:
            # prefer names that also live elsewhere (the cross-layer rule) half of the time
            shared = [x for x in here if any(x in gs for l2, gs in tr.layers.items() if l2 != L)]
            g = rng.choice(shared) if shared and rng.random() < 0.5 else rng.choice(here)
        else:
            g = rng.choice(pool)
        via = "font" if (L == tr.default and rng.random() < 0.4) else "layer"
        return ["delGlyph", L, g, via]
    if r < 0.82:
        if here and rng.random() < 0.92:
            shared = [x for x in here if any(x in gs for l2, gs in tr.layers.items() if l2 != L)]
            old = rng.choice(shared) if shared and rng.random() < 0.4 else rng.choice(here)
        else:
            old = rng.choice(pool)
        fresh = [x for x in pool if x not in tr.seen and x not in tr.union()]
        new = _weighted_name(rng, [(fresh, 5), (elsewhere, 3), (stale, 3), (here, 1), ([old], 0.3)], pool)
        return ["rename", L, old, new]
    if r < 0.88:
        u = sorted(tr.union())
        kind = rng.choices(ORDER_KINDS, ORDER_WEIGHTS)[0]
        return ["setOrder", _start_order(rng, u, pool, kind)]
    if r < 0.90:
        u = sorted(tr.union())
        kind = rng.choices(ORDER_KINDS, ORDER_WEIGHTS)[0]
        return ["setLib", _start_order(rng, u, pool, kind)]
    if r < 0.945:
        free = [n for n in LAYERS[:3] + ["extra"] if n not in tr.layers]
        if free and rng.random() < 0.9:
            return ["newLayer", rng.choice(free)]
        return ["newLayer", rng.choice(sorted(tr.layers))]
    if r < 0.97:
        cands = [n for n in sorted(tr.layers) if n != tr.default or rng.random() < 0.25]
        if cands and rng.random() < 0.9:
            return ["delLayer", rng.choice(cands)]
        return ["delLayer", "nolayer"]
    if tr.default is None:
        return ["setDefault", rng.choice(sorted(tr.layers))] if tr.layers else ["newLayer", "foreground"]
    return ["save"]


def _weighted_name(rng, cands, pool):
    cands = [(xs, w) for xs, w in cands if xs]
    if not cands:
        return rng.choice(pool)
    xs = rng.choices([c[0] for c in cands], [c[1] for c in cands])[0]
    return rng.choice(list(xs))


def gen_case(rng, maxlen):
    origin = rng.choices(["new", "ufo3", "ufo2", "deser", "deser_rt"], [28, 30, 8, 20, 14])[0]
    pool = rng.sample(POOL, rng.randint(3, 6))
    ops = []
    if origin == "new":
        init = None
        tr = _Track(None)
        # build content through the API first, then (usually) force a start order of a chosen kind
        for _ in range(rng.randint(0, 2)):
            free = [n for n in LAYERS[:3] if n not in tr.layers]
            op = ["newLayer", rng.choice(free)]
            ops.append(op)
            tr.apply(op)
        for _ in range(rng.randint(0, 7)):
            op = ["newGlyph", rng.choice(sorted(tr.layers)), rng.choice(pool), "layer"]
            ops.append(op)
            tr.apply(op)
        if rng.random() < 0.75:
            kind = rng.choices(ORDER_KINDS, ORDER_WEIGHTS)[0]
            op = ["setOrder", _start_order(rng, sorted(tr.union()), pool, kind)]
            ops.append(op)
            tr.apply(op)
    else:
        init = _gen_init(rng, origin, pool)
        tr = _Track(init)
    for _ in range(rng.randint(2, maxlen)):
        op = _gen_op(rng, tr, pool, origin)
        ops.append(op)
        tr.apply(op)
    case = dict(origin=origin, init=init, ops=ops)
    if origin in ("ufo3", "ufo2") and rng.random() < 0.5:
        case["lazy"] = True
    return case


def gen_held_case(rng, maxlen):
    """a font with content and a start order, then one or two blocks `hold L … release L` made of glyph operations
    on few names (and a few operations elsewhere), then some more history"""
    case = gen_case(rng, 4)
    tr = _Track(case.get("init"))
    for op in case["ops"]:
        tr.apply(op)
    pool = sorted({g for gs in tr.layers.values() for g in gs} | set(rng.sample(POOL, 3)))
    rng.shuffle(pool)
    ops = list(case["ops"])
    # make sure nothing is left held/disabled by the random prefix (half of the time)
    if rng.random() < 0.5:
        for L in sorted(tr.layers):
            while tr.held.get(L):
                op = ["releaseLayer", L]
                ops.append(op)
                tr.apply(op)
            while tr.disabled.get(L):
                op = ["enableLayer", L]
                ops.append(op)
                tr.apply(op)
    for _ in range(rng.randint(1, 2)):
        if not tr.layers:
            break
        L = rng.choice(sorted(tr.layers))
        # give the layer something to delete and rename
        for _ in range(rng.randint(0, 3)):
            op = ["newGlyph", L, rng.choice(pool[:3]), "layer"]
            ops.append(op)
            tr.apply(op)
        if rng.random() < 0.6:
            kind = rng.choices(ORDER_KINDS, ORDER_WEIGHTS)[0]
            op = ["setOrder", _start_order(rng, sorted(tr.union()), pool, kind)]
            ops.append(op)
            tr.apply(op)
        op = ["holdLayer", L]
        ops.append(op)
        tr.apply(op)
        if tr.layers[L] and rng.random() < 0.3:
            # a pure chain of renamings x -> f1 -> f2 (-> f3) with other operations in between
            x = rng.choice(sorted(tr.layers[L]))
            fresh = [n for n in POOL + GHOSTS + ["f1", "f2", "f3"] if n not in tr.seen and n not in tr.union()]
            rng.shuffle(fresh)
            for nxt in fresh[:rng.randint(2, 3)]:
                op = ["rename", L, x, nxt]
                ops.append(op)
                tr.apply(op)
                x = nxt
                if rng.random() < 0.4:
                    others = [n for n in pool if n != x and n not in fresh]
                    if others:
                        op = rng.choice([["newGlyph", L, rng.choice(others), "layer"], ["delGlyph", L, rng.choice(others), "layer"]])
                        ops.append(op)
                        tr.apply(op)
        for _ in range(rng.randint(0 if len(ops) > 2 and ops[-1][0] != "holdLayer" else 1, max(2, maxlen // 2))):
            if L not in tr.layers:
                break
            q = rng.random()
            if q < 0.8:
                op = _gen_held_glyph_op(rng, tr, pool, L)
            elif q < 0.93:
                others = [n for n in sorted(tr.layers) if n != L]
                op = _gen_held_glyph_op(rng, tr, pool, rng.choice(others)) if others else ["save"]
            else:
                op = _gen_op(rng, tr, pool, case["origin"])
            ops.append(op)
            tr.apply(op)
        if L in tr.layers:
            while tr.held.get(L) and rng.random() < 0.97:
                op = ["releaseLayer", L]
                ops.append(op)
                tr.apply(op)
    for _ in range(rng.randint(0, 3)):
        op = _gen_op(rng, tr, pool, case["origin"])
        ops.append(op)
        tr.apply(op)
    case["ops"] = ops
    return case


def generate(rng, tier):
    n, maxlen = (2500, 16) if tier == "quick" else (24000, 40)
    for i in range(n):
        if i % 3 == 2:
            yield gen_held_case(rng, maxlen)
        else:
            yield gen_case(rng, maxlen)


def neighbourhood(case, step, rng):
    """variants around a diverging output line (`step` counts the start observation as 0):
    follow the diverging op with the glyph-set ops the property talks about, on the names and
    layers involved, and precede it with start orders of the four kinds."""
    ops = case["ops"]
    k = max(0, step)            # ops[:k] reproduces up to and including the diverging op
    prefix = ops[:k]
    yield dict(case, ops=prefix)
    tr = _Track(case.get("init"))
    for op in prefix:
        tr.apply(op)
    names = set()
    if prefix:
        names |= {x for x in prefix[-1][1:4] if isinstance(x, str)}
    names |= set(list(tr.union())[:4])
    names = sorted(n for n in names if n not in tr.layers) or ["a"]
    layers = sorted(tr.layers)
    follow = []
    for L in layers:
        for g in names:
            follow.append(["delGlyph", L, g, "layer"])
            follow.append(["newGlyph", L, g, "layer"])
            follow.append(["insertGlyph", L, g, ["standalone", g, False], "layer"])
            for g2 in names + ["fresh"]:
                if g2 != g:
                    follow.append(["rename", L, g, g2])
    for f in follow:
        yield dict(case, ops=prefix + [f])
    # the diverging op itself under other start orders
    if prefix:
        last = prefix[-1]
        u = sorted(tr.union() | {x for x in names})
        for kind in ("none", "partial", "complete", "superset", "dups"):
            for _ in range(3):
                so = ["setOrder", _start_order(rng, u, POOL, kind)]
                yield dict(case, ops=prefix[:-1] + [so, last])
                for f in follow[:40]:
                    yield dict(case, ops=prefix[:-1] + [so, last, f])
    for _ in range(200):
        a, b = rng.choice(follow), rng.choice(follow)
        yield dict(case, ops=prefix + [a, b])
    yield case


# ---------------------------------------------------------------------------------------
# model side
# ---------------------------------------------------------------------------------------

def replay_known(entry):
    """F116: the witness of `held_gone_leaves_violated` on the real code"""
    if entry.get("signature") != "C12/held-deleted/releaseLayer/stayed-when-gone/coalesced":
        return False
    from defcon import Font
    font = Font()
    layer = font.layers.defaultLayer
    keep = [font, layer]
    for n in ("a", "b", "c"):
        keep.append(layer.newGlyph(n))
    layer.holdNotifications()
    del layer["b"]
    keep.append(layer.newGlyph("b"))
    del layer["b"]
    layer.releaseHeldNotifications()
    stale = "b" in font.glyphOrder and not any("b" in l for l in font.layers)
    # ... and without the repetition the name leaves (the partial theorem's side)
    layer.holdNotifications()
    del layer["c"]
    layer.releaseHeldNotifications()
    return stale and "c" not in font.glyphOrder and bool(keep)


def _lib(v):
    return opt(None if v is None else list(v))


def enc_op(op):
    k = op[0]
    if k in ("newGlyph", "insertGlyph", "delGlyph"):
        return [Atom(k), op[1], op[2]]
    if k == "rename":
        return [Atom(k), op[1], op[2], op[3]]
    if k in ("setOrder", "setLib"):
        return [Atom(k), _lib(op[1])]
    if k in ("newLayer", "delLayer", "setDefault", "holdLayer", "releaseLayer", "disableLayer", "enableLayer"):
        return [Atom(k), op[1]]
    if k == "heldRename":
        return [Atom("renameChain"), op[1], op[2], list(op[3])]
    if k == "renameLayer":
        return [Atom(k), op[1], op[2]]
    if k == "setLayerOrder":
        return [Atom(k), list(op[1])]
    if k in ("fontNewGlyph", "fontInsertGlyph", "fontDelGlyph"):
        return [Atom(k), op[1]]
    if k in ("holdFont", "releaseFont"):
        return [Atom(k)]
    if k == "save":
        return [Atom("save")]
    raise ValueError(op)


def model_lines(case):
    init = case.get("init")
    if init is None:
        first = [Atom("init"), [["public.default", []]], _lib(None), opt("public.default")]
    else:
        first = [Atom("init"), [[n, list(gs)] for n, gs in init["layers"]], _lib(init["lib"]), opt(init["default"])]
    return [first] + [enc_op(op) for op in case["ops"]]


# ---------------------------------------------------------------------------------------
# implementation side
# ---------------------------------------------------------------------------------------

class _G(object):
    width = 500
    height = 0
    unicodes = ()
    note = None
    lib = None
    image = None
    guidelines = None
    anchors = None


def write_ufo(path, init, fmt):
    from fontTools.ufoLib import UFOWriter
    w = UFOWriter(path, formatVersion=fmt)
    names = []
    for lname, glyphs in init["layers"]:
        if fmt >= 3:
            gs = w.getGlyphSet(layerName=lname, defaultLayer=(lname == init["default"]))
        else:
            gs = w.getGlyphSet()
        for i, g in enumerate(glyphs):
            o = _G()
            o.width = 400 + 10 * i
            gs.writeGlyph(g, o)
        gs.writeContents()
        names.append(lname)
    if fmt >= 3:
        w.writeLayerContents(names)
    lib = {"com.example.other": 1}
    if init["lib"] is not None:
        lib[KEY] = list(init["lib"])
    w.writeLib(lib)
    w.close()


def hand_serialization(init):
    layers = []
    for lname, glyphs in init["layers"]:
        layers.append((lname, {"glyphs": {g: {"width": 300} for g in glyphs}}, lname == init["default"]))
    lib = {"com.example.other": 1}
    if init["lib"] is not None:
        lib[KEY] = list(init["lib"])
    return {"layers": {"layers": layers}, "lib": lib}


class World(object):
    def __init__(self, case, tmp):
        from defcon import Font
        self.Font = Font
        self.tmp = tmp
        self.keep = []           # every defcon object stays alive during the case
        self.nsave = 0
        origin, init = case["origin"], case.get("init")
        if origin == "new":
            self.font = Font()
        elif origin in ("ufo3", "ufo2"):
            p = os.path.join(tmp, "start.ufo")
            write_ufo(p, init, 3 if origin == "ufo3" else 2)
            self.font = Font(p)
        elif origin == "deser":
            self.font = Font()
            self.font.newGlyph("preexisting")        # replaced wholesale by the deserialised layers/lib
            self.font.setDataFromSerialization(hand_serialization(init))
        elif origin == "deser_rt":
            p = os.path.join(tmp, "src.ufo")
            write_ufo(p, init, 3)
            src = Font(p)
            self.keep.append(src)
            data = src.getDataForSerialization()
            self.font = Font()
            self.font.setDataFromSerialization(data)
        else:
            raise ValueError(origin)
        self.other = None
        self.restructured = False    # the default layer was re-assigned or a layer renamed: nothing is saved any more

    def observe(self, font=None):
        f = font or self.font
        order = f.glyphOrder
        lib = f.lib.get(KEY)
        c = f.dispatcher
        layers = [(l.name, sorted(l.keys()), bool(c.areNotificationsHeld(observable=l)),
                   bool(c.areNotificationsDisabled(observable=l))) for l in f.layers]
        d = f.layers.defaultLayer
        default = d.name if any(l is d for l in f.layers) else None
        return order, lib, layers, default, sorted(f.keys())

    def source(self, spec):
        from defcon import Glyph
        kind = spec[0]
        if kind == "layer":
            _, l2, x, _ = spec
            if l2 in self.font.layers and x in self.font.layers[l2]:
                return self.font.layers[l2][x]
            kind = "standalone"
            spec = ["standalone", x, spec[3]]
        if kind == "otherfont":
            if self.other is None:
                self.other = self.Font()
                self.keep.append(self.other)
            g = self.other.newGlyph(spec[1])
            g.width = 321
            return g
        g = Glyph()
        g.name = spec[1]
        g.width = 123
        g.unicodes = [65]
        return g

    def do(self, op):
        font = self.font
        k = op[0]
        if k == "newGlyph":
            _, L, g, via = op
            layer = font.layers[L]
            self.keep.append(font.newGlyph(g) if via == "font" and layer is font.layers.defaultLayer else layer.newGlyph(g))
        elif k == "insertGlyph":
            _, L, g, spec, via = op
            layer = font.layers[L]
            src = self.source(spec)
            self.keep.append(src)
            explicit = bool(spec[-1]) or src.name != g
            target = font if (via == "font" and layer is font.layers.defaultLayer) else layer
            if explicit:
                self.keep.append(target.insertGlyph(src, name=g))
            else:
                self.keep.append(target.insertGlyph(src))
        elif k == "delGlyph":
            _, L, g, via = op
            layer = font.layers[L]
            if g in layer._glyphs:
                self.keep.append(layer._glyphs[g])
            if via == "font" and layer is font.layers.defaultLayer:
                del font[g]
            else:
                del layer[g]
        elif k == "rename":
            _, L, old, new = op
            layer = font.layers[L]
            glyph = layer[old]
            self.keep.append(glyph)
            if new in layer._glyphs:
                self.keep.append(layer._glyphs[new])
            glyph.name = new
        elif k == "heldRename":
            _, L, old, chain = op
            layer = font.layers[L]
            glyph = layer[old]
            self.keep.append(glyph)
            glyph.holdNotifications(note="C12 harness")
            try:
                for n in chain:
                    glyph.name = n
            finally:
                glyph.releaseHeldNotifications()
        elif k == "setOrder":
            font.glyphOrder = None if op[1] is None else list(op[1])
        elif k == "setLib":
            if op[1] is None:
                del font.lib[KEY]
            else:
                font.lib[KEY] = list(op[1])
        elif k == "newLayer":
            self.keep.append(font.newLayer(op[1]))
        elif k == "delLayer":
            if op[1] in font.layers:
                self.keep.append(font.layers[op[1]])
            del font.layers[op[1]]
        elif k == "renameLayer":
            font.layers[op[1]].name = op[2]
            self.restructured = True
        elif k == "setLayerOrder":
            font.layers.layerOrder = list(op[1])
        elif k == "setDefault":
            font.layers.defaultLayer = font.layers[op[1]]
            self.restructured = True
        elif k == "fontNewGlyph":
            self.keep.append(font.newGlyph(op[1]))
        elif k == "fontInsertGlyph":
            _, g, spec = op
            src = self.source(spec)
            self.keep.append(src)
            self.keep.append(font.insertGlyph(src, name=g))
        elif k == "fontDelGlyph":
            d = font.layers.defaultLayer
            if op[1] in d._glyphs:
                self.keep.append(d._glyphs[op[1]])
            del font[op[1]]
        elif k == "holdLayer":
            font.layers[op[1]].holdNotifications(note="C12 harness")
        elif k == "releaseLayer":
            font.layers[op[1]].releaseHeldNotifications()
        elif k == "disableLayer":
            font.layers[op[1]].disableNotifications()
        elif k == "enableLayer":
            font.layers[op[1]].enableNotifications()
        elif k == "holdFont":
            font.holdNotifications(note="C12 harness")
        elif k == "releaseFont":
            font.releaseHeldNotifications()
        elif k == "save":
            d = font.layers.defaultLayer
            if not any(l is d for l in font.layers):
                return None          # the default layer was deleted: ufoLib refuses to write such a font
            if self.restructured:
                return None          # which layer may be the default one of a UFO, and under which name, is not C12's subject
            if font.path is None:
                self.nsave += 1
                font.save(os.path.join(self.tmp, "saved%d.ufo" % self.nsave))
            else:
                font.save()
            re = self.Font(font.path)
            self.keep.append(re)
            return self.observe(re)
        else:
            raise ValueError(op)
        return None


def _enc_obs(res, obs):
    order, lib, layers, default, keys = obs
    return [res, [Atom("order")] + list(order), opt(None if lib is None else list(lib)),
            [Atom("layers")] + [[n, [Atom("set")] + list(gs), Atom("true" if h else "false"), Atom("true" if d else "false")]
                                for n, gs, h, d in layers],
            opt(default), [Atom("keys"), [Atom("set")] + list(keys)]]


def run_impl(case):
    tmp = tempfile.mkdtemp(prefix="c12_")
    try:
        w = World(case, tmp)
        outs = []
        trace = []
        if case.get("lazy") and case["origin"] in ("ufo3", "ufo2"):
            # do not touch font.lib before the first operation: the first callback then triggers the lazy
            # read of lib.plist itself.  The start observation is what ufoLib wrote to disk.
            init = case["init"]
            before = (list(init["lib"] or []), None if init["lib"] is None else list(init["lib"]),
                      [(l.name, sorted(l.keys()), False, False) for l in w.font.layers], init["default"],
                      sorted(w.font.layers[init["default"]].keys()))
        else:
            before = w.observe()
        outs.append(_enc_obs(Atom("ok"), before))
        for op in case["ops"]:
            err = None
            reopened = None
            try:
                reopened = w.do(op)
            except KeyError:
                err = "KeyError"
            except AssertionError:
                err = "AssertionError"
            except Exception as e:     # anything else is unexpected: shows as a divergence
                err = type(e).__name__
            after = w.observe()
            outs.append(_enc_obs(Atom("ok") if err is None else [Atom("err"), Atom(err)], after))
            trace.append(dict(op=op, err=err, before=before, after=after, reopened=reopened))
            before = after
        viol, stats, nontrivial = oracle(case, trace)
        stats["origin." + case["origin"]] = 1
        if case.get("lazy"):
            stats["origin.lazy-lib"] = 1
        if case.get("init"):
            stats["startorder." + case["init"].get("kind", "?")] = 1
        stats["len"] = len(case["ops"])
        try:
            w.font.close()
        except Exception:
            pass
        return dict(out=outs, viol=viol, info=dict(nontrivial=nontrivial, stats=stats))
    finally:
        shutil.rmtree(tmp, ignore_errors=True)


# ---------------------------------------------------------------------------------------
# direct oracle: the clauses of the property, evaluated on what the implementation itself
# reported before and after each operation (no model, no expected-state bookkeeping)
# ---------------------------------------------------------------------------------------

def _has(layers, name, g):
    for l in layers:
        if l[0] == name:
            return g in l[1]
    return False


def _anywhere(layers, g):
    return any(g in l[1] for l in layers)


def _state(layers, name):
    """(held?, disabled?) of a layer in an observation; None when there is no such layer"""
    for l in layers:
        if l[0] == name:
            return l[2], l[3]
    return None


def _without(order, names):
    return [x for x in order if x not in names]


class _Block(object):
    """what happened on one layer since its notifications became held (oracle-side record, built from the
    operations the implementation accepted and from the implementation's own observations)"""

    def __init__(self):
        self.notes = []          # ("added", g) / ("deleted", g) / ("renamed", old, new), in posting order
        self.other = set()       # names spoken about, while the block was open, by anything but these notes
        self.disabled = False    # the layer was disabled at some moment of the block
        self.moved = False       # the layer was renamed / the block cannot be followed


def oracle(case, trace):
    viol = []
    stats = {}
    nontrivial = False
    blocks = {}                  # layer name -> _Block, for layers whose notifications are held

    def bump(k):
        stats[k] = stats.get(k, 0) + 1

    def bad(clause, site, step, t, why):
        viol.append(dict(clause="C12/" + clause, signature="C12/%s/%s" % (clause, site), step=step, op=t["op"],
                         why=why, before=dict(order=t["before"][0], layers=t["before"][2]),
                         after=dict(order=t["after"][0], lib=t["after"][1], layers=t["after"][2])))

    for i, t in enumerate(trace):
        op, err = t["op"], t["err"]
        k = op[0]
        ob, lb, layb, defb = t["before"][:4]
        oa, la, laya, defa = t["after"][:4]
        bump("op." + k)
        if err:
            bump("err.%s.%s" % (k, err))
        n0 = len(viol)

        # font-level glyph operations are operations on the default layer (nothing is demanded when that layer
        # is no longer a layer of the font)
        if k in ("fontNewGlyph", "fontInsertGlyph", "fontDelGlyph"):
            if defb is None:
                bump("fontop.detached-default")
                if list(oa) != list(ob):
                    bad("others-keep-order", k + "/detached-default", i, t, "an operation on a layer the font no longer has changed the order")
                if len(viol) > n0:
                    break
                continue
            k = k[4].lower() + k[5:]
            op = [k, defb] + list(op[1:])
            bump("fontop.default")

        # stored in and read from the font lib ------------------------------------------------
        if list(oa) != list(la if la is not None else []):
            bad("stored", k, i, t, "font.glyphOrder differs from font.lib.get('public.glyphOrder')")
        if k == "setOrder" and not err:
            want = list(op[1] or [])
            if list(oa) != want:
                bad("stored", "setOrder/readback", i, t, "glyphOrder does not read back what was assigned")
            if want and la != want:
                bad("stored", "setOrder/lib", i, t, "assigned order is not in the lib")
        if k == "setLib" and not err:
            if list(oa) != list(op[1] or []):
                bad("stored", "setLib/readback", i, t, "glyphOrder is not read from the lib")
        if k == "save" and not err and t["reopened"] is not None:
            if list(t["reopened"][0]) != list(oa):
                bad("stored", "save/reopen", i, t, "order read from the saved lib is %r" % (t["reopened"][0],))
        if k in ("setOrder", "setLib"):
            for b in blocks.values():
                b.other |= set(op[1] or [])
                b.other |= set(ob)
            if len(viol) > n0:
                break
            continue

        ok = not err
        links = None
        if k == "heldRename":
            # the glyph's own notifications were held around a chain of renamings (names nothing has or lists): at the
            # glyph's release the layer and the font hear of old -> n1 -> … -> last; judged as the renaming old -> last
            names = [op[2]] + list(op[3])
            links = list(zip(names[:-1], names[1:]))
            k = "rename"
            op = ["rename", op[1], op[2], op[3][-1]]
        elif k == "rename":
            links = [(op[2], op[3])]
        L = op[1] if k in ("newGlyph", "insertGlyph", "delGlyph", "rename") else None
        st = _state(layb, L) if L is not None else None
        held = bool(st and st[0])
        disabled = bool(st and st[1])
        glyphop = ok and L is not None and not (k == "rename" and op[2] == op[3])

        # bookkeeping of held blocks -------------------------------------------------------------
        for n, b in blocks.items():
            s2 = _state(layb, n)
            if s2 is None or s2[1]:
                b.disabled = b.disabled or bool(s2 and s2[1])
        if ok and L is not None:
            for n, b in blocks.items():
                if not (n == L and glyphop and held and not disabled):
                    b.other |= {x for x in op[2:4] if isinstance(x, str)}
                    b.other |= {x for lk in (links or []) for x in lk}
        if glyphop and held and not disabled and L in blocks:
            b = blocks[L]
            if k in ("newGlyph", "insertGlyph"):
                b.notes.append(("added", op[2]))
            elif k == "delGlyph":
                b.notes.append(("deleted", op[2]))
            else:
                for o_, n_ in links:
                    b.notes.append(("renamed", o_, n_))
        if glyphop and disabled and L in blocks:
            blocks[L].disabled = True
        if ok and k == "holdLayer" and _state(layb, op[1]) and not _state(layb, op[1])[0]:
            blocks[op[1]] = _Block()
            blocks[op[1]].disabled = _state(layb, op[1])[1]
        if ok and k == "disableLayer" and op[1] in blocks:
            blocks[op[1]].disabled = True
        if ok and k == "delLayer":
            blocks.pop(op[1], None)
            for b in blocks.values():
                b.other |= {g for l in layb if l[0] == op[1] for g in l[1]}
        if ok and k == "renameLayer" and op[1] in blocks:
            blocks[op[2]] = blocks.pop(op[1])
        released = None
        if ok and k == "releaseLayer":
            sa = _state(laya, op[1])
            if sa is not None and not sa[0]:
                released = blocks.pop(op[1], None)
                if released is not None and sa[1]:
                    released.disabled = True

        # which names may this operation touch ---------------------------------------------------
        touched = set()
        if glyphop and not held and not disabled:
            touched = ({x for lk in links for x in lk} if k == "rename" else {op[2]})
        elif ok and k == "delLayer":
            touched = {g for l in layb if l[0] == op[1] for g in l[1]}   # the property says nothing here
        elif released is not None:
            # whatever was queued while the layer was not disabled (a release on a disabled layer drops it all)
            touched = {x for nt in released.notes for x in nt[1:]}

        # the order never gains duplicates ---------------------------------------------------------
        for n in set(oa):
            if oa.count(n) > max(1, ob.count(n)):
                bad("no-new-duplicates", k, i, t, "%r occurs %d times, %d before" % (n, oa.count(n), ob.count(n)))
                break
        # names untouched keep their relative order (and are neither dropped nor added) ---------------
        if _without(oa, touched) != _without(ob, touched):
            bad("others-keep-order", k, i, t, "untouched names changed: %r -> %r" % (_without(ob, touched), _without(oa, touched)))

        # a name leaves the order only when no layer has it any more, and is appended only when it was absent: so
        # the names that were in the order and that some layer has after the operation stand as they stood
        if glyphop and not held and not disabled:
            kept = {n for n in ob if _anywhere(laya, n)}
            if [x for x in oa if x in kept] != [x for x in ob if x in kept]:
                bad("kept-in-place", k, i, t, "names that were in the order and that some layer still has left their place: %r -> %r" % (
                    [x for x in ob if x in kept], [x for x in oa if x in kept]))

        if glyphop and (held or disabled):
            bump("glyphop." + ("disabled" if disabled else "held"))
        elif ok and k in ("newGlyph", "insertGlyph"):
            L, g = op[1], op[2]
            site = k
            if g in ob:
                bump("create.present")
                if _anywhere(layb, g) is False:
                    bump("create.present.stale-name")
                    nontrivial = True
            else:
                bump("create.absent")
            if not _has(laya, L, g):
                bad("created", site + "/not-in-layer", i, t, "glyph is not in the layer after creation")
            if g not in oa:
                bad("created", site + "/missing", i, t, "created name is not in the order")
            elif g not in ob and list(oa) != list(ob) + [g]:
                bad("created", site + "/not-appended", i, t, "absent name was not appended at the end")
        elif ok and k == "delGlyph":
            L, g = op[1], op[2]
            still = _anywhere(laya, g)
            if still:
                bump("delete.still-exists")
                nontrivial = True
                if g in ob and g not in oa:
                    bad("deleted", "delGlyph/left-while-kept", i, t, "name left the order although a layer still has it")
            else:
                bump("delete.gone." + ("in-order" if g in ob else "not-in-order"))
                if g in ob:
                    nontrivial = True
                if ob.count(g) <= 1 and g in oa:
                    bad("deleted", "delGlyph/stayed-when-gone", i, t, "no layer has the name any more but it is still in the order")
        elif ok and k == "rename" and op[2] != op[3]:
            L, old, new = op[1], op[2], op[3]
            stays = _anywhere(laya, old)
            if new not in oa:
                bad("renamed", "rename/new-missing", i, t, "new name is not in the order")
            if stays:
                bump("rename.old-stays")
                nontrivial = True
                if old in ob and old not in oa:
                    bad("renamed", "rename/old-left-while-kept", i, t, "old name left the order although a layer still has it")
                if new not in ob and list(oa) != list(ob) + [new]:
                    bad("renamed", "rename/not-appended", i, t, "old name must stay: new name must be appended")
            elif old in ob:
                if new in ob:
                    bump("rename.new-already-in-order")
                    nontrivial = True
                else:
                    bump("rename.replace")
                    idx = ob.index(old)
                    if len(oa) != len(ob) or oa[idx] != new:
                        bad("renamed", "rename/position", i, t, "new name did not take the old name's position %d" % idx)
                if ob.count(old) <= 1 and old in oa:
                    bad("renamed", "rename/old-stayed-when-gone", i, t, "old name is in no layer but still in the order")
            else:
                bump("rename.old-not-in-order")
                if new in ob:
                    nontrivial = True
                if new not in ob and list(oa) != list(ob) + [new]:
                    bad("renamed", "rename/not-appended", i, t, "new name must be appended")
        elif released is not None:
            if released.disabled:
                bump("release.disabled")
            else:
                if _held_release(released, op[1], ob, oa, laya, i, t, bad, bump):
                    nontrivial = True
        if len(viol) > n0:
            break
    return viol[:3], stats, nontrivial


def _held_release(b, L, ob, oa, laya, i, t, bad, bump):
    """the property's sentences for a block of operations whose notifications were held, read with respect to
    the state at the release (which is when the font learns about them): `ob`/`oa` = order just before / after
    the release, `laya` = the layers at the release"""
    notes = b.notes
    bump("release.notes.%s" % (len(notes) if len(notes) < 6 else "6+"))
    coalesced = len(set(notes)) < len(notes)
    if coalesced:
        bump("release.coalesced")
    suffix = "/coalesced" if coalesced else ""
    created = [nt[-1] for nt in notes if nt[0] in ("added", "renamed")]
    removed = [nt[1] for nt in notes if nt[0] in ("deleted", "renamed")]
    # created (or renamed to) in the block and there at the release: in the order
    for g in created:
        if _has(laya, L, g) and g not in oa:
            bad("held-created", "releaseLayer/missing", i, t, "%r was created under the hold, exists at the release, and is not in the order" % g)
            break
    # a name leaves the order only if no layer still has it
    for n in ob:
        if n not in oa and _anywhere(laya, n):
            bad("held-deleted", "releaseLayer/left-while-kept", i, t, "%r left the order although a layer has it at the release" % n)
            break
    # ... so the names that were in the order and that some layer has at the release stand as they stood
    kept = {n for n in ob if _anywhere(laya, n)}
    if [x for x in oa if x in kept] != [x for x in ob if x in kept]:
        bad("held-deleted", "releaseLayer/moved-while-kept", i, t,
            "names that some layer has at the release left their place in the order: %r -> %r" % (
                [x for x in ob if x in kept], [x for x in oa if x in kept]))
    # ... and it does leave when it was deleted (or renamed away) under the hold and is gone at the release
    for n in removed:
        if not _anywhere(laya, n) and ob.count(n) <= 1 and n in oa:
            bump("release.stale" + suffix)
            bad("held-deleted", "releaseLayer/stayed-when-gone" + suffix, i, t,
                "%r was deleted under the hold, no layer has it at the release, and it is in the order" % n)
            break
    # renaming: a glyph that went n0 -> … -> n1 by renames only (names not spoken about otherwise) has its new name
    # where the old one stood
    chains = _chains(notes)
    for n0, n1, path in chains:
        if any(x in b.other for x in path):
            continue
        if ob.count(n0) != 1 or any(x in ob for x in path if x != n0):
            continue
        if any(_anywhere(laya, x) for x in path if x != n1) or not _has(laya, L, n1):
            continue
        bump("release.chain.%d" % (len(path) - 1))
        others = set(removed) | set(created)
        want = [(n1 if x == n0 else x) for x in ob if x == n0 or x not in others]
        got = [x for x in oa if x == n1 or x not in others]
        if want != got:
            bad("held-renamed", "releaseLayer/position", i, t,
                "%r was renamed to %r under the hold (via %r): the new name is not where the old one stood" % (n0, n1, list(path)))
            break
    return len(notes) >= 2


def _mentions(notes, x):
    return sum(1 for nt in notes for y in nt[1:] if y == x)


def _chains(notes):
    """[(first name, last name, {name: number of mentions the chain itself accounts for})] for every maximal
    chain of renames a -> b -> … in the notes, each name of which is mentioned by the chain's renames only"""
    ren = [(nt[1], nt[2]) for nt in notes if nt[0] == "renamed"]
    starts = {o for o, _ in ren} - {n for _, n in ren}
    out = []
    for s0 in sorted(starts):
        path = [s0]
        cur = s0
        used = set()
        while True:
            nxt = [j for j, (o, n) in enumerate(ren) if o == cur and j not in used]
            if not nxt:
                break
            used.add(nxt[0])
            cur = ren[nxt[0]][1]
            if cur in path:
                path = None
                break
            path.append(cur)
        if not path or len(path) < 2:
            continue
        counts = {x: (1 if x in (path[0], path[-1]) else 2) for x in path}
        if all(_mentions(notes, x) == c for x, c in counts.items()):
            out.append((path[0], path[-1], counts))
    return out
