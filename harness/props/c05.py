"""C05 - external-change detection is sound and complete, and reloading converges.

Histories interleave in-memory edits, lazy reads, in-place saves and EXTERNAL edits (performed by
harness/ext_common.py directly on the package directory / inside the .ufoz archive, with explicit
modification times) with Font.testForExternalChanges and the reload* family.

* correspondence: every op's result and a snapshot of the font's bookkeeping are compared with the
  Lean model M-Ext (driver `ext`);
* direct oracle (independent of the model): the harness keeps its own record R of the bytes the font
  last read from / wrote to each file and of the listings it last read; the expected report is computed
  from R and the bytes now on disk; after a reload the reloaded objects are compared with an independent
  ufoLib read of the disk; every later lazy read / save must succeed.
"""
import copy
import hashlib
import json
import os
import shutil
import tempfile

import ext_common as xc
import fontgen as fg
from sexp import Atom, opt

MODEL = "ext"
SHRINKABLE = True
PARTS = xc.PARTS
PART_FILE = xc.PART_FILE
RULE = ("generated UFO-3 fonts (1-3 layers, glyphs with outlines/components/anchors/guidelines/image/lib, info, kerning, "
        "groups, features, lib, images, data; package directory or .ufoz zip) x histories built from scripted epochs "
        "[in-memory edits | external edit batch | test | lazy reads | reload / accept deletions | second test | "
        "usability probes: read unread glyph/image/data, save or save-as, test], scripted delete-in-memory / save-as / "
        "external re-creation patterns for glyphs (read or never read), images and data, glyph renames (to a fresh name, onto a file, "
        "chains), deletion and re-creation under the same name, repeated in-memory edits of one object, in-place saves while external "
        "edits are unnoticed, and random op soup; external edits: byte change, "
        "touch-only, byte change with unchanged mtime, file creation, file deletion, glyph addition/removal with "
        "contents.plist updated, layer addition/removal/reorder/default change with layercontents.plist updated; "
        "non-trivial = at least one external edit followed by a test and at least one in-memory edit, lazy read or save; "
        "distinct = distinct (spec, structure, ops)")
ASSUMPTIONS = [
    "UFO format 3 only; saves are in place (font.save()) or save-as to a path where nothing exists, same structure "
    "(the font is bound to the new UFO afterwards, external edits then go there); one font object per UFO; single thread; glyphs are "
    "renamed in memory (glyph.name = ...), layers are not; glyphs carry no components (a component's observers load its base glyph, which entangles lazy "
    "loading with names whose files were deleted externally and not yet taken over)",
    "external edits write the bytes fontTools.ufoLib writes for a value (bytes <-> value one to one; checked at run time "
    "after every save and external write: stats key noncanonical must stay 0); lib.plist is never deleted externally and "
    "never empty, and two generated lib values are never equal (public.glyphOrder, maintained by defcon on glyph "
    "creation/deletion, is outside the model's value ids)",
    "modification times set by the harness are explicit small integers (even seconds for zip); times written by defcon's "
    "saves are the real clock for a package (never equal to a harness time); a zip archive is rewritten as a whole by a "
    "save, with two-second wall-clock granularity, so the harness re-dates every entry to a time of its own right after "
    "the save (the reader the font opened at the end of the save keeps the archive it opened)",
    "zip archives are replaced atomically (os.replace), so a reader opened earlier keeps a consistent snapshot",
    "an external layer addition / deletion / default-layer change is followed (possibly after a reordering of layercontents.plist) "
    "by a test at once; unless reload and "
    "accept-deletion follow, the histories neither save nor touch the glyphs of those layers any more; a save over a UFO "
    "whose layer structure was changed externally and not taken over is outside the property's domain (not judged; the "
    "model answers it `outside-the-modelled-domain`, implementation and model then stop being compared) - except that "
    "glyph files such a save destroys are reported (finding F53)",
    "an externally deleted glyph or layer is 'accepted' by deleting it in memory (there is no reload method for it); a layer "
    "the font has deleted in memory is not created again externally, the default layer is never deleted",
    "not demanded either way (conflicts the property does not speak about): a byte change under an unchanged mtime; the "
    "same name created, or the same order/default change made, independently in memory and on disk; `order` when layers "
    "were added or deleted; a reload driven by a report that later external edits have overtaken",
]
TRUSTED = ["fontTools.ufoLib/glifLib/plistlib (used by defcon, and independently by the external editor and by the oracle's "
           "read-back)", "zipfile / os.utime for explicit modification times"]

EMPTY_GLYPH = {"unicodes": [], "width": 0, "height": 0, "note": None, "lib": {}, "image": None, "contours": [],
               "components": [], "anchors": [], "guidelines": []}
IMG_MD5 = {hashlib.md5(fg.png_bytes(sd)).hexdigest(): 1000 + sd for sd in range(0, 16)}
DAT_MD5 = {hashlib.md5(fg.data_bytes(sd)).hexdigest(): 2000 + sd for sd in range(0, 16)}
UNKNOWN = 9999
SAVE_TIME = 200000      # model time of the n-th save: SAVE_TIME + n (zip: the harness sets the archive's times to it)


def _known_signatures():
    try:
        data = json.load(open(os.path.join(os.path.dirname(os.path.dirname(os.path.dirname(os.path.abspath(__file__)))),
                                           "known_findings.json")))
        return set(e["signature"] for e in data.get("findings", []) if e.get("property") == "C05" and e.get("status") == "known")
    except Exception:
        return set()


KNOWN_SIGS = _known_signatures()


# ---------------------------------------------------------------------------------------
# value ids: the opaque content ids the model works with (0 = the empty value)
# ---------------------------------------------------------------------------------------

def gkey(g):
    return json.dumps({k: g[k] for k in xc.GLYPH_FIELDS}, sort_keys=True)


def part_empty(part, v):
    if part == "info":
        return not v["info"] and not v.get("guidelines")
    return not v


def part_value(spec, part):
    if part == "info":
        return {"info": spec["info"], "guidelines": spec.get("guidelines", [])}
    if part == "features":
        return spec["features"] or ""
    if part == "lib":
        return {k: v for k, v in spec["lib"].items() if k != "public.glyphOrder"}
    return spec[part]


class Ids(object):
    """deterministic from the case alone (spec first, then op payloads in order)"""

    def __init__(self, case):
        self.tab = {}
        spec = case["spec"]
        for p in PARTS:
            self.part(p, part_value(spec, p))
        for l in spec["layers"]:
            self.linfo(l["color"], l["lib"])
            for gn in sorted(l["glyphs"]):
                self.glyph(l["glyphs"][gn])
        self.glyph(EMPTY_GLYPH)
        for op in case["ops"]:
            k = op[0]
            if k == "pset":
                self.part(op[1], op[2])
            elif k == "xpart" and op[3] is not None:
                self.part(op[1], op[3])
            elif k == "gset":
                self.glyph(op[3])
            elif k == "xglyph" and op[4] is not None:
                self.glyph(op[4])
            elif k in ("lset", "xlinfo"):
                self.linfo(op[2], op[3])
            elif k == "xladd":
                for gn in sorted(op[2]):
                    self.glyph(op[2][gn])

    def _of(self, key, register=True):
        if key not in self.tab:
            if not register:
                return UNKNOWN
            self.tab[key] = len(self.tab) + 1
        return self.tab[key]

    def part(self, part, v, register=True):
        if part_empty(part, v):
            return 0
        return self._of("P" + part + json.dumps(v, sort_keys=True), register)

    def glyph(self, g, register=True):
        return self._of("G" + gkey(g), register)

    def linfo(self, color, lib, register=True):
        if color is None and not lib:
            return 0
        return self._of("L" + json.dumps([color, lib], sort_keys=True), register)


def img_id(b):
    return IMG_MD5.get(hashlib.md5(b).hexdigest(), UNKNOWN)


def dat_id(b):
    return DAT_MD5.get(hashlib.md5(b).hexdigest(), UNKNOWN)


# ---------------------------------------------------------------------------------------
# model side
# ---------------------------------------------------------------------------------------

def A(s):
    return Atom(s)


def model_lines(case):
    ids = Ids(case)
    spec = case["spec"]
    lines = []
    parts = []
    for p in PARTS:
        v = part_value(spec, p)
        present = p in ("info", "lib") or (p == "features" and spec["features"] is not None) or (p in ("kerning", "groups") and bool(v))
        if present:
            parts.append([A(p), ids.part(p, v)])
    layers = [[l["name"], ids.linfo(l["color"], l["lib"]), [[gn, ids.glyph(l["glyphs"][gn])] for gn in sorted(l["glyphs"])]]
              for l in spec["layers"]]
    lines.append([A("init"), case.get("structure", "package") == "zip", parts, layers, spec["default"],
                  [[n, 1000 + sd] for n, sd in sorted(spec["images"].items())],
                  [[n, 2000 + sd] for n, sd in sorted(spec["data"].items())], ids.glyph(EMPTY_GLYPH)])
    nsave = 0
    for op in case["ops"]:
        k = op[0]
        if k in ("touch", "reloadpart"):
            lines.append([A(k), A(op[1])])
        elif k == "pset":
            lines.append([A("pset"), A(op[1]), ids.part(op[1], op[2])])
        elif k in ("gget", "gnew", "gdel"):
            lines.append([A(k), op[1], op[2]])
        elif k == "grename":
            lines.append([A("grename"), op[1], op[2], op[3]])
        elif k == "gset":
            lines.append([A("gset"), op[1], op[2], ids.glyph(op[3])])
        elif k in ("lnew", "ldel", "ldefault"):
            lines.append([A(k), op[1]])
        elif k == "lorder":
            lines.append([A("lorder"), list(op[1])])
        elif k == "lset":
            lines.append([A("lset"), op[1], ids.linfo(op[2], op[3])])
        elif k in ("img", "dat"):
            base = 1000 if k == "img" else 2000
            lines.append([A(k), op[1], opt(None if op[2] is None else base + op[2])])
        elif k in ("imgget", "datget"):
            lines.append([A(k), op[1]])
        elif k == "saveas":
            nsave += 1
            lines.append([A("saveas"), SAVE_TIME + nsave, 1000000 + nsave])
        elif k == "save":
            nsave += 1
            # times written by this save: distinct from every harness time and from every other save
            lines.append([A("save"), SAVE_TIME + nsave, 1000000 + nsave])
        elif k == "xpart":
            lines.append([A("xpart"), A(op[1]), A(op[2]), opt(None if op[3] is None else ids.part(op[1], op[3])), opt(op[4])])
        elif k == "xglyph":
            lines.append([A("xglyph"), op[1], op[2], A(op[3]), opt(None if op[4] is None else ids.glyph(op[4])), opt(op[5])])
        elif k == "xlinfo":
            lines.append([A("xlinfo"), op[1], ids.linfo(op[2], op[3])])
        elif k in ("ximg", "xdat"):
            base = 1000 if k == "ximg" else 2000
            lines.append([A(k), op[1], A(op[2]), opt(None if op[3] is None else base + op[3]), opt(op[4])])
        elif k == "xladd":
            lines.append([A("xladd"), op[1], [[gn, ids.glyph(op[2][gn])] for gn in sorted(op[2])], op[3]])
        elif k == "xldel":
            lines.append([A("xldel"), op[1]])
        elif k == "xlorder":
            lines.append([A("xlorder"), list(op[1])])
        elif k == "xldefault":
            lines.append([A("xldefault"), op[1]])
        elif k in ("test", "reload", "acceptdel"):
            lines.append([A(k)])
        elif k == "reloadglyphs":
            lines.append([A("reloadglyphs"), op[1], list(op[2])])
        elif k == "reloadfiles":
            lines.append([A("reloadfiles"), A(op[1]), list(op[2])])
        else:
            raise ValueError(op)
    return lines


# ---------------------------------------------------------------------------------------
# implementation side
# ---------------------------------------------------------------------------------------

def S(xs):
    return [Atom("set")] + list(xs)


def tri(v):
    return Atom("none") if v is None else bool(v)


def enc_report(r):
    """canonical form of the dictionary returned by Font.testForExternalChanges"""
    L = r["layers"]
    mods = []
    for ln, d in L["modified"].items():
        mods.append([ln, bool(d["info"]), S(d["modified"]), S(d["added"]), S(d["deleted"])])
    dep = [Atom("none") if r[k] is None else [Atom("some"), S(r[k])] for k in ("modifiedGlyphs", "addedGlyphs", "deletedGlyphs")]
    return [[tri(r[p]) for p in PARTS],
            [bool(L["defaultLayer"]), bool(L["order"]), S(L["added"]), S(L["deleted"]), S(mods)],
            [S(r["images"]["modified"]), S(r["images"]["added"]), S(r["images"]["deleted"])],
            [S(r["data"]["modifiedData"]), S(r["data"]["addedData"]), S(r["data"]["deletedData"])],
            dep]


class Impl(object):
    def __init__(self, case, tmpd):
        from defcon import Font
        from fontTools.ufoLib import UFOFileStructure
        self.case = case
        self.ids = Ids(case)
        self.is_zip = case.get("structure", "package") == "zip"
        self.path = os.path.join(tmpd, "f.ufoz" if self.is_zip else "f.ufo")
        self.canon = xc.Canon(tmpd)
        self.io = xc.DiskIO(self.path, self.is_zip)
        self.keep = []
        spec = case["spec"]
        fg.write_ufo(spec, self.path, UFOFileStructure.ZIP if self.is_zip else UFOFileStructure.PACKAGE)
        # canonical fontinfo (the bytes defcon itself would write) and explicit mtime 0 everywhere
        old = self.io.read()
        files = {}
        for rel, (data, raw) in old.items():
            files[rel] = (data, xc.raw_time(0, self.is_zip))
        files["fontinfo.plist"] = (self.canon.part("info", part_value(spec, "info")), xc.raw_time(0, self.is_zip))
        self.io.write(files, old)
        self.files = files
        self.font = Font(self.path)
        self.last_report = None
        self.noncanonical = 0
        self.seen_bytes = {}       # md5 of file bytes -> value id (run-time check of the one-to-one assumption)

    # ----- helpers ---------------------------------------------------------------------

    def refresh_files(self):
        self.files = self.io.read()

    def part_dump(self, part):
        """semantic value of a loaded part, read through the public API"""
        font = self.font
        if part == "info":
            from fontTools.ufoLib import fontInfoAttributesVersion3
            info = {}
            for a in fontInfoAttributesVersion3:
                if a == "guidelines":
                    continue
                v = getattr(font._info, a)
                if v is not None and v != []:
                    info[a] = fg._norm_lib(v)
            gl = [[fg._num(g.x), fg._num(g.y), fg._num(g.angle), g.name, None if g.color is None else str(g.color), g.identifier]
                  for g in font._guidelines]
            return {"info": info, "guidelines": gl}
        if part == "kerning":
            return {"%s|%s" % k: fg._num(v) for k, v in font._kerning.items()}
        if part == "groups":
            return {k: list(v) for k, v in font._groups.items()}
        if part == "features":
            return font._features.text or ""
        if part == "lib":
            return {k: v for k, v in fg._norm_lib(dict(font._lib)).items() if k != "public.glyphOrder"}

    def part_id(self, part):
        return self.ids.part(part, self.part_dump(part), register=False)

    def snapshot(self):
        font = self.font
        parts = []
        for p in PARTS:
            obj = getattr(font, "_" + p)
            if obj is None:
                parts.append([False, 0, False])
            else:
                parts.append([True, self.part_id(p), bool(obj.dirty) if p in ("kerning", "features") else False])
        ls = font.layers
        layers = []
        for ln in ls.layerOrder:
            layer = ls[ln]
            loaded = []
            for gn, g in layer._glyphs.items():
                loaded.append([gn, self.ids.glyph(fg.dump_glyph(g), register=False), bool(g.dirty)])
            color = None if layer.color is None else str(layer.color)
            lib = fg._norm_lib(dict(layer._lib)) if layer._lib is not None else {}
            layers.append([ln, self.ids.linfo(color, lib, register=False), S(sorted(layer._keys)), S(loaded),
                           S(sorted(layer._scheduledForDeletion))])
        dl = ls.defaultLayer

        def fileset(fs, idf):
            ent = []
            for n, e in fs._data.items():
                ent.append([n, e["data"] is not None, idf(e["data"]) if e["data"] is not None else 0, bool(e["dirty"])])
            return [S(ent), S(sorted(fs._scheduledForDeletion))]
        return [parts, list(ls.layerOrder), opt(None if dl is None else dl.name), layers,
                fileset(font.images, img_id), fileset(font.data, dat_id)]

    def disk_snapshot(self):
        """the UFO on disk read with ufoLib alone, as value ids"""
        got = fg.read_ufo(self.path)
        files = self.files
        parts = []
        for p in PARTS:
            present = PART_FILE[p] in files
            v = part_value(got, p)
            pid = self.ids.part(p, v, register=False) if present else 0
            parts.append([A(p), present, pid])
            if present and p != "lib":       # lib.plist also holds public.glyphOrder, which is outside the value ids
                self.check_canonical(files[PART_FILE[p]][0], ("P", p, pid))
        layers = []
        for l in got["layers"]:
            d = xc.layer_dir(files, l["name"])
            contents = xc.glyph_contents(files, d)
            gl = []
            for gn, g in l["glyphs"].items():
                gid = self.ids.glyph(g, register=False)
                gl.append([gn, gid])
                self.check_canonical(files[d + "/" + contents[gn]][0], ("G", gn, gid))
            layers.append([l["name"], self.ids.linfo(l["color"], l["lib"], register=False), S(gl)])
        return [parts, layers, got["default"],
                S([n, img_id(files["images/" + n][0])] for n in xc.image_names(files)),
                S([n, dat_id(files["data/" + n][0])] for n in xc.data_names(files))]

    def check_canonical(self, data, vid):
        h = xc.md5(data)
        if vid[-1] == UNKNOWN:
            return
        if self.seen_bytes.setdefault(h, vid) != vid:
            self.noncanonical += 1
        if self.seen_bytes.setdefault(vid, h) != h:
            self.noncanonical += 1

    # ----- ops -------------------------------------------------------------------------

    def do(self, op):
        """returns (status, result)"""
        try:
            return Atom("ok"), self._do(op)
        except Exception as e:
            return [Atom("err"), Atom(type(e).__name__)], str(e)[:300]

    def _do(self, op):
        font = self.font
        k = op[0]
        ok = Atom("ok")
        if k == "touch":
            obj = getattr(font, op[1])
            if op[1] == "features":
                obj.text
            elif op[1] == "info":
                obj.familyName
            else:
                len(obj)
            return self.part_id(op[1])
        if k == "pset":
            self.pset(op[1], op[2])
            return ok
        if k == "gget":
            g = font.layers[op[1]][op[2]]
            self.keep.append(g)
            return self.ids.glyph(fg.dump_glyph(g), register=False)
        if k == "gnew":
            self.keep.append(font.layers[op[1]].newGlyph(op[2]))
            return ok
        if k == "gset":
            g = font.layers[op[1]][op[2]]
            self.keep.append(g)
            fg.apply_gspec(g, op[3])
            return ok
        if k == "gdel":
            layer = font.layers[op[1]]
            if op[2] in layer._glyphs:
                self.keep.append(layer._glyphs[op[2]])
            del layer[op[2]]
            return ok
        if k == "grename":
            layer = font.layers[op[1]]
            g = layer[op[2]]
            self.keep.append(g)
            if op[3] in layer._glyphs:
                self.keep.append(layer._glyphs[op[3]])      # the glyph object that is replaced
            g.name = op[3]
            return ok
        if k == "lnew":
            self.keep.append(font.newLayer(op[1]))
            return ok
        if k == "ldel":
            self.keep.append(font.layers[op[1]])
            del font.layers[op[1]]
            return ok
        if k == "lorder":
            font.layers.layerOrder = list(op[1])
            return ok
        if k == "ldefault":
            font.layers.defaultLayer = font.layers[op[1]]
            return ok
        if k == "lset":
            layer = font.layers[op[1]]
            layer.color = op[2]
            layer.lib.clear()
            layer.lib.update(copy.deepcopy(op[3]))
            return ok
        if k == "img":
            if op[2] is None:
                del font.images[op[1]]
            else:
                font.images[op[1]] = fg.png_bytes(op[2])
            return ok
        if k == "imgget":
            return opt(None) if font.images[op[1]] is None else [Atom("some"), img_id(font.images[op[1]])]
        if k == "dat":
            if op[2] is None:
                del font.data[op[1]]
            else:
                font.data[op[1]] = fg.data_bytes(op[2])
            return ok
        if k == "datget":
            b = font.data[op[1]]
            return opt(None) if b is None else [Atom("some"), dat_id(b)]
        if k in ("save", "saveas"):
            self.nsave = getattr(self, "nsave", 0) + 1
            if k == "saveas":
                # save-as to a path where nothing exists, same structure; the font is bound to the new UFO afterwards
                # (the old one stays where it is and is no longer looked at)
                newpath = os.path.join(os.path.dirname(self.path), "f%d.%s" % (self.nsave + 1, "ufoz" if self.is_zip else "ufo"))
                font.save(newpath)
                self.path = newpath
                self.io = xc.DiskIO(newpath, self.is_zip)
            else:
                font.save()
            self.refresh_files()
            if self.is_zip:
                # ufoLib rewrites the archive, every entry dated now (two-second granularity): make the times
                # reproducible.  The reader the font has just opened keeps the archive it opened.
                raw = xc.raw_time(SAVE_TIME + self.nsave, True)
                files = {rel: (data, raw) for rel, (data, _) in self.files.items()}
                self.io.write(files, self.files)
                self.files = files
            return self.disk_snapshot()
        if k[0] == "x":
            return self.external(op)
        if k == "test":
            r = font.testForExternalChanges()
            self.last_report = r
            return enc_report(r)
        if k == "reload":
            return self.reload_auto()
        if k == "acceptdel":
            return self.accept_deleted()
        if k == "reloadpart":
            getattr(font, "reload" + op[1][0].upper() + op[1][1:])()
            return self.part_id(op[1])
        if k == "reloadglyphs":
            font.reloadLayers({"layers": {op[1]: {"glyphNames": list(op[2])}}})
            layer = font.layers[op[1]]
            return [[gn, self.ids.glyph(fg.dump_glyph(layer._glyphs[gn]), register=False)] for gn in op[2] if gn in layer._glyphs]
        if k == "reloadfiles":
            if op[1] == "images":
                font.reloadImages(list(op[2]))
            else:
                font.reloadData(list(op[2]))
            return ok
        raise ValueError(op)

    def pset(self, part, v):
        font = self.font
        if part == "info":
            info = font.info
            for a in sorted(fg.INFO_ATTRS):
                unset = [] if isinstance(fg.INFO_ATTRS[a][0], list) else None
                setattr(info, a, copy.deepcopy(v["info"].get(a, unset)))
            font.guidelines = [fg._guideline_dict(g) for g in v.get("guidelines", [])]
        elif part == "kerning":
            font.kerning.clear()
            font.kerning.update({tuple(k.split("|")): x for k, x in v.items()})
        elif part == "groups":
            font.groups.clear()
            font.groups.update(copy.deepcopy(v))
        elif part == "features":
            font.features.text = v
        elif part == "lib":
            order = font.lib.get("public.glyphOrder")
            font.lib.clear()
            font.lib.update(copy.deepcopy(v))
            if order:
                font.lib["public.glyphOrder"] = order

    def external(self, op):
        """another program edits the UFO; returns ok / noop (edit not applicable to what is on disk)"""
        k = op[0]
        old = self.io.read()
        files = dict(old)
        z = self.is_zip
        canon = self.canon
        t = op[-1] if k not in ("xlinfo", "xldel", "xlorder", "xldefault") else None

        def raw(tk):
            return None if tk is None else xc.raw_time(tk, z)

        def keepable(rel):
            """can this file be rewritten without changing its mtime?"""
            return rel in files
        # bookkeeping files (contents.plist, layercontents.plist, layerinfo.plist) get a time of their own
        self.ntouch = getattr(self, "ntouch", 0) + 1
        craw = xc.raw_time(5000 + self.ntouch, z)
        done = True
        if k == "xpart":
            part, action, v = op[1], op[2], op[3]
            rel = PART_FILE[part]
            if action == "write":
                b = canon.part(part, v)
                if b is None or (t is None and not keepable(rel)):
                    done = False
                else:
                    xc.x_file(files, rel, "write", b, raw(t))
                    if part != "lib":
                        self.check_canonical(b, ("P", part, self.ids.part(part, v, register=False)))
            elif rel not in files:
                done = False
            else:
                xc.x_file(files, rel, action, None, raw(t))
        elif k == "xglyph":
            ln, gn, action, g = op[1], op[2], op[3], op[4]
            d = xc.layer_dir(files, ln)
            if d is None or (t is None and (action != "write" or gn not in xc.glyph_contents(files, d)
                                            or not keepable(d + "/" + xc.glyph_contents(files, d)[gn]))):
                done = False
            else:
                done = xc.x_glyph(files, canon, ln, gn, action, g, raw(t), craw)
                if done and action == "write":
                    self.check_canonical(canon.glif(gn, g), ("G", gn, self.ids.glyph(g, register=False)))
        elif k == "xlinfo":
            done = xc.x_layerinfo(files, canon, op[1], op[2], op[3], craw)
        elif k in ("ximg", "xdat"):
            n, action, sd = op[1], op[2], op[3]
            rel = ("images/" if k == "ximg" else "data/") + n
            if action == "write":
                if t is None and not keepable(rel):
                    done = False
                else:
                    xc.x_file(files, rel, "write", fg.png_bytes(sd) if k == "ximg" else fg.data_bytes(sd), raw(t))
            elif rel not in files:
                done = False
            else:
                xc.x_file(files, rel, action, None, raw(t))
        elif k == "xladd":
            done = xc.x_layer_add(files, canon, op[1], op[2], raw(t))
        elif k == "xldel":
            done = xc.x_layer_delete(files, op[1], craw)
        elif k == "xlorder":
            done = xc.x_layer_order(files, op[1], craw)
        elif k == "xldefault":
            done = xc.x_layer_default(files, op[1], craw)
        else:
            raise ValueError(op)
        if not done:
            return Atom("noop")
        self.io.write(files, old)
        self.files = files
        return Atom("ok")

    def reload_auto(self):
        """call the reload method that corresponds to every entry of the last report"""
        r = self.last_report
        font = self.font
        if r is None:
            return Atom("noop")
        if r["groups"]:
            font.reloadGroups()
        if r["kerning"]:
            font.reloadKerning()
        if r["info"]:
            font.reloadInfo()
        if r["features"]:
            font.reloadFeatures()
        if r["lib"]:
            font.reloadLib()
        names = sorted(set(r["images"]["modified"]) | set(r["images"]["added"]))
        if names:
            font.reloadImages(names)
        names = sorted(set(r["data"]["modifiedData"]) | set(r["data"]["addedData"]))
        if names:
            font.reloadData(names)
        L = r["layers"]
        layers = {}
        for ln in sorted(L["added"]):
            layers[ln] = {}
        for ln in sorted(L["modified"]):
            d = L["modified"][ln]
            layers[ln] = {"info": bool(d["info"]), "glyphNames": sorted(set(d["modified"]) | set(d["added"]))}
        if layers or L["order"] or L["defaultLayer"]:
            font.reloadLayers({"order": bool(L["order"]), "default": bool(L["defaultLayer"]), "layers": layers})
        return Atom("ok")

    def accept_deleted(self):
        r = self.last_report
        font = self.font
        if r is None:
            return Atom("noop")
        L = r["layers"]
        for ln in sorted(L["modified"]):
            if ln not in font.layers:
                continue
            layer = font.layers[ln]
            for gn in sorted(L["modified"][ln]["deleted"]):
                if gn in layer:
                    if gn in layer._glyphs:
                        self.keep.append(layer._glyphs[gn])
                    del layer[gn]
        for ln in sorted(L["deleted"]):
            if ln in font.layers and font.layers[ln] != font.layers.defaultLayer:
                self.keep.append(font.layers[ln])
                del font.layers[ln]
        return Atom("ok")


# ---------------------------------------------------------------------------------------
# direct oracle
# ---------------------------------------------------------------------------------------

class Record(object):
    """R: what the font last read from / wrote to the UFO, kept by the harness from its own knowledge of
    the moments at which the font does I/O (load-state transitions, saves, reloads) - never from the stamps"""

    def __init__(self, files):
        self.parts = {}             # part -> bytes | None, for parts the font has read or written
        self.order = [n for n, _ in xc.layer_contents(files)]
        self.default = xc.default_layer(files)
        self.layers = {}
        for n, d in xc.layer_contents(files):
            self.layers[n] = self.layer_entry(files, d)
        self.sets = {"img": self.fileset(xc.image_names(files)), "dat": self.fileset(xc.data_names(files))}

    @staticmethod
    def layer_entry(files, d):
        """names: the glyph listing the font knows; glyphs: bytes of the glyphs it holds; pending: bytes of
        the files it has scheduled for deletion"""
        return {"names": set(xc.glyph_contents(files, d)), "info": xc.layer_info_value(files, d), "glyphs": {}, "pending": {}}

    @staticmethod
    def fileset(names):
        return {"names": set(names), "files": {}, "pending": {}, "gone": set()}


def glyph_bytes(files, ln, gn):
    d = xc.layer_dir(files, ln)
    if d is None:
        return None
    c = xc.glyph_contents(files, d)
    if gn not in c or d + "/" + c[gn] not in files:
        return None
    return files[d + "/" + c[gn]][0]


def fbytes(files, rel):
    return files[rel][0] if rel in files else None


def mem_state(font):
    """which data the font holds in memory (never the stamps)"""
    st = {"parts": {p for p in PARTS if getattr(font, "_" + p) is not None}, "glyphs": {}, "keys": {},
          "img": {n for n, e in font.images._data.items() if e["data"] is not None},
          "dat": {n for n, e in font.data._data.items() if e["data"] is not None},
          "img_names": set(font.images._data), "dat_names": set(font.data._data),
          "order": list(font.layers.layerOrder),
          "default": font.layers.defaultLayer.name if font.layers.defaultLayer is not None else None,
          "objs": {ln: id(font.layers[ln]) for ln in font.layers.layerOrder}}
    for ln in font.layers.layerOrder:
        layer = font.layers[ln]
        st["glyphs"][ln] = set(layer._glyphs)
        st["keys"][ln] = set(layer.keys())
    return st


def dirty_state(font):
    st = {"parts": {p for p in PARTS if getattr(font, "_" + p) is not None and getattr(font, "_" + p).dirty},
          "glyphs": {}, "img": {n for n, e in font.images._data.items() if e["dirty"]},
          "dat": {n for n, e in font.data._data.items() if e["dirty"]}}
    for ln in font.layers.layerOrder:
        st["glyphs"][ln] = {gn for gn, g in font.layers[ln]._glyphs.items() if g.dirty}
    return st


SETS = (("img", "images/", "images", ("modified", "added", "deleted")),
        ("dat", "data/", "data", ("modifiedData", "addedData", "deletedData")))


class Oracle(object):
    def __init__(self, impl):
        self.impl = impl
        self.R = Record(impl.files)
        self.view = impl.files          # what the font's own reader sees (zip: a snapshot; package: the live disk)
        self.listing = impl.files       # the UFO when the glyph sets were last bound (their `contents` are a snapshot)
        self.stale_default = False      # an external default-layer change that no reload has taken over yet
        self.stale_layers = set()       # layers added / deleted externally that the font has not taken over yet
        self.viol = []
        self.same_mtime = set()         # files changed externally without changing the mtime (detection not demanded)
        self.fresh_glyphs = set()       # (layer, glyph) objects created in memory that were never read from / written to disk
        self.fresh_layers = set()       # layers created in memory and not saved yet
        self.mem_deleted_layers = set() # layers deleted in memory since the last save
        self.checked_reports = 0

    def reader_view(self):
        return self.view if self.impl.is_zip else self.impl.files

    def set_names(self, key):
        files = self.impl.files
        return set(xc.image_names(files) if key == "img" else xc.data_names(files))

    def add(self, clause, sig, step, op, **kw):
        self.viol.append(dict(clause="C05/" + clause, signature="C05/%s/%s" % (clause, sig), step=step, op=op[:3] if op else op, **kw))

    tainted = False

    def blocked(self):
        """a violation that no recorded finding explains ends the judging of the case (later steps would only echo it);
        so does a reload driven by a report that external edits have overtaken (outside the property's domain)"""
        return self.tainted or any(v["signature"] not in KNOWN_SIGS for v in self.viol)

    # ----- record keeping ----------------------------------------------------------------

    def after_save(self, before, dirty_before, after, full=False):
        """full: a save-as - everything the font holds was written to a new UFO, which is the UFO from now on"""
        R = self.R
        files = self.impl.files
        self.view = files
        self.listing = files
        self.stale_default = False
        if full:
            dirty_before = {"parts": set(PARTS), "glyphs": {ln: set(after["glyphs"][ln]) for ln in after["order"]},
                            "img": set(after["img"]), "dat": set(after["dat"])}
            self.stale_layers = set()
            self.same_mtime = set()
            for ln in list(R.layers):
                R.layers[ln]["pending"] = {}
        written = {"info", "groups", "lib"} | (dirty_before["parts"] & {"kerning", "features"})
        for p in after["parts"]:
            if p in written or p not in before["parts"]:
                R.parts[p] = fbytes(files, PART_FILE[p])
        R.order = list(after["order"])
        R.default = after["default"]
        newl = {}
        for ln in after["order"]:
            d = xc.layer_dir(files, ln)
            old = R.layers.get(ln) if ln not in self.fresh_layers else None
            old = old or {"names": set(), "info": (None, {}), "glyphs": {}, "pending": {}}
            on_disk = set(xc.glyph_contents(files, d)) if d else set()
            # the listing the font knows: what it has (and is) on disk, plus what it still lists although an
            # external deletion it never took over removed the file
            e = {"names": (after["keys"][ln] & on_disk) | (old["names"] & after["keys"][ln]),
                 "info": xc.layer_info_value(files, d) if d else (None, {}), "glyphs": {}, "pending": {}}
            for gn in after["glyphs"][ln]:
                if gn not in on_disk:
                    if gn in old["glyphs"] and (ln, gn) not in self.fresh_glyphs:
                        e["glyphs"][gn] = old["glyphs"][gn]     # still holds what it read from a file that is gone
                    continue
                if gn in dirty_before["glyphs"].get(ln, set()) or gn not in old["glyphs"] or (ln, gn) in self.fresh_glyphs:
                    e["glyphs"][gn] = glyph_bytes(files, ln, gn)
                else:
                    e["glyphs"][gn] = old["glyphs"][gn]
            newl[ln] = e
        R.layers = newl
        self.fresh_glyphs = set()
        self.fresh_layers = set()
        self.mem_deleted_layers = set()
        for key, prefix, _, _ in SETS:
            st = R.sets[key]
            on_disk = self.set_names(key)
            st["names"] = (after[key + "_names"] & on_disk) | (st["names"] & after[key + "_names"])
            st["pending"] = {}
            st["gone"] = set()
            for n in list(st["files"]):
                if n not in st["names"]:
                    del st["files"][n]
            for n in after[key]:
                if n in on_disk and (n in dirty_before[key] or n not in st["files"]):
                    st["files"][n] = files[prefix + n][0]

    def after_op(self, step, op, before, dirty_before, status, result):
        impl = self.impl
        font = impl.font
        R = self.R
        files = impl.files
        k = op[0]
        after = mem_state(font)
        ok = status == "ok"
        rep = impl.last_report
        if k in ("save", "saveas") and ok:
            self.after_save(before, dirty_before, after, full=(k == "saveas"))
            return
        if k == "test" and ok:
            # the test refreshes the font's reader; glyphs reported as added are taken into the layer's keys
            self.view = files
            self.listing = files
            for ln in after["order"]:
                d = xc.layer_dir(files, ln)
                if d is not None and ln in self.fresh_layers:
                    # a layer made in memory under the name of a layer on disk: the test binds it to that
                    # layer's glyph set and takes the glyph names over; its layer info was never read
                    self.fresh_layers.discard(ln)
                    R.layers[ln] = {"names": set(), "info": "UNREAD", "glyphs": {}, "pending": {}}
                if d is not None and ln in R.layers:
                    e = R.layers[ln]
                    e["names"] |= set(xc.glyph_contents(files, d)) & set(font.layers[ln]._keys)
                    for gn in list(e["pending"]):
                        if gn in font.layers[ln]._keys:
                            del e["pending"][gn]
            return
        view = self.reader_view()
        # ---- parts (always read through a fresh reader: the live disk)
        for p in after["parts"] - before["parts"]:
            R.parts[p] = fbytes(files, PART_FILE[p])
        if k == "reloadpart" and ok:
            R.parts[op[1]] = fbytes(files, PART_FILE[op[1]])
        if k == "reload" and ok and rep is not None:
            for p in PARTS:
                if rep[p]:
                    R.parts[p] = fbytes(files, PART_FILE[p])
        # ---- layers created / deleted in memory
        for ln in before["order"]:
            if ln not in after["order"]:
                self.mem_deleted_layers.add(ln)
        for ln in after["order"]:
            if ln not in before["order"] or before["objs"].get(ln) != after["objs"][ln]:
                if k == "lnew":
                    self.fresh_layers.add(ln)
                elif k == "reload":
                    d = xc.layer_dir(view, ln)
                    if d is not None:
                        R.layers[ln] = Record.layer_entry(view, d)
        # ---- glyphs
        reloaded = {}
        if ok and k == "reloadglyphs":
            reloaded = {op[1]: set(op[2])}
        if ok and k == "reload" and rep is not None:
            L = rep["layers"]
            for ln, dd in L["modified"].items():
                reloaded[ln] = set(dd["modified"]) | set(dd["added"])
                if dd["info"] and ln in R.layers:
                    d = xc.layer_dir(view, ln)
                    if d is not None:
                        R.layers[ln]["info"] = xc.layer_info_value(view, d)
            if L["order"]:
                R.order = [n for n, _ in xc.layer_contents(files)]
            if L["defaultLayer"]:
                R.default = xc.default_layer(files)
                self.stale_default = False
        for ln in after["order"]:
            e = R.layers.get(ln)
            fresh_layer = ln in self.fresh_layers
            b_keys = before["keys"].get(ln, set()) if before["objs"].get(ln) == after["objs"][ln] else set()
            b_loaded = before["glyphs"].get(ln, set()) if before["objs"].get(ln) == after["objs"][ln] else set()
            if k == "gnew" and op[1] == ln and ok:
                self.fresh_glyphs.add((ln, op[2]))
                if e is not None and not fresh_layer:
                    # the new glyph object has read nothing from the file of that name
                    e["pending"].pop(op[2], None)
                    e["glyphs"].pop(op[2], None)
                continue
            renamed_to = None
            if k == "grename" and op[1] == ln and ok and op[2] != op[3]:
                # the glyph object now lives under a name whose file (if any) it has neither read nor written; the old
                # name is handled below like any glyph deleted in memory (the rename read the file first if need be)
                renamed_to = op[3]
                self.fresh_glyphs.add((ln, renamed_to))
                if e is not None and not fresh_layer:
                    e["pending"].pop(renamed_to, None)
                    e["glyphs"].pop(renamed_to, None)
            if e is None or fresh_layer:
                continue
            # deleted in memory: the file (if the font knows one) is scheduled for deletion as it was last read
            for gn in b_keys - after["keys"][ln]:
                self.fresh_glyphs.discard((ln, gn))
                if gn in e["names"]:
                    b = e["glyphs"].pop(gn, None)
                    ld = xc.layer_dir(self.listing, ln)
                    if ld is None or gn not in xc.glyph_contents(self.listing, ld):
                        b = None        # not in the bound glyph set's contents: nothing is scheduled
                    elif b is None:
                        b = glyph_bytes(view, ln, gn)
                    if b is not None:
                        e["pending"][gn] = b
                    else:
                        e["names"].discard(gn)      # the file is gone already: the font takes the deletion over
            # read lazily / reloaded
            for gn in (after["glyphs"][ln] - b_loaded) | (reloaded.get(ln, set()) & after["glyphs"][ln]):
                if gn == renamed_to:
                    continue
                b = glyph_bytes(view, ln, gn)
                if b is not None:
                    e["glyphs"][gn] = b
                    e["names"].add(gn)
                    e["pending"].pop(gn, None)
                    self.fresh_glyphs.discard((ln, gn))
        # ---- images / data (read through the font's reader)
        for key, prefix, rkey, sub in SETS:
            st = R.sets[key]
            rl = set()
            if ok and k == "reloadfiles" and ((op[1] == "images") == (key == "img")):
                rl = set(op[2])
            if ok and k == "reload" and rep is not None:
                rl = set(rep[rkey][sub[0]]) | set(rep[rkey][sub[1]])
            setop = k == key and ok
            name = op[1] if setop else None
            if setop and name in before[key + "_names"] and name not in before[key] and name in st["names"]:
                # assigning to / deleting an entry that was not loaded reads the file first (None: it found no file)
                st["files"][name] = fbytes(view, prefix + name)
            if setop and op[2] is None and name in st["names"] and name in before[key + "_names"]:
                b = st["files"].pop(name, None)
                if b is not None:
                    st["pending"][name] = b
                else:
                    # the file was gone already: the font takes the deletion over without having reported it;
                    # should the name come back in memory before the next save, reporting it once is fine
                    st["names"].discard(name)
                    st["gone"].add(name)
            if setop and op[2] is not None and name in st["pending"]:
                st["files"][name] = st["pending"].pop(name)
            for n in (after[key] - before[key]) | (rl & after[key]):
                if setop and n == name:
                    continue
                b = fbytes(view, prefix + n)
                if b is not None:
                    st["files"][n] = b
                    st["names"].add(n)
                    st["pending"].pop(n, None)

    # ----- the report the property demands ---------------------------------------------------

    def expected_report(self, mem):
        """(expected, optional): optional = (entry, item) pairs whose presence is not demanded either way:
        byte changes under an unchanged mtime, and names created independently in memory and on disk"""
        R = self.R
        files = self.impl.files
        exp = {}
        opt_ = set()
        for p in PARTS:
            if p not in mem["parts"]:
                exp[("part", p)] = None
            else:
                exp[("part", p)] = fbytes(files, PART_FILE[p]) != R.parts.get(p)
                if PART_FILE[p] in self.same_mtime:
                    opt_.add((("part", p), None))
        disk_order = [n for n, _ in xc.layer_contents(files)]
        exp[("layers", "defaultLayer")] = xc.default_layer(files) != R.default
        if mem["default"] == xc.default_layer(files):
            opt_.add((("layers", "defaultLayer"), None))     # the same change made independently in memory
        if mem["order"] == disk_order:
            opt_.add((("layers", "order"), None))
        exp[("layers", "order")] = disk_order != R.order
        if set(disk_order) != set(R.order):
            # layers appeared / vanished: the added / deleted entries say so; `order` is demanded for pure reorderings
            opt_.add((("layers", "order"), None))
        exp[("layers", "added")] = set(disk_order) - set(R.order)
        for ln in exp[("layers", "added")]:
            # created independently in memory and on disk, or deleted in memory earlier (the font cannot tell a
            # layer it is about to delete from one that was created again): not demanded either way
            if ln in mem["order"] or ln in self.mem_deleted_layers:
                opt_.add((("layers", "added"), ln))
                opt_.add((("layers", "order"), None))
        exp[("layers", "deleted")] = (set(R.order) - set(disk_order)) & set(mem["order"])
        for ln in mem["order"]:
            if ln not in disk_order or ln not in R.layers or ln in self.fresh_layers:
                continue
            d = xc.layer_dir(files, ln)
            contents = xc.glyph_contents(files, d)
            e = R.layers[ln]
            keys = mem["keys"].get(ln, set())
            exp[("linfo", ln)] = e["info"] != "UNREAD" and xc.layer_info_value(files, d) != e["info"]
            if e["info"] == "UNREAD":
                opt_.add((("linfo", ln), None))
            mod = set()
            for gn, b in e["glyphs"].items():
                if gn in contents and gn in mem["glyphs"].get(ln, set()):
                    rel = d + "/" + contents[gn]
                    if files[rel][0] != b:
                        mod.add(gn)
                        if rel in self.same_mtime:
                            opt_.add((("gmod", ln), gn))
            exp[("gmod", ln)] = mod
            add = set(contents) - e["names"]
            for gn in add & keys:
                # the same name created independently in memory and on disk
                opt_.add((("gadd", ln), gn))
                opt_.add((("gmod", ln), gn))
            for gn, b in e["pending"].items():
                # scheduled for deletion in memory, but the file is no longer what was scheduled: a new glyph
                if gn in contents and gn not in keys and files[d + "/" + contents[gn]][0] != b:
                    add.add(gn)
                    if d + "/" + contents[gn] in self.same_mtime:
                        opt_.add((("gadd", ln), gn))
            exp[("gadd", ln)] = add
            exp[("gdel", ln)] = (e["names"] - set(contents)) & keys
        for key, prefix, _, _ in SETS:
            st = R.sets[key]
            on_disk = self.set_names(key)
            names = mem[key + "_names"]
            mod = set()
            for n, b in st["files"].items():
                if n in on_disk and n in mem[key] and files[prefix + n][0] != b:
                    mod.add(n)
                    if prefix + n in self.same_mtime:
                        opt_.add(((key, "modified"), n))
            exp[(key, "modified")] = mod
            add = on_disk - st["names"]
            for n in add & names:
                opt_.add(((key, "added"), n))
                opt_.add(((key, "modified"), n))
            for n, b in st["pending"].items():
                if n in on_disk and n not in names and files[prefix + n][0] != b:
                    add.add(n)
                    if prefix + n in self.same_mtime:
                        opt_.add(((key, "added"), n))
            exp[(key, "added")] = add
            exp[(key, "deleted")] = (st["names"] - on_disk) & names
            for n in (st["gone"] & names) - on_disk:
                opt_.add(((key, "deleted"), n))
        return exp, opt_

    @staticmethod
    def flatten_report(r):
        got = {}
        for p in PARTS:
            got[("part", p)] = r[p]
        L = r["layers"]
        got[("layers", "defaultLayer")] = bool(L["defaultLayer"])
        got[("layers", "order")] = bool(L["order"])
        got[("layers", "added")] = set(L["added"])
        got[("layers", "deleted")] = set(L["deleted"])
        for ln, d in L["modified"].items():
            got[("linfo", ln)] = bool(d["info"])
            got[("gmod", ln)] = set(d["modified"])
            got[("gadd", ln)] = set(d["added"])
            got[("gdel", ln)] = set(d["deleted"])
        for key, _, rkey, sub in SETS:
            for kind, sk in zip(("modified", "added", "deleted"), sub):
                got[(key, kind)] = set(r[rkey][sk])
        return got

    ENTRY = {"part": "%s", "layers": "layers.%s", "linfo": "layer.info", "gmod": "glyphs.modified", "gadd": "glyphs.added",
             "gdel": "glyphs.deleted", "img": "images.%s", "dat": "data.%s"}

    def entry_name(self, key):
        f = self.ENTRY[key[0]]
        return f % key[1] if "%s" in f else f

    def cause(self, key, item, direction, mem):
        """why does the report deviate?  Names the in-memory situation the property says must not matter
        (these are the signatures of the recorded finding F8); anything else is `unexplained`."""
        R = self.R
        if direction != "spurious":
            return "unexplained"
        if key[0] == "layers":
            if key[1] == "deleted" and (item not in R.order or item in self.fresh_layers):
                return "memory-only-layer"
            if key[1] == "order" and [n for n in mem["order"]] != R.order:
                return "memory-order-or-layer-change"
            if key[1] == "defaultLayer" and mem["default"] != R.default:
                return "memory-default-change"
            return "unexplained"
        if key[0] in ("linfo", "gmod", "gadd", "gdel") and key[1] in self.fresh_layers:
            return "memory-replaced-layer"
        if key[0] == "gdel" and (item not in R.layers.get(key[1], {"names": set()})["names"] or (key[1], item) in self.fresh_glyphs):
            return "memory-only-glyph"
        if key[0] == "gmod" and (key[1], item) in self.fresh_glyphs:
            return "memory-replaced-glyph"
        if key[0] in ("img", "dat") and key[1] == "deleted" and item not in R.sets[key[0]]["names"]:
            return "memory-only-file"
        return "unexplained"

    def judge_report(self, step, op, r, mem):
        """mem: the font's in-memory state right before the test (the test itself takes added glyphs into the keys)"""
        exp, optional = self.expected_report(mem)
        got = self.flatten_report(r)
        self.checked_reports += 1
        n0 = len(self.viol)
        for key in sorted(set(exp) | set(got), key=repr):
            e = exp.get(key)
            g = got.get(key)
            if key[0] == "linfo":
                e, g = bool(e), bool(g)
            if isinstance(e, set) or isinstance(g, set):
                e = e or set()
                g = g or set()
                for item in sorted(g - e):
                    if (key, item) in optional:
                        continue
                    c = self.cause(key, item, "spurious", mem)
                    self.add("exact", "%s/spurious/%s" % (self.entry_name(key), c), step, op, entry=list(key), item=item)
                for item in sorted(e - g):
                    if (key, item) in optional:
                        continue
                    self.add("exact", "%s/missing/unexplained" % self.entry_name(key), step, op, entry=list(key), item=item)
            else:
                if key[0] == "part" and (e is None) != (g is None):
                    self.add("exact", "%s/loaded-state" % key[1], step, op, expected=repr(e), observed=repr(g))
                elif bool(e) != bool(g):
                    if (key, None) in optional:
                        continue
                    direction = "spurious" if g else "missing"
                    c = self.cause(key, None, direction, mem)
                    self.add("exact", "%s/%s/%s" % (self.entry_name(key), direction, c), step, op, entry=list(key),
                             expected=repr(e), observed=repr(g))
        # deprecated keys must mirror the default layer's entry
        dl = self.impl.font.layers.defaultLayer.name
        d = r["layers"]["modified"].get(dl)
        for kk, sub in (("modifiedGlyphs", "modified"), ("addedGlyphs", "added"), ("deletedGlyphs", "deleted")):
            want = None if d is None else sorted(d[sub])
            have = None if r[kk] is None else sorted(r[kk])
            if want != have:
                self.add("exact", "deprecated-keys", step, op, key=kk, expected=want, observed=have)
        return len(self.viol) == n0

    # ----- reload convergence -------------------------------------------------------------------

    def judge_reload(self, step, op, report):
        """after the reload methods named by `report`, every reloaded object equals an independent read of the disk"""
        impl = self.impl
        font = impl.font
        got = fg.read_ufo(impl.path)
        for p in PARTS:
            if report[p]:
                mem = impl.part_dump(p)
                disk = part_value(got, p)
                if p == "lib":
                    mem = fg._norm_lib(dict(font._lib))
                    disk = got["lib"]
                if json.dumps(mem, sort_keys=True) != json.dumps(disk, sort_keys=True):
                    self.add("reload-converges", "part/%s" % p, step, op, diff=fg.diff_dumps(disk, mem))
        layers = {l["name"]: l for l in got["layers"]}
        L = report["layers"]
        for ln in L["added"]:
            if ln not in font.layers:
                self.add("reload-converges", "layer-added/not-loaded", step, op, layer=ln)
            elif ln in layers and set(font.layers[ln].keys()) != set(layers[ln]["glyphs"]):
                self.add("reload-converges", "layer-added/glyph-names", step, op, layer=ln)
        for ln, d in L["modified"].items():
            if ln not in font.layers or ln not in layers:
                continue
            layer = font.layers[ln]
            if d["info"]:
                color = None if layer.color is None else str(layer.color)
                lib = fg._norm_lib(dict(layer.lib))
                if (color, lib) != (layers[ln]["color"], layers[ln]["lib"]):
                    self.add("reload-converges", "layer-info", step, op, layer=ln, memory=[color, lib],
                             disk=[layers[ln]["color"], layers[ln]["lib"]])
            for gn in sorted(set(d["modified"]) | set(d["added"])):
                if gn not in layers[ln]["glyphs"]:
                    continue
                if gn not in layer._glyphs:
                    self.add("reload-converges", "glyph/not-loaded", step, op, layer=ln, glyph=gn)
                    continue
                diff = fg.diff_dumps(layers[ln]["glyphs"][gn], fg.dump_glyph(layer._glyphs[gn]))
                if diff:
                    field = diff.split(":")[0].strip("/").split("/")[0].split("[")[0]
                    self.add("reload-converges", "glyph/%s" % field, step, op, layer=ln, glyph=gn, diff=diff)
        if L["order"]:
            disk_order = [l["name"] for l in got["layers"] if l["name"] in font.layers]
            mem_order = [n for n in font.layers.layerOrder if n in disk_order]
            if mem_order != disk_order:
                self.add("reload-converges", "layer-order", step, op, memory=font.layers.layerOrder, disk=disk_order)
        if L["defaultLayer"] and font.layers.defaultLayer.name != got["default"]:
            self.add("reload-converges", "default-layer", step, op, memory=font.layers.defaultLayer.name, disk=got["default"])
        for key, fs, sub in (("images", font.images, ("modified", "added")), ("data", font.data, ("modifiedData", "addedData"))):
            for n in sorted(set(report[key][sub[0]]) | set(report[key][sub[1]])):
                if n not in got[key]:
                    continue
                e = fs._data.get(n)
                if e is None or e["data"] is None or hashlib.md5(e["data"]).hexdigest() != got[key][n]:
                    self.add("reload-converges", "%s/content" % key, step, op, name=n)


def save_outside_model(font, files):
    """The two situations in which the model answers a save with `outside-the-modelled-domain` (mirrors
    `Ext.replayHazard` and the layer-contents check of `Ext.save`): replaying the layer history would move a glyph
    directory onto the occupied default directory (finding F53), or the UFO holds a layer the font does not.
    Implementation and model then both print `save-failed` and nothing is compared any more."""
    lc = xc.layer_contents(files)
    names = [n for n, _ in lc]
    default = xc.default_layer(files)
    for a in font.layers._layerActionHistory:
        if a["action"] == "delete":
            if a["name"] in names:
                names.remove(a["name"])
                if default == a["name"]:
                    default = None
        elif a["action"] == "default":
            new, old = a["newDefault"], a["oldDefault"]
            if old is not None and default == old:
                default = None
            if new in names:
                if default is not None and default != new:
                    return True
                default = new
    return any(n not in font.layers.layerOrder for n in names)


def expected_read(oracle, op):
    """for a lazy read: the bytes the font's reader view holds for it (None: the oracle does not judge)"""
    impl = oracle.impl
    view = oracle.reader_view()
    k = op[0]
    if k == "gget":
        return glyph_bytes(view, op[1], op[2])
    if k == "imgget":
        return fbytes(view, "images/" + op[1])
    if k == "datget":
        return fbytes(view, "data/" + op[1])
    return None


def run_impl(case):
    tmpd = tempfile.mkdtemp(prefix="vext_")
    try:
        impl = Impl(case, tmpd)
        oracle = Oracle(impl)
        outs = [Atom("ok")]         # the model's init line
        stats = {"structure." + case.get("structure", "package"): 1, "len": len(case["ops"])}
        tested_after_x = False
        x_pending = False
        x_since_test = False
        other = False
        reports = 0
        nonempty = 0
        pending_reload_report = None
        failed_save = False
        for i, op in enumerate(case["ops"]):
            k = op[0]
            if failed_save:
                # a save that raised leaves font and UFO half saved: nothing is executed or compared any more
                # (the oracle has recorded the failure if the history was inside the property's domain)
                outs.append(Atom("after-failed-save"))
                continue
            font = impl.font
            before = mem_state(font)
            dirty_before = dirty_state(font)
            was_loaded = True
            if k == "gget":
                was_loaded = op[1] in before["glyphs"] and op[2] in before["glyphs"][op[1]]
                in_keys = op[1] in before["keys"] and op[2] in before["keys"][op[1]]
            elif k == "imgget":
                was_loaded = op[1] in before["img"]
                in_keys = op[1] in before["img_names"]
            elif k == "datget":
                was_loaded = op[1] in before["dat"]
                in_keys = op[1] in before["dat_names"]
            exp_bytes = expected_read(oracle, op) if k in ("gget", "imgget", "datget") else None
            files_before = impl.files
            outside_model = k == "save" and save_outside_model(font, impl.files)
            stale_default_before = oracle.stale_default
            mem_deleted_before = set(oracle.mem_deleted_layers)
            saveas_loadable = True
            if k == "saveas":
                # a save-as reads every glyph it has not read yet through the bound glyph sets
                vw = oracle.reader_view()
                for ln in before["order"]:
                    ld = xc.layer_dir(oracle.listing, ln)
                    listed = xc.glyph_contents(oracle.listing, ld) if ld else {}
                    for gn in before["keys"][ln] - before["glyphs"][ln]:
                        if gn not in listed or glyph_bytes(vw, ln, gn) is None:
                            saveas_loadable = False
                unread_before = {ln: {gn: glyph_bytes(vw, ln, gn) for gn in before["keys"][ln] - before["glyphs"][ln]}
                                 for ln in before["order"]}
                read_before = {ln: dict(oracle.R.layers.get(ln, {"glyphs": {}})["glyphs"]) for ln in before["order"]}
            status, result = impl.do(op)
            if k == "xldefault" and result == "ok":
                oracle.stale_default = True
            if k in ("xladd", "xldel") and result == "ok":
                oracle.stale_layers.add(op[1])
            if k in ("reload", "acceptdel", "lnew", "ldel"):
                on_disk = set(n for n, _ in xc.layer_contents(impl.files))
                now = set(impl.font.layers.layerOrder)
                oracle.stale_layers = {n for n in oracle.stale_layers if (n in on_disk) != (n in now)}
            st = "ok" if status == "ok" else "err:" + str(status[1])
            if k == "saveas" and st != "ok" and not saveas_loadable:
                # a listed glyph can no longer be read (deleted externally and not taken over): not judged
                oracle.tainted = True
            if k == "save" and (stale_default_before or oracle.stale_layers) and st != "ok":
                # a save over a UFO whose layer structure another program changed and the font has not taken over
                # (ASSUMPTIONS): not judged
                oracle.tainted = True
            stats["op." + k] = stats.get("op." + k, 0) + 1
            if k in ("xpart", "xglyph", "ximg", "xdat"):
                act = op[2] if k != "xglyph" else op[3]
                kk = "x.%s.%s%s%s" % (k[1:], act, ".keep-mtime" if op[-1] is None else "", "" if result == "ok" else ".noop")
                stats[kk] = stats.get(kk, 0) + 1
            if st != "ok":
                stats[st] = stats.get(st, 0) + 1
            if k in ("save", "saveas") and st == "ok" and (impl.is_zip or k == "saveas"):
                oracle.same_mtime = set()       # the archive was rewritten / a new UFO written: every file has a new time
            if k == "save" and st == "ok" and oracle.same_mtime:
                # a save that changes the default layer moves glyph directories: the files keep bytes and mtimes
                hv = lambda v: (v[0], repr(v[1]))
                where = {(rel.split("/")[-1], hv(v)): rel for rel, v in impl.files.items()}
                oracle.same_mtime = {rel if impl.files.get(rel) == files_before.get(rel) else
                                     where.get((rel.split("/")[-1], hv(files_before[rel])), rel)
                                     for rel in oracle.same_mtime if rel in files_before}
            if k[0] == "x":
                if result == "ok":
                    x_pending = True
                    if k == "xldefault":
                        # directories moved: the files keep bytes and mtimes under new paths
                        hv = lambda v: (v[0], repr(v[1]))
                        where = {(rel.split("/")[-1], hv(v)): rel for rel, v in impl.files.items()}
                        oracle.same_mtime = {where.get((rel.split("/")[-1], hv(files_before[rel])), rel)
                                             for rel in oracle.same_mtime if rel in files_before}
                    # files whose bytes changed while the mtime stayed: detection is not demanded for them
                    for rel in (set(files_before) | set(impl.files)) if k != "xldefault" else ():
                        a, b = files_before.get(rel), impl.files.get(rel)
                        if a is not None and b is not None and a[0] != b[0] and a[1] == b[1]:
                            oracle.same_mtime.add(rel)
                        elif a != b:
                            oracle.same_mtime.discard(rel)
            elif k not in ("test",):
                other = True
            # ---- oracle: usability ------------------------------------------------------------
            if not oracle.blocked():
                if k in ("gget", "imgget", "datget") and not was_loaded and in_keys and exp_bytes is not None:
                    if st != "ok":
                        oracle.add("usable", "%s/%s" % (k, st[4:]), i, op, error=result)
                    else:
                        want = None
                        if k == "gget":
                            pass        # value equality is checked through the model's value ids and by judge_reload
                        elif k == "imgget":
                            want = [Atom("some"), img_id(exp_bytes)]
                        else:
                            want = [Atom("some"), dat_id(exp_bytes)]
                        if want is not None and result != want:
                            oracle.add("usable", "%s/stale-content" % k, i, op, expected=repr(want), observed=repr(result))
                if k in ("save", "saveas") and st != "ok":
                    oracle.add("usable", "%s/%s" % (k, st[4:]), i, op, error=result)
                if k == "saveas" and st == "ok":
                    # the new UFO holds every glyph the font lists: what it had read (unless edited since), or what the
                    # file it reads now held
                    for ln in before["order"]:
                        for gn in sorted(before["keys"][ln]):
                            b1 = glyph_bytes(impl.files, ln, gn)
                            if b1 is None:
                                oracle.add("usable", "saveas/lost-glyph-file", i, op, layer=ln, glyph=gn)
                                break
                            want = unread_before[ln].get(gn)
                            if gn in before["glyphs"][ln] and gn not in dirty_before["glyphs"].get(ln, set()):
                                want = read_before[ln].get(gn)
                            if want is not None and b1 != want:
                                oracle.add("usable", "saveas/changed-clean-glyph-file", i, op, layer=ln, glyph=gn)
                                break
                        for gn in sorted(set(xc.glyph_contents(impl.files, xc.layer_dir(impl.files, ln) or "?")) - before["keys"][ln]):
                            oracle.add("usable", "saveas/wrote-deleted-glyph", i, op, layer=ln, glyph=gn)
                            break
                if k == "save" and st == "ok":
                    # a save keeps every glyph file the font lists and did not rewrite
                    for ln in before["order"]:
                        d0 = xc.layer_dir(files_before, ln)
                        if d0 is None:
                            continue
                        c0 = xc.glyph_contents(files_before, d0)
                        for gn in sorted(set(c0) & before["keys"][ln]):
                            b1 = glyph_bytes(impl.files, ln, gn)
                            if b1 is None:
                                why = "/external-default-change-not-reloaded" if stale_default_before else (
                                    "/layer-deleted-and-recreated-in-memory" if ln in mem_deleted_before else "")
                                oracle.add("usable", "save/lost-glyph-file" + why, i, op, layer=ln, glyph=gn)
                                break
                            if gn not in dirty_before["glyphs"].get(ln, set()) and b1 != files_before[d0 + "/" + c0[gn]][0]:
                                oracle.add("usable", "save/changed-clean-glyph-file", i, op, layer=ln, glyph=gn)
                                break
                if k == "save" and st == "ok":
                    # ... and every image / data file the font lists
                    for key, prefix, _, _ in SETS:
                        for n in sorted(before[key + "_names"]):
                            if prefix + n in files_before and prefix + n not in impl.files:
                                oracle.add("usable", "save/lost-%s-file" % ("image" if key == "img" else "data"), i, op, name=n)
                                break
                if k in ("test", "reloadpart", "acceptdel") and st != "ok":
                    oracle.add("usable", "%s/%s" % (k, st[4:]), i, op, error=result)
                if k == "reload" and st == "err:KeyError" and xc.default_layer(impl.files) in oracle.mem_deleted_layers:
                    oracle.tainted = True     # the UFO's new default layer is one the font has deleted in memory: a conflict
                elif k == "reload" and st != "ok" and not x_since_test:
                    # (a report that external edits have overtaken since may name files that are gone)
                    oracle.add("usable", "%s/%s" % (k, st[4:]), i, op, error=result)
            if k in ("reload", "reloadglyphs", "reloadfiles") and st != "ok":
                # a reload that raised has reloaded an unknown part of what it was asked for: the harness can no longer
                # tell what the font has read (if the failure itself was a violation it has been recorded above)
                oracle.tainted = True
            # ---- oracle: the report (judged against the record as it was before this test) ------------
            if k == "test" and st == "ok":
                reports += 1
                r = impl.last_report
                if not oracle.blocked():
                    oracle.judge_report(i, op, r, before)
                if x_pending:
                    tested_after_x = True
                flat = Oracle.flatten_report(r)
                if any(v for kk, v in flat.items()):
                    nonempty += 1
                for kk, v in flat.items():
                    if v:
                        name = "entry." + oracle.entry_name(kk)
                        stats[name] = stats.get(name, 0) + 1
            # ---- record keeping (always, also after a violation, so that later steps stay meaningful) --
            oracle.after_op(i, op, before, dirty_before, st, result)
            if k in ("reload", "acceptdel") and x_since_test:
                oracle.tainted = True
            if k in ("test", "save", "saveas") and st == "ok":
                x_since_test = False
            elif k[0] == "x" and result == "ok":
                x_since_test = True
            if k == "reload" and st == "ok" and impl.last_report is not None and not x_since_test and not oracle.blocked():
                oracle.judge_reload(i, op, impl.last_report)
            if k == "reloadpart" and st == "ok" and not oracle.blocked():
                rep = {p: p == op[1] for p in PARTS}
                rep.update(layers=dict(added=[], modified={}, order=False, defaultLayer=False), images=dict(modified=[], added=[]),
                           data=dict(modifiedData=[], addedData=[]))
                oracle.judge_reload(i, op, rep)
            if k == "reloadglyphs" and st == "ok" and not x_since_test and not oracle.blocked():
                rep = {p: False for p in PARTS}
                rep.update(layers=dict(added=[], modified={op[1]: dict(info=False, modified=list(op[2]), added=[], deleted=[])},
                                       order=False, defaultLayer=False), images=dict(modified=[], added=[]),
                           data=dict(modifiedData=[], addedData=[]))
                oracle.judge_reload(i, op, rep)
            if k in ("save", "saveas") and (st != "ok" or outside_model):
                failed_save = True
                outs.append([Atom("err"), Atom("save-failed")])
                continue
            try:
                snap = impl.snapshot()
            except Exception as e:
                snap = [Atom("snapshot-error"), type(e).__name__]
            if status == "ok":
                outs.append([status, result, snap])
            else:
                outs.append([status, snap])
        stats["reports"] = reports
        stats["reports.nonempty"] = nonempty
        stats["noncanonical"] = impl.noncanonical
        if impl.noncanonical:
            outs.append([Atom("noncanonical-bytes"), impl.noncanonical])
        try:
            impl.font.close()
            impl.canon.close()
        except Exception:
            pass
        return dict(out=outs, viol=oracle.viol, info=dict(nontrivial=bool(tested_after_x and other), stats=stats))
    finally:
        shutil.rmtree(tmpd, ignore_errors=True)


# ---------------------------------------------------------------------------------------
# generation
# ---------------------------------------------------------------------------------------

FEATURES = ["", "# nothing\n", "feature kern {\n    pos A B -10;\n} kern;\n", "@cls = [A B];\nfeature liga {\n    sub f_i by A;\n} liga;\n",
            "# other\n"]


def gen_part_value(rng, part):
    if part == "info":
        info = {}
        for a in rng.sample(sorted(fg.INFO_ATTRS), rng.randint(0, 4)):
            info[a] = copy.deepcopy(rng.choice(fg.INFO_ATTRS[a]))
        gl = []
        if rng.random() < 0.3:
            gl.append([None, rng.randint(0, 700), None, rng.choice([None, "base"]), None, rng.choice([None, "fg1"])])
        return {"info": info, "guidelines": gl}
    if part == "kerning":
        return {"%s|%s" % (rng.choice(fg.GLYPH_NAMES[:4]), rng.choice(fg.GLYPH_NAMES[:4])): rng.randint(-80, 80)
                for _ in range(rng.randint(0, 3))}
    if part == "groups":
        g = {}
        for n in rng.sample(["public.kern1.O", "public.kern2.H", "other"], rng.randint(0, 2)):
            g[n] = rng.sample(fg.GLYPH_NAMES, rng.randint(1, 3))
        return g
    if part == "features":
        return rng.choice(FEATURES)
    lib = fg.gen_lib(rng)
    # unique: two generated lib values never have the same content (lib.plist bytes also depend on public.glyphOrder,
    # so "the same value written twice" is only produced by the touch action, which keeps the bytes)
    lib[xc.KEEP_KEY] = rng.randint(2, 10 ** 9)
    return lib


def gen_glyph(rng, name, images=()):
    """glyph content without components (see ASSUMPTIONS)"""
    g = fg.gen_glyph(rng, name, images)
    g["components"] = []
    return g


class Sim(object):
    """a light simulation of what exists where, so that most generated ops are meaningful (it does not have to be exact:
    an op that turns out not to apply is answered noop / KeyError by implementation and model alike)"""

    def __init__(self, rng, spec):
        self.rng = rng
        self.t = 0
        self.disk_layers = {l["name"]: set(l["glyphs"]) for l in spec["layers"]}
        self.disk_order = [l["name"] for l in spec["layers"]]
        self.disk_default = spec["default"]
        self.mem_layers = {l["name"]: set(l["glyphs"]) for l in spec["layers"]}
        self.mem_order = list(self.disk_order)
        self.mem_default = spec["default"]
        self.loaded = {l["name"]: set() for l in spec["layers"]}
        self.disk_img = set(spec["images"])
        self.disk_dat = set(spec["data"])
        self.mem_img = set(spec["images"])
        self.mem_dat = set(spec["data"])
        self.parts_on_disk = {"info", "lib"} | ({"features"} if spec["features"] is not None else set()) | \
            ({"kerning"} if spec["kerning"] else set()) | ({"groups"} if spec["groups"] else set())
        self.images = dict(spec["images"])
        self.data = dict(spec["data"])
        # content of glyph files as far as the generator knows it (to write "the same bytes again")
        self.gspecs = {(l["name"], gn): g for l in spec["layers"] for gn, g in l["glyphs"].items()}
        self.mem_deleted = set()     # layers deleted in memory since the last save
        self.frozen = set()          # layers whose directories moved / vanished externally and were not re-synchronised
        self.no_save = False
        self.values = {}

    def time(self):
        self.t += 1
        return self.t

    def layer(self, mem=True):
        pool = self.mem_order if mem else ([n for n in self.disk_order if n in self.mem_order] or self.disk_order)
        pool = [l for l in pool if l not in self.frozen] or pool
        return self.rng.choice(pool)

    def glyph(self, names):
        rng = self.rng
        names = sorted(names)
        if names and rng.random() < 0.85:
            return rng.choice(names)
        return rng.choice(fg.GLYPH_NAMES)

    # ----- in-memory ops ---------------------------------------------------------------------

    def mem_op(self, kinds=None):
        rng = self.rng
        r = rng.random()
        ln = self.layer(True)
        names = self.mem_layers.get(ln, set())
        if r < 0.10:
            return [["touch", rng.choice(PARTS)]]
        if r < 0.20:
            p = rng.choice(PARTS)
            return [["pset", p, gen_part_value(rng, p)]]
        if r < 0.36:
            gn = self.glyph(names)
            if gn in names:
                self.loaded.setdefault(ln, set()).add(gn)
            return [["gget", ln, gn]]
        if r < 0.44:
            gn = rng.choice(fg.GLYPH_NAMES)
            self.mem_layers.setdefault(ln, set()).add(gn)
            self.loaded.setdefault(ln, set()).add(gn)
            self.gspecs.pop((ln, gn), None)
            return [["gnew", ln, gn]]
        if r < 0.48:
            return self.rename(ln, self.glyph(names), rng.choice(fg.GLYPH_NAMES))
        if r < 0.56:
            gn = self.glyph(names)
            if gn in names:
                self.loaded.setdefault(ln, set()).add(gn)
            self.gspecs.pop((ln, gn), None)
            return [["gset", ln, gn, gen_glyph(rng, gn, self.images)]]
        if r < 0.64:
            gn = self.glyph(names)
            names.discard(gn)
            self.loaded.get(ln, set()).discard(gn)
            return [["gdel", ln, gn]]
        if r < 0.68:
            free = [n for n in fg.LAYER_NAMES if n not in self.mem_order]
            if free:
                n = rng.choice(free)
                self.mem_order.append(n)
                self.mem_layers[n] = set()
                self.loaded[n] = set()
                return [["lnew", n]]
            return []
        if r < 0.71:
            c = [n for n in self.mem_order if n != self.mem_default and n != self.disk_default]
            if c:
                n = rng.choice(c)
                self.mem_order.remove(n)
                self.mem_layers.pop(n, None)
                self.mem_deleted.add(n)
                return [["ldel", n]]
            return []
        if r < 0.74:
            o = list(self.mem_order)
            rng.shuffle(o)
            self.mem_order = o
            return [["lorder", list(o)]]
        if r < 0.77:
            self.mem_default = ln
            return [["ldefault", ln]]
        if r < 0.80:
            return [["lset", ln, rng.choice([None] + fg.COLORS), fg.gen_lib(rng)]]
        if r < 0.86:
            n = rng.choice(fg.IMAGE_NAMES)
            if rng.random() < 0.65:
                self.mem_img.add(n)
                return [["img", n, rng.randint(1, 6)]]
            self.mem_img.discard(n)
            return [["img", n, None]]
        if r < 0.90:
            return [["imgget", rng.choice(sorted(self.mem_img) or fg.IMAGE_NAMES)]]
        if r < 0.96:
            n = rng.choice(fg.DATA_NAMES)
            if rng.random() < 0.65:
                self.mem_dat.add(n)
                return [["dat", n, rng.randint(0, 6)]]
            self.mem_dat.discard(n)
            return [["dat", n, None]]
        return [["datget", rng.choice(sorted(self.mem_dat) or fg.DATA_NAMES)]]

    def rename(self, ln, old, new):
        """glyph.name = new: the old name leaves the layer (its file is scheduled for deletion), the glyph lives under
        the new name, which replaces whatever the layer held there"""
        names = self.mem_layers.setdefault(ln, set())
        if old in names and old != new:
            names.discard(old)
            names.add(new)
            self.loaded.setdefault(ln, set()).discard(old)
            self.loaded[ln].add(new)
            self.gspecs.pop((ln, new), None)
        return [["grename", ln, old, new]]

    def save(self):
        if self.no_save or self.frozen:
            return []
        self.mem_deleted = set()
        self.disk_layers = {n: set(self.mem_layers[n]) | (self.disk_layers.get(n, set())) for n in self.mem_order}
        self.disk_order = list(self.mem_order)
        self.disk_default = self.mem_default
        self.disk_img |= self.mem_img
        self.disk_dat |= self.mem_dat
        return [["save"]]

    def saveas(self):
        """save-as to a new path: the new UFO is what the font holds (needs every listed glyph to be readable)"""
        if self.frozen:
            return []
        self.mem_deleted = set()
        self.no_save = False
        self.disk_layers = {n: set(self.mem_layers[n]) for n in self.mem_order}
        self.loaded = {n: set(self.mem_layers[n]) for n in self.mem_order}
        self.disk_order = list(self.mem_order)
        self.disk_default = self.mem_default
        self.disk_img = set(self.mem_img)
        self.disk_dat = set(self.mem_dat)
        return [["saveas"]]

    # ----- external ops ------------------------------------------------------------------------

    def tmode(self, can_keep):
        """a fresh mtime, or None = leave the mtime as it is (byte change that a time stamp cannot reveal)"""
        if can_keep and self.rng.random() < 0.08:
            return None
        return self.time()

    def x_op(self, structural=True):
        rng = self.rng
        r = rng.random()
        ln = self.layer(False)
        names = self.disk_layers.get(ln, set())
        if r < 0.22:
            p = rng.choice(PARTS)
            a = rng.random()
            if a < 0.5:
                return [["xpart", p, "write", gen_part_value(rng, p), self.tmode(True)]]
            if a < 0.8:
                return [["xpart", p, "touch", None, self.time()]]
            if p == "lib":
                return [["xpart", p, "touch", None, self.time()]]
            return [["xpart", p, "delete", None, self.time()]]
        if r < 0.55:
            a = rng.random()
            if a < 0.4:
                gn = self.glyph(names)
                names.add(gn)
                gs_ = gen_glyph(rng, gn, self.images)
                self.gspecs[(ln, gn)] = gs_
                return [["xglyph", ln, gn, "write", gs_, self.tmode(gn in names)]]
            if a < 0.6:
                gn = rng.choice(fg.GLYPH_NAMES)
                names.add(gn)
                gs_ = gen_glyph(rng, gn, self.images)
                self.gspecs[(ln, gn)] = gs_
                return [["xglyph", ln, gn, "write", gs_, self.time()]]
            if a < 0.8:
                return [["xglyph", ln, self.glyph(names), "touch", None, self.time()]]
            gn = self.glyph(names)
            names.discard(gn)
            return [["xglyph", ln, gn, "delete", None, self.time()]]
        if r < 0.62:
            return [["xlinfo", ln, rng.choice([None] + fg.COLORS), fg.gen_lib(rng), None]]
        if r < 0.74:
            n = rng.choice(sorted(self.disk_img) if self.disk_img and rng.random() < 0.7 else fg.IMAGE_NAMES)
            a = rng.random()
            if a < 0.55:
                self.disk_img.add(n)
                sd = rng.randint(1, 6)
                self.images[n] = sd
                return [["ximg", n, "write", sd, self.tmode(True)]]
            if a < 0.8:
                return [["ximg", n, "touch", None, self.time()]]
            self.disk_img.discard(n)
            return [["ximg", n, "delete", None, self.time()]]
        if r < 0.86:
            n = rng.choice(sorted(self.disk_dat) if self.disk_dat and rng.random() < 0.7 else fg.DATA_NAMES)
            a = rng.random()
            if a < 0.55:
                self.disk_dat.add(n)
                sd = rng.randint(0, 6)
                self.data[n] = sd
                return [["xdat", n, "write", sd, self.tmode(True)]]
            if a < 0.8:
                return [["xdat", n, "touch", None, self.time()]]
            self.disk_dat.discard(n)
            return [["xdat", n, "delete", None, self.time()]]
        if not structural:
            return [["xglyph", ln, self.glyph(names), "touch", None, self.time()]]
        if r < 0.90:
            o = list(self.disk_order)
            rng.shuffle(o)
            self.disk_order = o
            return [["xlorder", o, None]]
        # layer structure: directories appear, vanish or move; followed by a test at once (see ASSUMPTIONS)
        if r < 0.94:
            free = [n for n in fg.LAYER_NAMES if n not in self.disk_order and n not in self.mem_deleted and n not in self.mem_order]
            if not free:
                return []
            n = rng.choice(free)
            gl = {gn: gen_glyph(rng, gn, self.images) for gn in rng.sample(fg.GLYPH_NAMES, rng.randint(0, 3))}
            self.disk_order.append(n)
            self.disk_layers[n] = set(gl)
            ops = [["xladd", n, gl, self.time()]]
            if rng.random() < 0.45:
                # ... and put somewhere else than at the end of layercontents.plist, before the font looks
                o = list(self.disk_order)
                rng.shuffle(o)
                self.disk_order = o
                ops.append(["xlorder", o, None])
            return ops + self.resync([n])
        if r < 0.97:
            c = [n for n in self.disk_order if n != self.disk_default and n != self.mem_default]
            if not c:
                return []
            n = rng.choice(c)
            self.disk_order.remove(n)
            self.disk_layers.pop(n, None)
            return [["xldel", n, None]] + self.resync([n])
        c = [n for n in self.disk_order if n != self.disk_default and n in self.mem_order]
        if not c:
            return []
        n = rng.choice(c)
        old = self.disk_default
        if self.mem_default == n:
            self.no_save = True      # the same change made in memory: the test will not report it (finding F53)
        self.disk_default = n
        return [["xldefault", n, None]] + self.resync([n, old])

    def resync(self, layers):
        rng = self.rng
        ops = [["test"]]
        if rng.random() < 0.9:
            ops += [["reload"], ["acceptdel"]]
            self.after_reload()
            self.after_accept()
        else:
            self.frozen |= set(layers)
            self.no_save = True
        return ops

    def after_reload(self):
        # memory now knows the layers / glyph names of the disk (approximately)
        for n in self.disk_order:
            if n in self.mem_deleted:
                continue        # a layer the font deleted itself is not reported as added, hence not reloaded
            if n not in self.mem_order:
                self.mem_order.append(n)
                self.mem_layers[n] = set(self.disk_layers[n])
                self.loaded[n] = set()
            else:
                self.mem_layers[n] |= self.disk_layers[n]
        for n in list(self.mem_order):
            if n not in self.disk_order and n != self.mem_default and n in self.mem_layers and self.rng.random() < 2:
                pass
        self.mem_img |= self.disk_img
        self.mem_dat |= self.disk_dat
        if self.disk_default in self.mem_order:
            self.mem_default = self.disk_default

    def after_accept(self):
        """acceptdel deletes in memory the layers (and glyphs) the UFO no longer has; a layer deleted that way is one
        the font 'deleted itself': should it appear again on disk, the test will not report it"""
        for n in list(self.mem_order):
            if n not in self.disk_order and n != self.mem_default:
                self.mem_order.remove(n)
                self.mem_layers.pop(n, None)
                self.mem_deleted.add(n)
        for n in self.mem_order:
            if n in self.disk_layers:
                self.mem_layers[n] &= self.disk_layers[n] | (self.mem_layers[n] - self.disk_layers[n])

    # ----- probes ------------------------------------------------------------------------------------

    def unread_glyph(self):
        c = [(ln, gn) for ln in self.mem_order if ln not in self.frozen and ln in self.disk_layers
             for gn in sorted(self.disk_layers[ln] & self.mem_layers.get(ln, set()) - self.loaded.get(ln, set()))]
        if not c:
            return []
        ln, gn = self.rng.choice(c)
        self.loaded[ln].add(gn)
        return [["gget", ln, gn]]

    def probes(self):
        rng = self.rng
        ops = []
        if rng.random() < 0.8:
            ops += self.unread_glyph()
        if self.mem_img & self.disk_img and rng.random() < 0.5:
            ops.append(["imgget", rng.choice(sorted(self.mem_img & self.disk_img))])
        if self.mem_dat & self.disk_dat and rng.random() < 0.5:
            ops.append(["datget", rng.choice(sorted(self.mem_dat & self.disk_dat))])
        return ops


def scenario(sim, k):
    """scripted patterns the property talks about, at known positions (returns a list of ops ending before the test)"""
    rng = sim.rng
    ln = sim.layer(False)
    if ln not in sim.mem_layers:
        return []
    both = sorted(sim.disk_layers.get(ln, set()) & sim.mem_layers.get(ln, set()))
    g = lambda gn: gen_glyph(rng, gn, sim.images)
    if k == 0 and both:
        # a loaded glyph is edited in memory AND rewritten externally
        gn = rng.choice(both)
        sim.loaded[ln].add(gn)
        return [["gget", ln, gn], ["gset", ln, gn, g(gn)], ["xglyph", ln, gn, "write", g(gn), sim.time()]]
    if k == 1:
        # touch-only: every loaded file gets a new mtime, no byte changes
        ops = [["touch", p] for p in PARTS]
        ops += [["xpart", p, "touch", None, sim.time()] for p in PARTS]
        for gn in both[:3]:
            sim.loaded[ln].add(gn)
            ops += [["gget", ln, gn], ["xglyph", ln, gn, "touch", None, sim.time()]]
        for n in sorted(sim.mem_img & sim.disk_img)[:2]:
            ops += [["imgget", n], ["ximg", n, "touch", None, sim.time()]]
        for n in sorted(sim.mem_dat & sim.disk_dat)[:2]:
            ops += [["datget", n], ["xdat", n, "touch", None, sim.time()]]
        return ops
    if k == 2 and both:
        # deleted in memory, then re-created on disk (same bytes = touch, or new bytes)
        gn = rng.choice(both)
        ops = ([["gget", ln, gn]] if rng.random() < 0.5 else []) + [["gdel", ln, gn]]
        sim.mem_layers[ln].discard(gn)
        sim.loaded[ln].discard(gn)
        if rng.random() < 0.5:
            ops.append(["xglyph", ln, gn, "touch", None, sim.time()])
        else:
            ops.append(["xglyph", ln, gn, "write", g(gn), sim.time()])
        return ops
    if k == 3:
        # a loaded top-level file is deleted / an absent one is created
        p = rng.choice(["kerning", "groups", "features", "info"])
        if p in sim.parts_on_disk and rng.random() < 0.6:
            sim.parts_on_disk.discard(p)
            return [["touch", p], ["xpart", p, "delete", None, sim.time()]]
        sim.parts_on_disk.add(p)
        v = gen_part_value(rng, p)
        return [["touch", p], ["xpart", p, "delete", None, sim.time()], ["test"], ["reload"], ["xpart", p, "write", v, sim.time()]]
    if k == 4:
        # glyphs / layers that exist only in memory, order and default changed in memory (finding F8)
        ops = []
        gn = rng.choice(fg.GLYPH_NAMES)
        ops.append(["gnew", ln, gn])
        sim.mem_layers[ln].add(gn)
        sim.loaded[ln].add(gn)
        if rng.random() < 0.5:
            ops += sim.mem_op()
        if rng.random() < 0.5 and len(sim.mem_order) > 1:
            o = list(sim.mem_order)
            o.reverse()
            sim.mem_order = o
            ops.append(["lorder", o])
        return ops
    if k == 5 and both:
        # byte change that keeps the mtime (may go unnoticed), then a touch reveals it
        gn = rng.choice(both)
        sim.loaded[ln].add(gn)
        return [["gget", ln, gn], ["xglyph", ln, gn, "write", g(gn), None], ["test"], ["xglyph", ln, gn, "touch", None, sim.time()]]
    if k == 6:
        # a glyph appears on disk; after the test it is read lazily, then reloaded
        gn = rng.choice([n for n in fg.GLYPH_NAMES if n not in sim.disk_layers[ln]] or fg.GLYPH_NAMES)
        sim.disk_layers[ln].add(gn)
        ops = [["xglyph", ln, gn, "write", g(gn), sim.time()], ["test"]]
        if rng.random() < 0.5:
            ops.append(["gget", ln, gn])
        sim.mem_layers[ln].add(gn)
        return ops
    if k == 7 and both:
        # changed and changed back: byte-identical to what was read, different mtime
        gn = rng.choice(both)
        sim.loaded[ln].add(gn)
        p = rng.choice(PARTS)
        v = gen_part_value(rng, p)
        return [["gget", ln, gn], ["xglyph", ln, gn, "delete", None, sim.time()], ["touch", p]]
    if k == 8:
        # an image / data file edited in memory while its file is only touched externally
        ops = []
        for n in sorted(sim.mem_img & sim.disk_img)[:1]:
            ops += [["img", n, rng.randint(7, 9)], ["ximg", n, "touch", None, sim.time()]]
        for n in sorted(sim.mem_dat & sim.disk_dat)[:1]:
            ops += [["dat", n, rng.randint(7, 9)], ["xdat", n, "touch", None, sim.time()]]
        return ops
    if k == 9:
        # save, then external edits of files the save has just written
        ops = []
        p = rng.choice(PARTS)
        ops += [["pset", p, gen_part_value(rng, p)]]
        ops += sim.save()
        ops += [["xpart", p, "touch", None, sim.time()]]
        if both:
            gn = rng.choice(both)
            ops += [["xglyph", ln, gn, "write", g(gn), sim.time()]]
        return ops
    if k == 10 and both:
        # an unread glyph changes on disk (not loaded: nothing to report), is then read
        c = sorted(set(both) - sim.loaded.get(ln, set()))
        if c:
            gn = rng.choice(c)
            sim.loaded[ln].add(gn)
            return [["xglyph", ln, gn, "write", g(gn), sim.time()], ["test"], ["gget", ln, gn]]
    if k == 14 and both:
        # a glyph (read before, or never read) deleted in memory; save-as; another program puts a glyph of that name into
        # the NEW UFO - the very bytes that were deleted, or other bytes; test, reload, test, save
        gn = rng.choice(both)
        same = sim.gspecs.get((ln, gn)) if rng.random() < 0.6 else None
        ops = ([["gget", ln, gn]] if rng.random() < 0.5 else []) + [["gdel", ln, gn]]
        sim.mem_layers[ln].discard(gn)
        sa = sim.saveas()
        if not sa:
            return ops
        spec_new = same if same is not None else g(gn)
        ops += sa + [["xglyph", ln, gn, "write", spec_new, sim.time()], ["test"], ["reload"], ["test"]]
        sim.gspecs[(ln, gn)] = spec_new
        sim.disk_layers[ln].add(gn)
        sim.mem_layers[ln].add(gn)
        sim.loaded[ln].add(gn)
        return ops + sim.save() + [["test"]]
    if k in (15, 16):
        # the same for an image / a data file
        key, names, xop, seeds = ("img", sim.mem_img & sim.disk_img, "ximg", sim.images) if k == 15 else \
            ("dat", sim.mem_dat & sim.disk_dat, "xdat", sim.data)
        if names:
            n = rng.choice(sorted(names))
            ops = ([[key + "get", n]] if rng.random() < 0.5 else []) + [[key, n, None]]
            (sim.mem_img if k == 15 else sim.mem_dat).discard(n)
            sa = sim.saveas()
            if not sa:
                return ops
            sd = seeds.get(n) if (n in seeds and rng.random() < 0.6) else rng.randint(7, 9)
            ops += sa + [[xop, n, "write", sd, sim.time()], ["test"], ["reload"], ["test"]]
            seeds[n] = sd
            (sim.mem_img if k == 15 else sim.mem_dat).add(n)
            (sim.disk_img if k == 15 else sim.disk_dat).add(n)
            return ops + sim.save() + [["test"]]
    if k == 17:
        # things that exist only in memory (a glyph, a layer, an image), then save-as: they are on disk now
        ops = []
        gn = rng.choice(fg.GLYPH_NAMES)
        ops.append(["gnew", ln, gn])
        sim.mem_layers[ln].add(gn)
        sim.loaded[ln].add(gn)
        sim.gspecs.pop((ln, gn), None)
        free = [n for n in fg.LAYER_NAMES if n not in sim.mem_order and n not in sim.disk_order and n not in sim.mem_deleted]
        if free and rng.random() < 0.6:
            ops.append(["lnew", free[0]])
            sim.mem_order.append(free[0])
            sim.mem_layers[free[0]] = set()
            sim.loaded[free[0]] = set()
        ops += sim.saveas()
        return ops
    if k in (12, 13):
        # an image / data file deleted in memory, then touched or rewritten (or removed and created again) on disk
        key, names, xop = ("img", sim.mem_img & sim.disk_img, "ximg") if k == 12 else ("dat", sim.mem_dat & sim.disk_dat, "xdat")
        if names:
            n = rng.choice(sorted(names))
            (sim.mem_img if k == 12 else sim.mem_dat).discard(n)
            ops = ([[key + "get", n]] if rng.random() < 0.5 else []) + [[key, n, None]]
            r = rng.random()
            if r < 0.35:
                ops.append([xop, n, "touch", None, sim.time()])
            elif r < 0.8:
                ops.append([xop, n, "write", rng.randint(7, 9), sim.time()])
            else:
                ops += [[xop, n, "delete", None, sim.time()], ["test"], [xop, n, "write", rng.randint(7, 9), sim.time()]]
            if rng.random() < 0.3:
                ops += [["test"], [key, n, rng.randint(1, 6)]]      # taken back in memory afterwards
                (sim.mem_img if k == 12 else sim.mem_dat).add(n)
            return ops
    if k == 18 and both:
        # a glyph (read before, or never read) renamed to a name the UFO does not know: the new name exists in memory
        # only (finding F8.1) until the save; the old file is scheduled for deletion and another program may touch or
        # rewrite it meanwhile
        gn = rng.choice(both)
        free = [n for n in fg.GLYPH_NAMES if n not in sim.disk_layers[ln] and n not in sim.mem_layers[ln]]
        if free:
            new = rng.choice(free)
            ops = ([["gget", ln, gn]] if rng.random() < 0.5 else []) + sim.rename(ln, gn, new)
            r = rng.random()
            if r < 0.25:
                ops.append(["xglyph", ln, gn, "touch", None, sim.time()])
            elif r < 0.45:
                ops.append(["xglyph", ln, gn, "write", g(gn), sim.time()])
            if rng.random() < 0.6:
                ops += [["test"]] + sim.save() + [["test"]]
                if rng.random() < 0.5:
                    ops.append(["xglyph", ln, new, "write", g(new), sim.time()])
                    sim.disk_layers[ln].add(new)
            return ops
    if k == 19 and len(both) >= 2:
        # a glyph renamed onto a name whose file is on disk (deleted in memory before, or simply replaced): the glyph
        # object has never read that file, nothing is to be reported for it
        a, b = rng.sample(both, 2)
        ops = [["gget", ln, x] for x in (a, b) if rng.random() < 0.5]
        if rng.random() < 0.6:
            ops.append(["gdel", ln, b])
            sim.mem_layers[ln].discard(b)
            sim.loaded[ln].discard(b)
        ops += sim.rename(ln, a, b)
        if rng.random() < 0.3:
            # ... and deleted under its new name: the file of that name, which the glyph never read, is scheduled
            ops.append(["gdel", ln, b])
            sim.mem_layers[ln].discard(b)
            sim.loaded[ln].discard(b)
        if rng.random() < 0.3:
            ops.append(["xglyph", ln, rng.choice([a, b]), "touch", None, sim.time()])
        if rng.random() < 0.5:
            ops += [["test"]] + sim.save() + [["test"]]
        return ops
    if k == 20 and both:
        # a glyph deleted in memory and created again under the same name (newGlyph directly, or del first)
        gn = rng.choice(both)
        ops = [["gget", ln, gn]] if rng.random() < 0.5 else []
        if rng.random() < 0.7:
            ops.append(["gdel", ln, gn])
        ops.append(["gnew", ln, gn])
        sim.loaded[ln].add(gn)
        sim.gspecs.pop((ln, gn), None)
        if rng.random() < 0.5:
            ops.append(["gset", ln, gn, g(gn)])
        if rng.random() < 0.35:
            # ... and deleted again: the glyph object has no stamp, the file is scheduled as it is on disk
            ops.append(["gdel", ln, gn])
            sim.mem_layers[ln].discard(gn)
            sim.loaded[ln].discard(gn)
        r = rng.random()
        if r < 0.3:
            ops.append(["xglyph", ln, gn, "touch", None, sim.time()])
        elif r < 0.45:
            ops.append(["xglyph", ln, gn, "write", g(gn), sim.time()])
        if rng.random() < 0.5:
            ops += [["test"]] + sim.save() + [["test"]]
        return ops
    if k == 21 and both:
        # rename there and back again, and a chain of renames, before anything is saved
        gn = rng.choice(both)
        free = [n for n in fg.GLYPH_NAMES if n not in sim.disk_layers[ln] and n not in sim.mem_layers[ln]]
        if len(free) >= 2:
            n1, n2 = rng.sample(free, 2)
            ops = sim.rename(ln, gn, n1)
            ops += sim.rename(ln, n1, gn) if rng.random() < 0.5 else sim.rename(ln, n1, n2)
            if rng.random() < 0.5:
                ops += [["test"]] + sim.save() + [["test"]]
            return ops
    if k == 22:
        # the same object edited in memory several times between two synchronisations, then its file only touched
        # (or really rewritten) on disk: what counts is what was last read from / written to the file, never an
        # intermediate in-memory value
        which = rng.choice(["img", "dat", "part", "glyph"])
        n_edits = rng.randint(2, 3)
        real = rng.random() < 0.25
        if which in ("img", "dat"):
            names = sorted((sim.mem_img & sim.disk_img) if which == "img" else (sim.mem_dat & sim.disk_dat))
            if names:
                n = rng.choice(names)
                ops = [[which + "get", n]] if rng.random() < 0.5 else []
                seeds = rng.sample(range(7, 12), n_edits)
                ops += [[which, n, sd] for sd in seeds]
                if rng.random() < 0.3:
                    # ... one of them written by another program, byte for byte
                    ops.append(["x" + which, n, "write", seeds[0], sim.time()])
                elif real:
                    ops.append(["x" + which, n, "write", rng.randint(12, 14), sim.time()])
                else:
                    ops.append(["x" + which, n, "touch", None, sim.time()])
                return ops
        if which == "part":
            p = rng.choice(PARTS)
            ops = [["touch", p]] + [["pset", p, gen_part_value(rng, p)] for _ in range(n_edits)]
            if real:
                ops.append(["xpart", p, "write", gen_part_value(rng, p), sim.time()])
            else:
                ops.append(["xpart", p, "touch", None, sim.time()])
            return ops
        if both:
            gn = rng.choice(both)
            sim.loaded[ln].add(gn)
            sim.gspecs.pop((ln, gn), None)
            ops = [["gset", ln, gn, g(gn)] for _ in range(n_edits)]
            if real:
                ops.append(["xglyph", ln, gn, "write", g(gn), sim.time()])
            else:
                ops.append(["xglyph", ln, gn, "touch", None, sim.time()])
            return ops
    if k == 23:
        # loaded objects are rewritten by another program; the font is saved in place BEFORE it tests (the save rewrites
        # only what it must: info, groups, lib always, kerning / features / glyphs / images / data when dirty), then tests:
        # files the save left alone still hold the other program's bytes and must be reported
        ops = []
        for p in rng.sample(PARTS, rng.randint(1, 3)):
            ops.append(["touch", p])
            if rng.random() < 0.3:
                ops.append(["pset", p, gen_part_value(rng, p)])
        for p in rng.sample(PARTS, rng.randint(1, 3)):
            if p != "lib" or rng.random() < 0.5:
                ops.append(["xpart", p, "write", gen_part_value(rng, p), sim.time()])
        if both and rng.random() < 0.6:
            gn = rng.choice(both)
            sim.loaded[ln].add(gn)
            ops += [["gget", ln, gn]] + ([["gset", ln, gn, g(gn)]] if rng.random() < 0.3 else [])
            ops.append(["xglyph", ln, gn, "write", g(gn), sim.time()])
        for key, names in (("img", sim.mem_img & sim.disk_img), ("dat", sim.mem_dat & sim.disk_dat)):
            if names and rng.random() < 0.4:
                n = rng.choice(sorted(names))
                ops += [[key + "get", n], ["x" + key, n, "write", rng.randint(7, 9), sim.time()]]
        ops += sim.mem_op()
        return ops + sim.save()
    if k == 11 and both:
        # a glyph removed on disk while it is loaded (and edited) in memory
        gn = rng.choice(both)
        sim.loaded[ln].add(gn)
        sim.disk_layers[ln].discard(gn)
        return [["gget", ln, gn]] + ([["gset", ln, gn, g(gn)]] if rng.random() < 0.5 else []) + [["xglyph", ln, gn, "delete", None, sim.time()]]
    return []


def gen_case(rng, tier):
    spec = fg.gen_font(rng, max_layers=3, max_glyphs=5)
    spec["lib"][xc.KEEP_KEY] = 1
    for l in spec["layers"]:
        for g in l["glyphs"].values():
            g["components"] = []
    if rng.random() < 0.7 and not spec["layers"][0]["glyphs"]:
        for gn in rng.sample(fg.GLYPH_NAMES, 2):
            spec["layers"][0]["glyphs"][gn] = gen_glyph(rng, gn, spec["images"])
    structure = "zip" if rng.random() < 0.3 else "package"
    sim = Sim(rng, spec)
    ops = []
    # lazily read part of the font first
    for p in PARTS:
        if rng.random() < 0.45:
            ops.append(["touch", p])
    for ln in sim.mem_order:
        for gn in sorted(sim.mem_layers[ln]):
            if rng.random() < 0.4:
                ops.append(["gget", ln, gn])
                sim.loaded[ln].add(gn)
    for n in sorted(sim.mem_img):
        if rng.random() < 0.5:
            ops.append(["imgget", n])
    for n in sorted(sim.mem_dat):
        if rng.random() < 0.5:
            ops.append(["datget", n])
    style = rng.random()
    maxops = 26 if tier == "quick" else 60
    if style < 0.8:
        for e in range(rng.randint(1, 3)):
            # A. in-memory phase
            for _ in range(rng.randint(0, 3)):
                ops += sim.mem_op()
            if rng.random() < 0.25:
                ops += sim.save()
            # B. scripted pattern and/or a batch of external edits
            if rng.random() < 0.6:
                ops += scenario(sim, rng.randrange(24))
            for _ in range(rng.randint(0, 3)):
                ops += sim.x_op()
            # C. in-memory ops, or an in-place save, while the external edits are unnoticed
            if rng.random() < 0.3:
                ops += sim.mem_op()
            if rng.random() < 0.15:
                ops += sim.save()
            # D. test, E. lazy reads right after it
            ops.append(["test"])
            if rng.random() < 0.6:
                ops += sim.probes()
            # F. reload what was reported / accept deletions, G. second test
            if rng.random() < 0.85:
                ops.append(["reload"])
                sim.after_reload()
                if rng.random() < 0.8:
                    ops.append(["acceptdel"])
                    sim.after_accept()
                ops.append(["test"])
                # H. the font stays usable
                if rng.random() < 0.7:
                    ops += sim.probes()
                if rng.random() < 0.5:
                    s = sim.saveas() if rng.random() < 0.25 else sim.save()
                    ops += s
                    if s:
                        ops.append(["test"])
            if len(ops) > maxops:
                break
    else:
        n = rng.randint(5, maxops - 6)
        for _ in range(n):
            r = rng.random()
            if r < 0.42:
                ops += sim.mem_op()
            elif r < 0.72:
                ops += sim.x_op()
            elif r < 0.86:
                ops.append(["test"])
            elif r < 0.93:
                ops += [["test"], ["reload"]]
                sim.after_reload()
                if rng.random() < 0.5:
                    ops.append(["acceptdel"])
                    sim.after_accept()
            elif r < 0.96:
                ops += sim.saveas() if rng.random() < 0.2 else sim.save()
            elif r < 0.98:
                ops.append(["reloadpart", rng.choice(PARTS)])
            else:
                ln = sim.layer(True)
                names = sorted(sim.disk_layers.get(ln, set()) & sim.mem_layers.get(ln, set()))
                if names:
                    ops.append(["reloadglyphs", ln, rng.sample(names, rng.randint(1, min(2, len(names))))])
        ops.append(["test"])
    return dict(spec=spec, structure=structure, ops=ops)


def generate(rng, tier):
    n = 450 if tier == "quick" else 4000
    for c in witness_cases():
        yield c
    for _ in range(n):
        yield gen_case(rng, tier)


def neighbourhood(case, step, rng):
    """variants around a diverging step: keep the prefix and follow it with what the property talks about"""
    ops = case["ops"]
    prefix = ops[:step + 1]
    tails = [[["test"]], [["test"], ["reload"], ["test"]], [["test"], ["reload"], ["acceptdel"], ["test"], ["save"], ["test"]],
             [["save"], ["test"]], [["saveas"], ["test"]], [["test"], ["reload"], ["acceptdel"], ["saveas"], ["test"]]]
    spec = case["spec"]
    for l in spec["layers"]:
        for gn in sorted(l["glyphs"]):
            tails.append([["test"], ["gget", l["name"], gn]])
            tails.append([["test"], ["reload"], ["gget", l["name"], gn], ["save"], ["test"]])
    for t in tails:
        yield dict(case, ops=prefix + t)
    for t in tails[:4]:
        yield dict(case, ops=ops + t)
    yield case


# ---------------------------------------------------------------------------------------
# witnesses of the recorded findings (replayed on the real code on every run)
# ---------------------------------------------------------------------------------------

def _witness_spec():
    g = dict(EMPTY_GLYPH, width=500)
    return {"layers": [{"name": "fore", "color": None, "lib": {}, "glyphs": {"A": g}},
                       {"name": "back", "color": "1,0,0,1", "lib": {}, "glyphs": {"B": dict(g, width=300)}}],
            "default": "fore", "info": {"familyName": "Fam"}, "guidelines": [], "kerning": {}, "groups": {}, "features": None,
            "lib": {xc.KEEP_KEY: 1}, "images": {}, "data": {}}


WITNESS = {
    "C05/exact/glyphs.deleted/spurious/memory-only-glyph": [["gnew", "fore", "new"], ["test"]],
    "C05/exact/layers.deleted/spurious/memory-only-layer": [["lnew", "sketch"], ["test"]],
    "C05/exact/layers.order/spurious/memory-order-or-layer-change": [["lorder", ["back", "fore"]], ["test"]],
    "C05/exact/layers.defaultLayer/spurious/memory-default-change": [["ldefault", "back"], ["test"]],
    "C05/exact/layer.info/spurious/memory-replaced-layer": [["ldel", "back"], ["lnew", "back"], ["test"]],
    "C05/exact/glyphs.added/spurious/memory-replaced-layer": [["ldel", "back"], ["lnew", "back"], ["test"]],
    "C05/exact/glyphs.deleted/spurious/memory-replaced-layer": [["ldel", "back"], ["lnew", "back"], ["gnew", "back", "Z"], ["test"]],
    "C05/usable/save/lost-glyph-file/layer-deleted-and-recreated-in-memory":
        [["ldel", "back"], ["lnew", "back"], ["test"], ["save"]],
    "C05/usable/save/lost-glyph-file/external-default-change-not-reloaded":
        [["ldefault", "back"], ["xldefault", "back", None], ["test"], ["reload"], ["save"]],
}


def witness_cases():
    # (the F53 witness is replayed on the implementation only: the model keys the UFO's layers by name and cannot
    # express one glyph directory being moved onto another; it answers such a save with `outside-the-modelled-domain`)
    return [dict(spec=_witness_spec(), structure="package", ops=ops) for sig, ops in WITNESS.items()
            if "external-default-change" not in sig]


def replay_known(entry):
    ops = WITNESS.get(entry["signature"])
    if ops is None:
        return False
    r = run_impl(dict(spec=_witness_spec(), structure="package", ops=ops))
    return any(v["signature"] == entry["signature"] for v in r["viol"])
