"""C03 - cached representations are never stale and are computed once per change.

Correspondence with M-Repr (lean/DefconModel/Repr.lean) + direct oracle.

The adaptor drives the real defcon objects (Font / Layer / Glyph / Contour / Component / Groups) in
process through their public API.  Every registered factory of the four representation-bearing
classes is wrapped by a counting shim for the duration of a case (class-level dict entry swapped and
restored; no source hook), and four probe factories are registered with default settings.

Per operation the adaptor emits
  * the model line: public calls as `(call receiver mutator eff|same [argument])` - `same` = the condition of
    the method's no-op guard holds in the state before the call (equal value assigned, `setStartPoint` on an
    open contour, ...), evaluated here on the real objects; what a `same` call does and which content cells an
    effective call rewrites is decided by the TABLE in lean/DefconModel/ReprCells.lean; structural inserts /
    removes, glyph add / delete / rename as primitives; `(hold obj)` / `(release obj)` / `(disable obj)` /
    `(enable obj)` for the user's notification controls; `(l1 item)` for the second layer; and `(obs ...)`, the
    content cells (points, identifiers, component data, glyph attributes, child lists, groups dict) whose
    FINGERPRINT on the real objects changed during the operation.  The structural effect of decomposeComponent /
    decomposeAllComponents / copyDataFromGlyph / pen drawing (new objects, new ids) is still read off the
    implementation (lists of children before / after);
  * the implementation's observable bookkeeping: for requests the number of factory invocations they
    caused, and after every operation `representationKeys()` of every live object of both layers.
The model answers the same things and a verdict on the observed cells (`(cells undeclared missing)`: cells that
changed although the model rewrote none of them, cells a table row says must change that did not); they are diffed
line by line.

DIRECT ORACLE (independent of the Lean model), evaluated after every operation:
  stale      every value cached in any attached object equals a fresh call of the registered factory
             on that object now (exact for int-valued results, 1e-9 relative otherwise) - so any later
             request would return exactly what the factory computes from the current state;
             every value returned by a request equals a fresh call too;
  runs-once  between two mutating operations no (object, name, kwargs) had its factory run twice;
  separate   different kwargs never share an entry (the probes return their kwargs).
While the user holds notifications, `stale` exempts the objects ABOVE a held object (the held object, its glyph, the
components on that glyph, their glyphs ...): the property quantifies over requests and public mutators, not over
holdNotifications / disableNotifications (Props.C03.stale_inside_hold is the witness that a value requested inside
a hold can be stale); everything else is judged inside the hold, everything after the release of the last hold.
After a disableNotifications nothing is judged any more (the eviction is lost for good, disable_loses_eviction).
A same-value call of a method that compares first is not a change for `runs-once`.
"""
import copy
import logging
import math
import os

from sexp import Atom, opt

import repr_extract

logging.getLogger("fontTools").setLevel(logging.CRITICAL)     # 'glyph missing from glyphSet; skipped'

MODEL = "repr"
PROP = "C03"
SHRINKABLE = True
RULE = ("op sequences over a font with <= 6 glyph names, line / cubic / quadratic / open / empty contours on even "
        "integer coordinates, components nested up to 3 deep (acyclic), loose (removed / never inserted) contours and "
        "components, the groups dict; every public point-list / attribute / structural mutator of Contour, Component, "
        "Glyph, every dict mutator of Groups, glyph add / delete / rename, interleaved with requests for every "
        "built-in representation, four counting probes registered with default settings (with and without kwargs), "
        "property reads, hasCachedRepresentation / representationKeys / destroyRepresentation; same-value calls of every "
        "guarded setter; blocks in which the user holds (or disables) the notifications of one to three contours / "
        "components / glyphs / the groups (counted, nested, released in any order) around inner mutators and requests; a "
        "second layer with overlapping glyph names (components whose base name exists in the other layer only), loose "
        "objects moving between the layers; non-trivial = at "
        "least one request answered from the cache or recomputed AFTER a mutator touched an object that already "
        "had cached entries; distinct = distinct op lists")
ASSUMPTIONS = [
    "Point objects are edited only through their contour's mutators (Point is documented as posting no notifications); "
    "group lists are replaced, not edited in place (documented in Groups)",
    "the property's histories are interleavings of requests with public mutators: holdNotifications / disableNotifications "
    "are neither, a value requested inside a user hold may be stale (stale_inside_hold) - the oracle exempts the objects "
    "above a held object while the hold lasts and judges everything once the holds are released (release_restores); "
    "while anything is held the histories contain requests, cache calls and inner mutators only (no structural "
    "operation, no base-glyph re-assignment); no observers that request representations from inside a callback in the "
    "modelled cases (the reader cases are judged by the oracle alone)",
    "component graphs are acyclic (cycles crash defcon with RecursionError), also under renames; renames and newGlyph "
    "target names that are not present (replacing a loaded glyph leaves the old object observed: F16, C11's slice)",
    "two layers of one font (components resolve their base glyph in their own layer: other_layer_invisible); glyphs are "
    "created in memory (lazy loading is C07)",
    "'flattened' is requested only on line / cubic outlines (fontPens' FlattenPen raises TypeError on quadratic ones)",
    "a default-registered factory on Component reads the component's own attributes only (Component.Changed is not "
    "posted for base-glyph edits; the built-in bounds factories are keyed on Component.BaseGlyphDataChanged instead)",
    "the five proposed fixes repo_fixes/C03-*.diff are applied to the tree under test (the model is of the fixed code)",
    "cache_coherent assumes every reached state is in the structural domain Dom (chains shorter than the fuel, unique ids "
    "and names, base-glyph registrations in place); Dom is not proved to be preserved - the driver evaluates it "
    "(domCheck) after every operation of every generated history and the adaptor expects `true`",
]
TRUSTED = [
    "harness/repr_extract.py (AST extraction of representationFactories / posted notifications / addObserver calls; "
    "syntactic: every post in a method body counts whatever branch it is in; fails closed on unknown shapes)",
    "contents are opaque to the model: the adaptor evaluates the condition of a method's guard on the pre-state (eff | same) "
    "and fingerprints the content cells of the real objects before and after every operation; which cells a call rewrites, "
    "what a `same` call does and the comparison with the fingerprints are the model's (ReprCells.lean); the structural "
    "effect of decompose* / copyDataFromGlyph / pen drawing is read off the implementation",
    "harness/repr_extract.py also extracts, per method, whether every post sits behind a test (guards) and the literal "
    "destroyRepresentation calls (destroys): syntactic",
    "built-in factories are functions of the view defined in Repr.lean (`viewOf`): contour points; component data + "
    "base outline by name; glyph outline; groups dict - validated only through the oracle's fresh-call comparison",
]

BUILTIN = {
    "Contour": ["defcon.contour.bounds", "defcon.contour.controlPointBounds", "defcon.contour.area",
                "defcon.contour.flattened"],
    "Component": ["defcon.component.bounds", "defcon.component.controlPointBounds"],
    "Glyph": ["defcon.glyph.area"],
    "Groups": ["defcon.groups.kerningSide1Groups", "defcon.groups.kerningSide2Groups",
               "defcon.groups.kerningGlyphToSide1Group", "defcon.groups.kerningGlyphToSide2Group"],
}
PROBE = {"Contour": "verif.probe.contour", "Component": "verif.probe.component",
         "Glyph": "verif.probe.glyph", "Groups": "verif.probe.groups"}
CLASSES = ["Contour", "Component", "Glyph", "Groups"]
REPS = {c: BUILTIN[c] + [PROBE[c]] for c in CLASSES}
NAMES = ["A", "B", "C", "D", "E", "F"]
GROUPKEYS = ["public.kern1.O", "public.kern1.H", "public.kern2.O", "public.kern2.H", "other"]

# ---------------------------------------------------------------------------------------
# shapes
# ---------------------------------------------------------------------------------------


def sh_square(x, y, w, h):
    return [[x, y, "line", False], [x + w, y, "line", False], [x + w, y + h, "line", False], [x, y + h, "line", False]]


def sh_tri(x, y, w, h):
    return [[x, y, "line", False], [x + w, y, "line", False], [x, y + h, "line", False]]


def sh_blob(x, y, r):
    k = r // 2
    return [[x + r, y, "curve", True], [x + r, y + k, None, False], [x + k, y + r, None, False],
            [x, y + r, "curve", True], [x - k, y + r, None, False], [x - r, y + k, None, False],
            [x - r, y, "curve", True], [x - r, y - k, None, False], [x - k, y - r, None, False],
            [x, y - r, "curve", True], [x + k, y - r, None, False], [x + r, y - k, None, False]]


def sh_mixed(x, y, w):
    return [[x, y, "line", False], [x + w, y, "line", False], [x + w + 20, y + 20, None, False],
            [x + w + 20, y + 60, None, False], [x + w, y + 80, "curve", False], [x, y + 80, "line", False]]


def sh_quad(x, y, w):
    return [[x, y, "line", False], [x + w, y - 20, None, False], [x + 2 * w, y, "qcurve", False],
            [x + w, y + w, "line", False]]


def sh_open(x, y, w):
    return [[x, y, "move", False], [x + w, y, "line", False], [x + w, y + w, "line", False]]


def gen_shape(rng, quad_ok=True):
    r = rng.random()
    x, y = 2 * rng.randint(-40, 40), 2 * rng.randint(-40, 40)
    w, h = 2 * rng.randint(2, 40), 2 * rng.randint(2, 40)
    if r < 0.42:
        return sh_square(x, y, w, h)
    if r < 0.55:
        return sh_tri(x, y, w, h)
    if r < 0.70:
        return sh_blob(x, y, 4 * rng.randint(2, 15))
    if r < 0.80:
        return sh_mixed(x, y, w)
    if r < 0.87:
        return sh_open(x, y, w)
    if r < 0.92 and quad_ok:
        return sh_quad(x, y, w)
    if r < 0.96:
        return []
    return [[x, y, "move", False]]


def gen_tr(rng):
    r = rng.random()
    if r < 0.5:
        return [1, 0, 0, 1, 2 * rng.randint(-30, 30), 2 * rng.randint(-30, 30)]
    if r < 0.8:
        return [rng.choice([2, -1, 1]), 0, 0, rng.choice([1, 2, -1]), 2 * rng.randint(-30, 30), 2 * rng.randint(-30, 30)]
    return [0, 1, -1, 0, 2 * rng.randint(-10, 10), 0]


# ---------------------------------------------------------------------------------------
# generation
# ---------------------------------------------------------------------------------------


def gen_kw(rng):
    r = rng.random()
    if r < 0.55:
        return {}
    if r < 0.8:
        return {"a": rng.randint(0, 2)}
    if r < 0.9:
        return {"b": rng.randint(0, 1), "a": rng.randint(0, 2)}
    return {"a": rng.randint(0, 2), "b": rng.randint(0, 1)}


def gen_cref(rng, loose_rate=0.15):
    if rng.random() < loose_rate:
        return ["l", rng.randint(0, 3)]
    return ["a", rng.choice(NAMES[:4]), rng.randint(0, 3)]


def gen_oref(rng):
    r = rng.random()
    if r < 0.4:
        return ["c", gen_cref(rng, 0.08)]
    if r < 0.65:
        return ["k", gen_cref(rng, 0.08)]
    if r < 0.9:
        return ["g", rng.choice(NAMES[:4])]
    return ["groups"]


def gen_request(rng):
    r = rng.random()
    o = gen_oref(rng)
    cls = {"c": "Contour", "k": "Component", "g": "Glyph", "groups": "Groups"}[o[0]]
    if r < 0.5:
        i = rng.randrange(len(REPS[cls]))
        name = REPS[cls][i]
        kw = gen_kw(rng) if name.startswith("verif.") else {}
        if name == "defcon.contour.flattened" and rng.random() < 0.5:
            kw = rng.choice([{"approximateSegmentLength": 10}, {"segmentLines": 1, "approximateSegmentLength": 20},
                             {"approximateSegmentLength": 20, "segmentLines": 1}])
        return ["get", o, name, kw]
    if r < 0.72:
        pn = {"Contour": ["bounds", "controlPointBounds", "area", "clockwise"], "Component": ["bounds", "controlPointBounds"],
              "Glyph": ["bounds", "controlPointBounds", "area"], "Groups": []}[cls]
        if pn:
            return ["prop", o, rng.choice(pn)]
        return ["get", o, rng.choice(REPS[cls]), {}]
    if r < 0.86:
        return ["getall"]
    name = rng.choice(REPS[cls])
    kw = gen_kw(rng) if name.startswith("verif.") else {}
    if r < 0.90:
        return ["has", o, name, kw]
    if r < 0.94:
        return ["keys", o]
    if r < 0.98:
        return ["destroy", o, name, kw]
    return ["destroyAll", o]


def gen_pt(rng):
    return [2 * rng.randint(-50, 50), 2 * rng.randint(-50, 50), rng.choice(["line", "line", "line", "curve", None]), False]


def gen_cmut(rng):
    r = rng.random()
    c = gen_cref(rng)
    if r < 0.10:
        return ["c", c, "appendPoint", gen_pt(rng)]
    if r < 0.18:
        return ["c", c, "insertPoint", rng.randint(0, 5), gen_pt(rng)]
    if r < 0.27:
        return ["c", c, "removePoint", rng.randint(0, 5)]
    if r < 0.35:
        return ["c", c, "setStartPoint", rng.randint(0, 5)]
    if r < 0.38:
        return ["c", c, "clear"]
    if r < 0.48:
        return ["c", c, "reverse"]
    if r < 0.59:
        return ["c", c, "removeSegment", rng.randint(0, 4), rng.random() < 0.3]
    if r < 0.70:
        return ["c", c, "split", rng.randint(0, 4), rng.choice([1, 2, 2, 3])]
    if r < 0.82:
        return ["c", c, "move", 2 * rng.randint(-20, 20), 2 * rng.randint(-20, 20)]
    if r < 0.87:
        return ["c", c, "clockwise", rng.random() < 0.5]
    if r < 0.90:
        return ["c", c, "identifier", rng.choice(["id1", "id2", "id3"])]
    if r < 0.92:
        return ["c", c, "genId"]
    if r < 0.94:
        return ["c", c, "genPointId", rng.randint(0, 4)]
    if r < 0.96:
        return ["c", c, "setData", gen_shape(rng)]
    if r < 0.97:
        return ["c", c, "dirty"]
    if r < 0.98:
        return ["c", c, "addPoint", gen_pt(rng)]
    return ["c", c, rng.choice(["insertSame", "removeForeign", "setStartOff"]), rng.randint(0, 4)]


def gen_kmut(rng):
    r = rng.random()
    k = gen_cref(rng)
    if r < 0.3:
        return ["k", k, "baseGlyph", rng.choice(NAMES + [None])]
    if r < 0.6:
        return ["k", k, "transformation", gen_tr(rng)]
    if r < 0.85:
        return ["k", k, "move", 2 * rng.randint(-10, 10), 2 * rng.randint(-10, 10)]
    if r < 0.92:
        return ["k", k, "identifier", rng.choice(["id1", "id4", "id5"])]
    if r < 0.96:
        return ["k", k, "genId"]
    return ["k", k, "dirty"]


def gen_gmut(rng):
    r = rng.random()
    g = rng.choice(NAMES[:4])
    if r < 0.12:
        return ["g", g, "width", rng.choice([0, 100, 200])]
    if r < 0.18:
        return ["g", g, "note", rng.choice([None, "n", "m"])]
    if r < 0.24:
        return ["g", g, "unicodes", rng.choice([[], [65], [65, 66]])]
    if r < 0.44:
        return ["g", g, "move", 2 * rng.randint(-10, 10), 2 * rng.randint(-10, 10)]
    if r < 0.50:
        return ["g", g, "clear"]
    if r < 0.58:
        return ["g", g, "clearContours"]
    if r < 0.65:
        return ["g", g, "clearComponents"]
    if r < 0.77:
        return ["g", g, "decomposeAll"]
    if r < 0.87:
        return ["g", g, "decompose", rng.randint(0, 2)]
    if r < 0.96:
        return ["g", g, "copyFrom", rng.choice(NAMES[:5])]
    return ["g", g, "dirty"]


def gen_same(rng):
    """a call that hands a method the value that is already there (or the state in which its guard makes it a no-op)"""
    r = rng.random()
    if r < 0.30:
        return ["k", gen_cref(rng, 0.05), "transformation", "same"]
    if r < 0.42:
        return ["k", gen_cref(rng, 0.05), "move", 0, 0]
    if r < 0.54:
        return ["k", gen_cref(rng, 0.05), "baseGlyph", "same"]
    if r < 0.66:
        return ["g", rng.choice(NAMES[:4]), rng.choice(["width", "note", "unicodes"]), "same"]
    if r < 0.78:
        return ["groups", "set", rng.choice(GROUPKEYS), "same"]
    if r < 0.88:
        return ["c", gen_cref(rng, 0.05), "identifier", "id1"]
    if r < 0.94:
        return ["c", gen_cref(rng, 0.05), "genId"]
    return ["c", gen_cref(rng, 0.05), "move", 0, 0]


def gen_struct(rng):
    r = rng.random()
    g = rng.choice(NAMES[:4])
    if r < 0.10:
        return ["pen", g, gen_shape(rng)]
    if r < 0.15:
        return ["instc", g, gen_shape(rng)]
    if r < 0.19:
        return ["mkc", gen_shape(rng)]
    if r < 0.31:
        return ["insc", g, rng.randint(0, 3), rng.randint(0, 3)]
    if r < 0.42:
        return ["remc", ["a", g, rng.randint(0, 3)]]
    if r < 0.50:
        return ["instk", g, rng.choice(NAMES), gen_tr(rng)]
    if r < 0.54:
        return ["mkk", rng.choice(NAMES + [None]), gen_tr(rng)]
    if r < 0.64:
        return ["insk", g, rng.randint(0, 3), rng.randint(0, 3)]
    if r < 0.73:
        return ["remk", ["a", g, rng.randint(0, 3)]]
    if r < 0.82:
        return ["newGlyph", rng.choice(NAMES)]
    if r < 0.91:
        return ["delGlyph", rng.choice(NAMES)]
    return ["rename", rng.choice(NAMES), rng.choice(NAMES)]


def gen_churn(rng):
    """base-glyph churn: a name that components reference goes away and comes back"""
    b = rng.choice(NAMES[1:5])
    other = rng.choice([n for n in NAMES if n != b])
    r = rng.random()
    if r < 0.3:
        return [["rename", b, other], ["getall"], ["rename", other, b]]
    if r < 0.5:
        return [["rename", b, other], ["getall"], ["rename", rng.choice(NAMES[:4]), b]]
    if r < 0.8:
        return [["delGlyph", b], ["getall"], ["newGlyph", b], ["getall"], ["pen", b, gen_shape(rng)]]
    edit = rng.choice([["c", ["l", 0], "removePoint", 0], ["c", ["l", 0], "reverse"],
                       ["c", ["l", 0], "appendPoint", gen_pt(rng)], ["c", ["l", 0], "move", 10, 20]])
    return [["remc", ["a", b, 0]], edit, ["insc", b, 0, 0]]


def gen_groups(rng):
    r = rng.random()
    k = rng.choice(GROUPKEYS)
    v = rng.sample(NAMES, rng.randint(0, 3))
    if r < 0.35:
        return ["groups", "set", k, v]
    if r < 0.47:
        return ["groups", "del", k]
    if r < 0.52:
        return ["groups", "clear"]
    if r < 0.64:
        return ["groups", "update", {k: v}]
    if r < 0.76:
        return ["groups", "pop", k]
    if r < 0.84:
        return ["groups", "popitem"]
    if r < 0.94:
        return ["groups", "setdefault", k, v]
    return ["groups", "ior", {k: v}]


def gen_setup(rng):
    """a populated font: 3-5 glyphs with contours, a component chain, some groups"""
    ops = []
    names = NAMES[:rng.randint(3, 5)]
    for n in names:
        ops.append(["newGlyph", n])
    for n in names:
        for _ in range(rng.randint(0, 2)):
            ops.append(["pen", n, gen_shape(rng, quad_ok=rng.random() < 0.3)])
    # acyclic: a component in names[i] may reference names[j], j > i (plus the odd dangling name)
    for i, n in enumerate(names[:-1]):
        for _ in range(rng.randint(0, 2)):
            base = rng.choice(names[i + 1:] + ([NAMES[5]] if rng.random() < 0.2 else []))
            ops.append(["instk", n, base, gen_tr(rng)])
    for _ in range(rng.randint(0, 3)):
        ops.append(gen_groups(rng))
    return ops


def gen_case(rng, maxlen):
    ops = gen_setup(rng)
    if rng.random() < 0.7:
        ops.append(["getall"])
    focus = rng.choice(["c", "k", "g", "s", "groups", "mix", "mix"])
    for _ in range(rng.randint(4, maxlen)):
        r = rng.random()
        if r < 0.42:
            ops.append(gen_request(rng))
            continue
        kind = focus if (focus != "mix" and rng.random() < 0.6) else rng.choice(["c", "c", "k", "g", "s", "s", "groups"])
        if rng.random() < 0.08:
            ops.append(gen_same(rng))
            if rng.random() < 0.7:
                ops.append(["getall"])
        elif kind == "s" and rng.random() < 0.2:
            ops.extend(gen_churn(rng))
        else:
            ops.append({"c": gen_cmut, "k": gen_kmut, "g": gen_gmut, "s": gen_struct, "groups": gen_groups}[kind](rng))
        if rng.random() < 0.25:
            ops.append(["getall"])
    if rng.random() < 0.8:
        ops.append(["getall"])
    return dict(ops=ops)


# ---------------------------------------------------------------------------------------
# user holds / disables, second layer
# ---------------------------------------------------------------------------------------


def gen_inner(rng, focus=None):
    """an operation that is modelled while something is held: request, inner mutator"""
    r = rng.random()
    if r < 0.38:
        return gen_request(rng)
    if r < 0.44:
        return ["getall"]
    kind = focus if (focus and rng.random() < 0.6) else rng.choice(["c", "c", "c", "k", "g", "groups"])
    if kind == "c":
        return gen_cmut(rng)
    if kind == "k":
        op = gen_kmut(rng)
        while op[2] == "baseGlyph":
            op = gen_kmut(rng)
        return op
    if kind == "g":
        g = rng.choice(NAMES[:4])
        rr = rng.random()
        if rr < 0.25:
            return ["g", g, "width", rng.choice([0, 100, 200])]
        if rr < 0.35:
            return ["g", g, "note", rng.choice([None, "n", "m"])]
        if rr < 0.85:
            return ["g", g, "move", 2 * rng.randint(-10, 10), 2 * rng.randint(-10, 10)]
        return ["g", g, "dirty"]
    return gen_groups(rng)


def gen_hold_block(rng, what="hold"):
    """hold (disable) one to three objects, edit and ask, release (enable) them in some order, read everything"""
    un = {"hold": "release", "disable": "enable"}[what]
    refs = []
    for _ in range(rng.choice([1, 1, 1, 2, 2, 3])):
        r = rng.random()
        if r < 0.5:
            refs.append(["c", ["a", rng.choice(NAMES[:4]), rng.randint(0, 2)]])
        elif r < 0.8:
            refs.append(["g", rng.choice(NAMES[:4])])
        elif r < 0.93:
            refs.append(["k", ["a", rng.choice(NAMES[:3]), rng.randint(0, 1)]])
        else:
            refs.append(["groups"])
    ops = [[what, o] for o in refs]
    if rng.random() < 0.25:
        ops.append([what, refs[0]])            # counted: held twice
        refs = refs + [refs[0]]
    focus = rng.choice(["c", "c", "k", "g", None])
    for _ in range(rng.randint(2, 7)):
        ops.append(gen_inner(rng, focus))
    order = list(refs)
    rng.shuffle(order)
    for i, o in enumerate(order):
        ops.append([un, o])
        if rng.random() < 0.4 and i + 1 < len(order):
            ops.append(gen_inner(rng, focus))
    ops.append(["getall"])
    return ops


def gen_hold_case(rng, maxlen, what="hold"):
    ops = gen_setup(rng)
    ops.append(["getall"])
    for _ in range(rng.randint(1, 3)):
        for _ in range(rng.randint(0, 3)):
            ops.append(gen_inner(rng) if rng.random() < 0.7 else gen_struct(rng))
        if rng.random() < 0.5:
            ops.append(["getall"])
        ops.extend(gen_hold_block(rng, what))
    return dict(ops=ops)


def gen_directed_holds(rng):
    """the chain A -> B -> C -> D with every cache filled; ONE object held; one edit below / at / above it; reads inside
    the hold; release; reads"""
    cases = []
    edits = [["c", ["a", "C", 0], "appendPoint", [30, 30, "line", False]],
             ["c", ["a", "C", 0], "move", 10, 20],
             ["c", ["a", "C", 0], "reverse"],
             ["c", ["a", "C", 0], "removePoint", 1],
             ["c", ["a", "C", 0], "dirty"],
             ["c", ["a", "D", 0], "removeSegment", 1, False],
             ["k", ["a", "B", 0], "transformation", [1, 0, 0, 1, 8, 8]],
             ["k", ["a", "B", 0], "move", 4, 4],
             ["g", "C", "move", 6, 6],
             ["g", "C", "width", 333]]
    helds = [["c", ["a", "C", 0]], ["g", "C"], ["k", ["a", "B", 0]], ["g", "B"], ["c", ["a", "D", 0]], ["g", "A"]]
    for what in ("hold", "hold", "disable"):
        un = {"hold": "release", "disable": "enable"}[what]
        for h in helds:
            for e in rng.sample(edits, 4):
                ops = [["newGlyph", n] for n in NAMES[:4]]
                for n in NAMES[:4]:
                    ops.append(["pen", n, sh_square(2 * rng.randint(0, 10), 0, 20, 20)])
                for i in range(3):
                    ops.append(["instk", NAMES[i], NAMES[i + 1], gen_tr(rng)])
                ops.append(["getall"])
                ops.append([what, h])
                ops.append(copy.deepcopy(e))
                ops.append(["getall"])
                if rng.random() < 0.5:
                    ops.append(copy.deepcopy(rng.choice(edits)))
                    ops.append(["getall"])
                ops.append([un, h])
                ops.append(["getall"])
                cases.append(dict(ops=ops))
    return cases


def wrap2(op):
    return ["L2", op]


def gen_layer_case(rng, maxlen):
    """two layers with overlapping glyph names: components of one layer whose base name exists in the other layer
    only, the same name present in both, edits on either side, everything read on both sides"""
    ops = []
    n0 = rng.sample(NAMES[:5], rng.randint(2, 4))
    n1 = rng.sample(NAMES[:5], rng.randint(2, 4))
    for n in n0:
        ops.append(["newGlyph", n])
        if rng.random() < 0.8:
            ops.append(["pen", n, gen_shape(rng, quad_ok=False)])
    for n in n1:
        ops.append(wrap2(["newGlyph", n]))
        if rng.random() < 0.8:
            ops.append(wrap2(["pen", n, gen_shape(rng, quad_ok=False)]))
    # components: base names drawn from the names of EITHER layer
    both = sorted(set(n0) | set(n1))
    for n in n0:
        for _ in range(rng.randint(0, 2)):
            ops.append(["instk", n, rng.choice(both), gen_tr(rng)])
    for n in n1:
        for _ in range(rng.randint(0, 2)):
            ops.append(wrap2(["instk", n, rng.choice(both), gen_tr(rng)]))
    ops.append(["getall"])
    ops.append(wrap2(["getall"]))
    for _ in range(rng.randint(4, maxlen)):
        r = rng.random()
        if r < 0.3:
            op = gen_request(rng)
        elif r < 0.55:
            op = gen_cmut(rng)
        elif r < 0.65:
            op = gen_kmut(rng)
        elif r < 0.75:
            op = gen_gmut(rng)
        else:
            op = gen_struct(rng)
        if rng.random() < 0.5:
            op = wrap2(op)
        ops.append(op)
        if rng.random() < 0.3:
            ops.append(["getall"])
            ops.append(wrap2(["getall"]))
    ops.append(["getall"])
    ops.append(wrap2(["getall"]))
    return dict(ops=ops)


def gen_directed_layers(rng):
    """layer 1: A with a component on X, X missing.  layer 2: X exists.  Everything that happens to layer 2's X
    (edit, rename away and back, delete, re-create) must leave layer 1's component alone - and the other way round."""
    cases = []
    events = [[["c", ["a", "X", 0], "appendPoint", [50, 50, "line", False]]],
              [["c", ["a", "X", 0], "move", 10, 10]],
              [["rename", "X", "Y"]],
              [["rename", "X", "Y"], ["getall"], ["rename", "Y", "X"]],
              [["delGlyph", "X"]],
              [["delGlyph", "X"], ["getall"], ["newGlyph", "X"], ["pen", "X", sh_tri(0, 0, 30, 30)]],
              [["pen", "X", sh_square(0, 0, 60, 60)]],
              [["newGlyph", "Z"], ["instk", "Z", "X", [1, 0, 0, 1, 0, 0]]]]
    for ev in events:
        for flip in (False, True):
            a = (lambda o: o) if not flip else wrap2
            b = wrap2 if not flip else (lambda o: o)
            ops = [a(["newGlyph", "A"]), a(["pen", "A", sh_square(0, 0, 20, 20)]),
                   a(["instk", "A", "X", [1, 0, 0, 1, 10, 10]]),
                   b(["newGlyph", "X"]), b(["pen", "X", sh_square(0, 0, 40, 40)]),
                   b(["newGlyph", "B"]), b(["instk", "B", "X", [2, 0, 0, 2, 0, 0]]),
                   a(["getall"]), b(["getall"])]
            for e in ev:
                ops.append(b(copy.deepcopy(e)))
                ops.append(a(["getall"]))
                ops.append(b(["getall"]))
            # now the name appears in the first layer too
            ops.append(a(["newGlyph", "X"]))
            ops.append(a(["pen", "X", sh_tri(0, 0, 10, 10)]))
            ops.append(a(["getall"]))
            ops.append(b(["getall"]))
            cases.append(dict(ops=ops))
    return cases


ORACLE_ONLY_OPS = ["correctDirection", "contourInside", "insertGlyph", "deserializeGlyph", "layerBounds",
                   "newGlyphOver", "insertGlyphOver", "renameOver", "newGlyphOver"]


def gen_oracle_case(rng, maxlen):
    """public calls the model does not describe (compositions that request representations while they
    mutate, layer-level helpers): judged by the direct oracle only"""
    ops = gen_setup(rng)
    ops.append(["getall"])
    for _ in range(rng.randint(3, maxlen)):
        r = rng.random()
        if r < 0.3:
            ops.append(["x", rng.choice(ORACLE_ONLY_OPS), rng.choice(NAMES[:4]), rng.choice(NAMES)])
        elif r < 0.5:
            ops.append(gen_request(rng))
        else:
            ops.append(rng.choice([gen_cmut, gen_kmut, gen_gmut, gen_struct])(rng))
        if rng.random() < 0.3:
            ops.append(["getall"])
    ops.append(["getall"])
    return dict(ops=ops, model=False)


def gen_directed(rng):
    """setup, fill every cache, ONE mutator, read everything again - for every mutator family"""
    cases = []
    muts = []
    for m in ["appendPoint", "insertPoint", "removePoint", "setStartPoint", "clear", "reverse", "removeSegment",
              "split", "move", "clockwise", "identifier", "genId", "genPointId", "setData", "dirty", "addPoint"]:
        for _ in range(2):
            op = gen_cmut(rng)
            tries = 0
            while op[2] != m and tries < 400:
                op = gen_cmut(rng)
                tries += 1
            if op[2] == m:
                op[1] = ["a", rng.choice(NAMES[1:3]), rng.randint(0, 2)]
                muts.append([op])
    for m in ["baseGlyph", "transformation", "move", "identifier"]:
        op = gen_kmut(rng)
        tries = 0
        while op[2] != m and tries < 400:
            op = gen_kmut(rng)
            tries += 1
        op[1] = ["a", NAMES[0], 0]
        muts.append([op])
    for m in ["width", "move", "clear", "clearContours", "clearComponents", "decomposeAll", "decompose", "copyFrom"]:
        op = gen_gmut(rng)
        tries = 0
        while op[2] != m and tries < 400:
            op = gen_gmut(rng)
            tries += 1
        op[1] = rng.choice(NAMES[1:3])
        muts.append([op])
    for b in NAMES[1:3]:
        muts.append([["delGlyph", b]])
        muts.append([["delGlyph", b], ["getall"], ["newGlyph", b], ["getall"], ["pen", b, sh_square(0, 0, 10, 10)]])
        muts.append([["rename", b, "F"]])
        muts.append([["rename", b, "F"], ["getall"], ["rename", "F", b]])
        muts.append([["rename", b, "F"], ["getall"], ["rename", NAMES[3], b]])
        muts.append([["pen", b, gen_shape(rng)]])
        muts.append([["remc", ["a", b, 0]]])
        muts.append([["remc", ["a", b, 0]], ["c", ["l", 0], "removePoint", 0], ["insc", b, 0, 0]])
        muts.append([["remk", ["a", NAMES[0], 0]], ["k", ["l", 0], "transformation", [1, 0, 0, 1, 40, 40]],
                     ["insk", NAMES[0], 0, 0]])
        muts.append([["instk", b, NAMES[3], gen_tr(rng)]])
    for _ in range(6):
        muts.append([gen_groups(rng)])
    muts.append([["k", ["a", NAMES[0], 0], "transformation", "same"]])
    muts.append([["k", ["a", NAMES[1], 0], "move", 0, 0]])
    muts.append([["k", ["a", NAMES[1], 0], "baseGlyph", "same"]])
    muts.append([["g", NAMES[2], "width", "same"]])
    muts.append([["g", NAMES[1], "unicodes", "same"]])
    muts.append([["groups", "set", "public.kern1.O", "same"]])
    muts.append([["c", ["a", NAMES[2], 0], "identifier", "id1"], ["getall"], ["c", ["a", NAMES[2], 0], "identifier", "id2"]])
    muts.append([["c", ["a", NAMES[2], 0], "genId"], ["getall"], ["c", ["a", NAMES[2], 0], "genId"]])
    for mu in muts:
        ops = [["newGlyph", n] for n in NAMES[:4]]
        # A -> B -> C -> D chain, contours everywhere
        for n in NAMES[:4]:
            ops.append(["pen", n, sh_square(2 * rng.randint(0, 10), 0, 20, 20)])
            ops.append(["pen", n, gen_shape(rng, quad_ok=False)])
        for i in range(3):
            ops.append(["instk", NAMES[i], NAMES[i + 1], gen_tr(rng)])
        ops.append(["groups", "set", "public.kern1.O", ["A", "B"]])
        ops.append(["groups", "set", "public.kern2.O", ["C"]])
        ops.append(["getall"])
        ops.extend(copy.deepcopy(mu))
        ops.append(["getall"])
        cases.append(dict(ops=ops))
    return cases


def gen_reader_case(rng, maxlen):
    """a history during which an observer reads representations inside the callbacks (oracle only: its reads fill
    the caches at moments the model's operation granularity does not have)"""
    c = gen_case(rng, maxlen)
    return dict(ops=c["ops"], model=False, reader=True)


def generate(rng, tier):
    n, maxlen = (170, 26) if tier == "quick" else (4000, 45)
    directed = gen_directed(rng)
    for c in directed:
        yield c
    for c in directed[::2]:
        yield dict(ops=copy.deepcopy(c["ops"]), model=False, reader=True)
    for c in gen_directed_holds(rng):
        yield c
    for c in gen_directed_layers(rng):
        yield c
    nh, nl = (60, 50) if tier == "quick" else (1500, 1200)
    for i in range(nh):
        yield gen_hold_case(rng, maxlen, "disable" if i % 6 == 5 else "hold")
    for i in range(nl):
        yield gen_layer_case(rng, maxlen)
    for i in range(n):
        if i % 10 == 9:
            yield gen_oracle_case(rng, maxlen // 2)
        elif i % 10 in (3, 7):
            yield gen_reader_case(rng, maxlen)
        else:
            yield gen_case(rng, maxlen)


def neighbourhood(case, step, rng):
    """variants around a diverging step: fill every cache before it, read everything after it"""
    pre = len(_prelude())
    i = max(0, step - pre)
    ops = case["ops"]
    yield dict(case, ops=ops[:i] + [["getall"]] + ops[i:i + 1] + [["getall"]])
    yield dict(case, ops=ops[:i + 1] + [["getall"]])
    for j in range(max(0, i - 3), i + 1):
        yield dict(case, ops=ops[:j] + [["getall"]] + ops[j:i + 1] + [["getall"]] + ops[i + 1:i + 3] + [["getall"]])
    yield dict(case, ops=ops + [["getall"]])


def search(rng, tier, broken):
    """directed search when a table obligation broke: one mutator between two full reads, many times"""
    for _ in range(4 if tier == "quick" else 40):
        for c in gen_directed(rng):
            yield c
    for _ in range(200 if tier == "quick" else 3000):
        yield gen_case(rng, 20)


def extract(repo, lean_dir):
    changed, info = repr_extract.extract(repo, lean_dir)
    info = dict(info)
    info["obligations"] = 0
    return changed, info


# ---------------------------------------------------------------------------------------
# probes
# ---------------------------------------------------------------------------------------


def _pts(contour):
    return tuple((p.x, p.y, p.segmentType, p.smooth, p.name, p.identifier) for p in contour)


def _decomposed(layer, glyph, depth=0):
    out = [("c", tuple((p.x, p.y, p.segmentType) for p in c)) for c in glyph]
    for k in glyph.components:
        b = k.baseGlyph
        if b is not None and b in layer and depth < 8:
            out.append(("k", b, tuple(k.transformation), tuple(_decomposed(layer, layer[b], depth + 1))))
        else:
            out.append(("k", b, tuple(k.transformation), None))
    return out


def probe_contour(contour, **kw):
    return ("C", _pts(contour), contour.identifier, tuple(sorted(kw.items())))


def probe_component(component, **kw):
    return ("K", component.baseGlyph, tuple(component.transformation), component.identifier, tuple(sorted(kw.items())))


def probe_glyph(glyph, **kw):
    return ("G", glyph.name, glyph.width, glyph.height, tuple(glyph.unicodes), glyph.note,
            tuple((c.identifier, _pts(c)) for c in glyph),
            tuple((k.identifier,) for k in glyph.components),
            tuple(_decomposed(glyph.layer, glyph)), tuple(sorted(kw.items())))


def probe_groups(groups, **kw):
    return ("R", tuple(sorted((k, tuple(v)) for k, v in groups.items())), tuple(sorted(kw.items())))


PROBE_FN = {"Contour": probe_contour, "Component": probe_component, "Glyph": probe_glyph, "Groups": probe_groups}


def _prelude():
    return [[Atom("register"), c, PROBE[c]] for c in CLASSES]


# ---------------------------------------------------------------------------------------
# value comparison
# ---------------------------------------------------------------------------------------


def canon_value(v):
    """representation value -> plain comparable structure"""
    from defcon.objects.contour import Contour
    if isinstance(v, Contour):
        return ("contour", tuple((p.x, p.y, p.segmentType) for p in v))
    if isinstance(v, dict):
        return ("dict", tuple(sorted((k, canon_value(x)) for k, x in v.items())))
    if isinstance(v, (list, tuple)):
        return tuple(canon_value(x) for x in v)
    return v


def same_value(a, b):
    if isinstance(a, tuple) and isinstance(b, tuple):
        return len(a) == len(b) and all(same_value(x, y) for x, y in zip(a, b))
    if isinstance(a, bool) or isinstance(b, bool):
        return a is b
    if isinstance(a, (int, float)) and isinstance(b, (int, float)):
        if a == b:
            return True
        if float(a).is_integer() and float(b).is_integer():
            return False            # exact on integer-valued results
        return math.isclose(a, b, rel_tol=1e-9, abs_tol=1e-9)
    return type(a) == type(b) and a == b


# ---------------------------------------------------------------------------------------
# implementation adaptor
# ---------------------------------------------------------------------------------------

def enc_subkey(kw):
    if not kw:
        return Atom("none")
    return [Atom("some"), [[k, int(v)] for k, v in sorted(kw.items())]]


def enc_kw(kw):
    return [[k, int(v)] for k, v in kw.items()]


def enc_obj(key):
    """key: (kind, ident) for the first layer, (kind, ident, 1) for the second"""
    if key[0] == "groups":
        return Atom("groups")
    e = [Atom(key[0]), key[1]]
    if len(key) > 2 and key[2]:
        return [Atom("l1"), e]
    return e


def wrap_l1(prim):
    return [Atom("l1"), prim]


CELLS = {"contour": ["contourPoints", "contourIdent"], "comp": ["compData", "compIdent"],
         "glyph": ["glyphAttrs", "glyphContours", "glyphComps"], "groups": ["groupsDict"]}
NO_CELLS = [Atom("cells"), [], []]


OK = Atom("ok")


class _Reader(object):
    """an observer that asks for representations from INSIDE notification callbacks.  It is registered per object and
    per notification name (the centre serves such an observer after the object's own eviction callback), for the
    notifications that destroy a representation of that object and for its `*.Changed`; whatever it is given must
    be what the factory computes from the state the object is in at that moment."""

    def __init__(self, im):
        self.im = im
        self.registered = set()
        self.busy = False

    def names_for(self, c):
        cls = self.im.cls[c]
        names = set([cls.changeNotificationName])
        for name, d in cls.representationFactories.items():
            dn = d.get("destructiveNotifications") or ()
            if isinstance(dn, str):
                dn = (dn,)
            names.update(dn)
        return sorted(names)

    def sync(self):
        for key, obj in self.im.tracked():
            if id(obj) in self.registered or obj.dispatcher is None:
                continue
            c = {"contour": "Contour", "comp": "Component", "glyph": "Glyph", "groups": "Groups"}[key[0]]
            for n in self.names_for(c):
                if not obj.hasObserver(self, n):
                    obj.addObserver(self, "cb", n)
            self.registered.add(id(obj))

    def cb(self, notification):
        im = self.im
        if self.busy or not im.judge:
            return
        obj = notification.object
        key = im.key_of(obj)
        if key[0] == "other" or obj.dispatcher is None:
            return
        c = {"contour": "Contour", "comp": "Component", "glyph": "Glyph", "groups": "Groups"}[key[0]]
        self.busy = True
        counting = im.counting
        im.counting = False
        try:
            for (cc, name) in sorted(im.orig):
                if cc != c:
                    continue
                if c == "Contour" and name == "defcon.contour.flattened" and im.quadratic(obj):
                    continue
                try:
                    want = im.fresh(obj, c, name, {})
                except Exception:
                    continue
                try:
                    got = obj.getRepresentation(name)
                except Exception as e:
                    im.bump("reader.get-raised." + type(e).__name__)
                    continue
                im.bump("reader.reads")
                # judged where the notification being delivered is one that destroys this representation (the object's
                # own callback has run by now); at other notifications of a mutator that is still under way a value
                # cached earlier may legitimately still be there (a default factory lives until `*.Changed`)
                d = im.cls[c].representationFactories[name].get("destructiveNotifications") or ()
                if isinstance(d, str):
                    d = (d,)
                d = tuple(d) or (im.cls[c].changeNotificationName,)
                if notification.name not in d:
                    continue
                im.bump("reader.judged")
                if not same_value(canon_value(got), canon_value(want)):
                    im.viol.append(dict(clause="C03/stale", signature="C03/stale/%s/in-callback-of-%s" % (name, notification.name),
                                        step=im.step, op=im.opname, object=list(key),
                                        cached=repr(canon_value(got))[:300], fresh=repr(canon_value(want))[:300]))
                    im.judge = False
                    return
        finally:
            im.counting = counting
            self.busy = False


class Impl(object):
    def __init__(self, with_model=True):
        import defcon
        from defcon import Font, Contour, Component, Glyph, Groups
        self.defcon = defcon
        self.cls = {"Contour": Contour, "Component": Component, "Glyph": Glyph, "Groups": Groups}
        self.font = Font()
        self.layers = [self.font.layers.defaultLayer, self.font.newLayer("alt")]
        self.cur = 0                  # the layer the current operation works in
        self.groups = self.font.groups
        self.keep = [self.font, self.groups] + self.layers
        self.pool = {}                # id(obj) of a loose contour / component -> layer whose model pool holds its record
        self.uholds = {}              # id(obj) -> (obj, count): the user's holds
        self.udis = {}                # id(obj) -> (obj, count): the user's disables
        self.ever_disabled = False
        self.cobj, self.cidof = {}, {}
        self.kobj, self.kidof = {}, {}
        self.gobj, self.gidof = {}, {}
        self.looseC, self.looseK = [], []
        self.next_id = 1
        self.log = []                 # factory invocations in order: (objkey, name, subkeyrepr)
        self.counting = True
        self.interval = {}            # (objkey, name, subkey) -> runs since the last mutating op
        self.orig = {}
        self.viol = []
        self.lines, self.outs = [], []
        self.stats = {}
        self.step = 0
        self.opname = ""
        self.touched_cached = False
        self.nontrivial = False
        self.with_model = with_model
        self.judge = True             # the oracle is evaluated (off for model_lines and after the first violation)
        self.last_want = None

    @property
    def layer(self):
        return self.layers[self.cur]

    # ---- set-up / tear-down of the shims -------------------------------------------------
    def install(self):
        for c in CLASSES:
            self.defcon.registerRepresentationFactory(self.cls[c], PROBE[c], PROBE_FN[c])
        for c in CLASSES:
            for name, d in self.cls[c].representationFactories.items():
                self.orig[(c, name)] = d["factory"]
                d["factory"] = self._shim(c, name, d["factory"])

    def uninstall(self):
        for (c, name), f in self.orig.items():
            if name in self.cls[c].representationFactories:
                self.cls[c].representationFactories[name]["factory"] = f
        for c in CLASSES:
            if PROBE[c] in self.cls[c].representationFactories:
                self.defcon.unregisterRepresentationFactory(self.cls[c], PROBE[c])

    def _shim(self, c, name, orig):
        def factory(obj, **kw):
            if self.counting and obj.dispatcher is not None:
                key = (self.key_of(obj), name, repr(sorted(kw.items())))
                self.log.append(key)
                self.interval[key] = self.interval.get(key, 0) + 1
            elif self.counting:
                self.log.append((self.key_of(obj), name, repr(sorted(kw.items()))))
            return orig(obj, **kw)
        return factory

    # ---- identities ------------------------------------------------------------------------
    def fresh_id(self):
        i = self.next_id
        self.next_id += 1
        return i

    def lay_of(self, obj):
        """0 / 1: the layer an object lives in (a loose contour / component: the layer whose pool has its record)"""
        i = id(obj)
        if i in self.gidof:
            return 1 if obj.layer is self.layers[1] else 0
        if i in self.cidof or i in self.kidof:
            g = obj.glyph
            if g is not None:
                return 1 if g.layer is self.layers[1] else 0
            return self.pool.get(i, 0)
        return 0

    def key_of(self, obj):
        i = id(obj)
        if i in self.cidof:
            k = ("contour", self.cidof[i])
        elif i in self.kidof:
            k = ("comp", self.kidof[i])
        elif i in self.gidof:
            k = ("glyph", obj.name)
        elif obj is self.groups:
            return ("groups",)
        else:
            return ("other", 0)
        if self.lay_of(obj):
            return k + (1,)
        return k

    def adopt_contour(self, c):
        cid = self.fresh_id()
        self.keep.append(c)
        self.cobj[cid] = c
        self.cidof[id(c)] = cid
        return cid

    def adopt_comp(self, k):
        kid = self.fresh_id()
        self.keep.append(k)
        self.kobj[kid] = k
        self.kidof[id(k)] = kid
        return kid

    def glyph_names(self):
        return sorted(self.layer.keys())

    def tracked(self, only_cur=False):
        """(key, object) of everything alive: the groups, the glyphs of both layers with their contours and components,
        the loose ones.  only_cur: what the current layer's operations address"""
        res = []
        if not only_cur or self.cur == 0:
            res.append((("groups",), self.groups))
        for li, layer in enumerate(self.layers):
            if only_cur and li != self.cur:
                continue
            for name in sorted(layer.keys()):
                g = layer[name]
                res.append((self.key_of(g), g))
                for c in g:
                    res.append((self.key_of(c), c))
                for k in g.components:
                    res.append((self.key_of(k), k))
        for cid in self.looseC:
            c = self.cobj[cid]
            if not only_cur or self.pool.get(id(c), 0) == self.cur:
                res.append((self.key_of(c), c))
        for kid in self.looseK:
            k = self.kobj[kid]
            if not only_cur or self.pool.get(id(k), 0) == self.cur:
                res.append((self.key_of(k), k))
        return res

    def loose_c(self):
        """ids of the loose contours the current layer's operations can address"""
        return [cid for cid in self.looseC if self.pool.get(id(self.cobj[cid]), 0) == self.cur]

    def loose_k(self):
        return [kid for kid in self.looseK if self.pool.get(id(self.kobj[kid]), 0) == self.cur]

    def let_go_c(self, c):
        cid = self.cidof[id(c)]
        self.looseC.append(cid)
        self.pool[id(c)] = self.cur
        return cid

    def let_go_k(self, k):
        kid = self.kidof[id(k)]
        self.looseK.append(kid)
        self.pool[id(k)] = self.cur
        return kid

    # ---- fingerprints of the content cells ----------------------------------------------------------
    def cells_of(self, key, obj):
        kind = key[0]
        if kind == "contour":
            return dict(contourPoints=tuple((p.x, p.y, p.segmentType, bool(p.smooth), p.name) for p in obj),
                        contourIdent=(obj.identifier, tuple(p.identifier for p in obj if p.identifier is not None)))
        if kind == "comp":
            return dict(compData=(obj.baseGlyph, tuple(obj.transformation)), compIdent=obj.identifier)
        if kind == "glyph":
            return dict(glyphAttrs=(obj.name, obj.width, obj.height, tuple(obj.unicodes), obj.note),
                        glyphContours=tuple(self.cidof.get(id(c), -1) for c in obj),
                        glyphComps=tuple(self.kidof.get(id(k), -1) for k in obj.components))
        if kind == "groups":
            return dict(groupsDict=tuple(sorted((k, tuple(v)) for k, v in obj.items())))
        return {}

    def fingerprints(self):
        fp = {}
        for key, obj in self.tracked():
            for cell, v in self.cells_of(key, obj).items():
                fp[(key, cell)] = v
        return fp

    def observed(self, before):
        """the cells (of objects alive before and after) whose fingerprint changed: the `obs` item of a line"""
        after = self.fingerprints()
        out = []
        for kc in sorted(after, key=repr):
            if kc in before and before[kc] != after[kc]:
                out.append([enc_obj(kc[0]), kc[1]])
        return [Atom("obs")] + out

    # ---- resolution of references ------------------------------------------------------------
    def res_glyph(self, name):
        return self.layer[name] if name in self.layer else None

    def res_contour(self, ref):
        if ref[0] == "l":
            lc = self.loose_c()
            if not lc:
                return None
            return self.cobj[lc[ref[1] % len(lc)]]
        g = self.res_glyph(ref[1])
        if g is None or len(g) == 0:
            # fall back to the first glyph (by name) that has contours, so that most ops do something
            for name in self.glyph_names():
                if len(self.layer[name]):
                    g = self.layer[name]
                    break
            else:
                return None
        return g[ref[2] % len(g)]

    def res_comp(self, ref):
        if ref[0] == "l":
            lk = self.loose_k()
            if not lk:
                return None
            return self.kobj[lk[ref[1] % len(lk)]]
        g = self.res_glyph(ref[1])
        if g is None or not g.components:
            for name in self.glyph_names():
                if self.layer[name].components:
                    g = self.layer[name]
                    break
            else:
                return None
        ks = g.components
        return ks[ref[2] % len(ks)]

    def res_obj(self, o):
        if o[0] == "c":
            return self.res_contour(o[1]), "Contour"
        if o[0] == "k":
            return self.res_comp(o[1]), "Component"
        if o[0] == "g":
            return self.res_glyph(o[1]), "Glyph"
        if self.cur:
            return None, "Groups"           # the groups are addressed through the first layer
        return self.groups, "Groups"

    # ---- acyclicity (domain) --------------------------------------------------------------------
    def graph(self, rename=None, extra=None):
        """name -> set of base names, after an optional rename (old, new) and extra edges"""
        edges = {}
        for name in self.glyph_names():
            n2 = rename[1] if rename and name == rename[0] else name
            edges[n2] = set(k.baseGlyph for k in self.layer[name].components if k.baseGlyph is not None)
        for a, b in (extra or []):
            edges.setdefault(a, set()).add(b)
        return edges

    def acyclic(self, edges):
        state = {}

        def visit(n):
            if state.get(n) == 1:
                return False
            if state.get(n) == 2 or n not in edges:
                return True
            state[n] = 1
            for m in edges[n]:
                if not visit(m):
                    return False
            state[n] = 2
            return True
        return all(visit(n) for n in list(edges))

    # ---- observation ---------------------------------------------------------------------------
    def digest(self):
        items = []
        for key, obj in self.tracked():
            ks = obj.representationKeys()
            if ks:
                items.append([enc_obj(key), [Atom("set")] + [[name, enc_subkey(kw)] for name, kw in ks]])
        return [Atom("set")] + items

    def fresh(self, obj, c, name, kw):
        """a fresh call of the registered factory, without side effects on the caches"""
        saved = {n: dict(d) for n, d in obj._representations.items()}
        self.counting = False
        try:
            return self.orig[(c, name)](obj, **kw)
        finally:
            self.counting = True
            obj._representations.clear()
            obj._representations.update(saved)

    def tainted(self):
        """ids of the objects whose cached values the user's holds may legitimately keep stale: a held object, the glyph
        of a held contour / component, every component whose base glyph (in its own layer) is tainted, and so on
        upwards.  Everything else must be fresh even while something is held."""
        t = set(self.uholds)
        changed = True
        while changed:
            changed = False
            for layer in self.layers:
                for name in layer.keys():
                    g = layer[name]
                    kids = list(g) + list(g.components)
                    if id(g) not in t and any(id(x) in t for x in kids):
                        t.add(id(g))
                        changed = True
                    for k in g.components:
                        b = k.baseGlyph
                        if id(k) not in t and b is not None and b in layer and id(layer[b]) in t:
                            t.add(id(k))
                            changed = True
        return t

    def exempt(self, obj):
        if self.ever_disabled:
            return True
        return bool(self.uholds) and id(obj) in self.tainted()

    def sweep(self, site):
        """oracle clause `stale`: every cached value of every attached object is what the factory computes now.
        While the user holds notifications the objects above a held one are exempt (the property quantifies over
        mutators and requests, not over the notification controls); after a disable nothing is judged any more."""
        if not self.judge or self.ever_disabled:
            return
        exempt = self.tainted() if self.uholds else ()
        for key, obj in self.tracked():
            if obj.dispatcher is None:
                continue
            c = {"contour": "Contour", "comp": "Component", "glyph": "Glyph", "groups": "Groups"}[key[0]]
            for name, kw in obj.representationKeys():
                if (c, name) not in self.orig:
                    continue
                cached = obj.getRepresentation(name, **kw)
                try:
                    want = self.fresh(obj, c, name, kw)
                except Exception as e:        # the factory cannot run now: nothing to compare with
                    self.bump("oracle.fresh-raised." + type(e).__name__)
                    continue
                if id(obj) in exempt:
                    # counted, not judged: how often a user hold really keeps a stale value around
                    self.bump("hold.entries-above-a-held-object")
                    if not same_value(canon_value(cached), canon_value(want)):
                        self.bump("hold.stale-inside-user-hold")
                    continue
                if not same_value(canon_value(cached), canon_value(want)):
                    self.viol.append(dict(clause="C03/stale", signature="C03/stale/%s/%s" % (name, site),
                                          step=self.step, op=self.opname, object=list(key), kwargs=kw,
                                          cached=repr(canon_value(cached))[:300], fresh=repr(canon_value(want))[:300]))
                    return

    def begin_op(self):
        """what had run / was cached when the operation started: a mutator that first reads a representation of the
        state it is about to change (Contour.reverse reads the old direction) runs the factory for the OLD state; that
        run belongs to the interval the change ends, not to the one it begins"""
        self.interval_before = dict(self.interval)
        self.cached_before = set()
        for _, obj in self.tracked():
            try:
                for name, kw in obj.representationKeys():
                    self.cached_before.add((self.key_of(obj), name, repr(sorted(kw.items()))))
            except Exception:
                pass

    def check_runs(self, site, mutating=False):
        if not self.judge or self.no_runs_clause:
            return
        for (key, name, sk), n in self.interval.items():
            before = self.interval_before.get((key, name, sk), 0)
            if mutating:
                # runs inside the mutator: a value that was cached when it started can only run again after the change
                # evicted it (that run opens the next interval); otherwise one run may belong to the old state
                n -= before
                if before == 0 and (key, name, sk) not in self.cached_before and n >= 1:
                    n -= 1
                if before > 1:
                    n = before
            if n > 1 and key[0] != "other":
                obj = self.obj_of(key)
                if obj is not None and obj.dispatcher is not None:
                    self.viol.append(dict(clause="C03/runs-once", signature="C03/runs-once/%s/%s" % (name, site),
                                          step=self.step, op=self.opname, object=list(key), kwargs=sk, runs=n))
                    self.interval[(key, name, sk)] = 1
                    return

    def obj_of(self, key):
        if key[0] == "contour":
            return self.cobj.get(key[1])
        if key[0] == "comp":
            return self.kobj.get(key[1])
        if key[0] == "glyph":
            layer = self.layers[1 if len(key) > 2 and key[2] else 0]
            return layer[key[1]] if key[1] in layer else None
        if key[0] == "groups":
            return self.groups
        return None

    def bump(self, k, n=1):
        self.stats[k] = self.stats.get(k, 0) + n

    # ---- requests ----------------------------------------------------------------------------------
    def do_get(self, obj, c, name, kw, site):
        """one getRepresentation call -> (model primitive, impl result); call flatten_ok first"""
        key = self.key_of(obj)
        want = self.last_want
        self.last_want = None
        before = len(self.log)
        had = obj.hasCachedRepresentation(name, **kw)
        got = obj.getRepresentation(name, **kw)
        n = len(self.log) - before
        if obj.dispatcher is not None:
            if self.judge:
                if want is None:
                    want = (self.fresh(obj, c, name, kw),)
                if not self.exempt(obj) and not same_value(canon_value(got), canon_value(want[0])):
                    self.viol.append(dict(clause="C03/stale", signature="C03/stale/%s/%s" % (name, site),
                                          step=self.step, op=self.opname, object=list(key), kwargs=kw,
                                          cached=repr(canon_value(got))[:300], fresh=repr(canon_value(want[0]))[:300]))
                if kw and not obj.hasCachedRepresentation(name, **kw):
                    self.viol.append(dict(clause="C03/separate", signature="C03/separate/%s/not-stored" % name,
                                          step=self.step, op=self.opname, object=list(key), kwargs=kw))
            if self.touched_cached:
                self.nontrivial = True
        self.bump("get.hit" if (had and n == 0) else "get.miss")
        self.bump("get." + name.split(".")[-1])
        if kw:
            self.bump("get.kwargs")
        return [Atom("get"), enc_obj(key[:2]), name, enc_kw(kw)], [Atom("got"), n]

    def quadratic(self, contour):
        return any(p.segmentType == "qcurve" for p in contour) or (len(contour) > 0 and all(p.segmentType is None for p in contour))

    def flatten_ok(self, obj, c, name, kw=None):
        """can the factory run at all on this object now?  (third-party limits: FlattenPen raises on quadratic
        outlines, the flattened factory raises IndexError when nothing is drawn, AreaPen refuses open contours
        in a glyph, a loose component has no layer) - requests the factory cannot answer are not made.
        Leaves the fresh value in self.last_want."""
        self.last_want = None
        if c == "Contour" and name == "defcon.contour.flattened" and self.quadratic(obj):
            return False
        try:
            self.last_want = (self.fresh(obj, c, name, kw or {}),)
        except Exception as e:
            self.bump("factory-cannot-run." + type(e).__name__)
            return False
        return True

    # ---- structural diff of a glyph (compound mutators) ---------------------------------------
    def snap(self, g):
        return [id(c) for c in g], [id(k) for k in g.components]

    def diff_prims(self, g, before):
        """primitives that turn the child lists `before` of glyph g into the current ones"""
        gid = g.name
        prims = []
        bc, bk = before
        nowc, nowk = [id(c) for c in g], [id(k) for k in g.components]
        for i in reversed(bc):
            if i not in nowc:
                cid = self.cidof[i]
                prims.append([Atom("remContour"), gid, cid])
                self.looseC.append(cid)
                self.pool[i] = self.cur
        for i in reversed(bk):
            if i not in nowk:
                kid = self.kidof[i]
                prims.append([Atom("remComp"), gid, kid])
                self.looseK.append(kid)
                self.pool[i] = self.cur
        for idx, c in enumerate(g):
            if id(c) not in bc:
                if id(c) in self.cidof:
                    cid = self.cidof[id(c)]
                    self.looseC.remove(cid)
                else:
                    cid = self.adopt_contour(c)
                    prims.append([Atom("mkContour"), cid])
                prims.append([Atom("insContour"), gid, cid, idx])
        for idx, k in enumerate(g.components):
            if id(k) not in bk:
                if id(k) in self.kidof:
                    kid = self.kidof[id(k)]
                    self.looseK.remove(kid)
                else:
                    kid = self.adopt_comp(k)
                    prims.append([Atom("mkComp"), kid, opt(k.baseGlyph)])
                prims.append([Atom("insComp"), gid, kid, idx])
        return prims

    # ---- one operation ----------------------------------------------------------------------------
    def make_pt(self, p):
        from defcon import Point
        return Point((p[0], p[1]), segmentType=p[2], smooth=bool(p[3]))

    def fill(self, contour, shape):
        for p in shape:
            contour.appendPoint(self.make_pt(p))

    def held_any(self):
        return bool(self.uholds) or bool(self.udis)

    STRUCTURAL = ("newGlyph", "delGlyph", "rename", "pen", "instc", "insc", "remc", "instk", "insk", "remk", "x")

    def do(self, op):
        """-> (list of model items, list of impl results, mutating?)   None = skipped"""
        if op[0] == "L2":
            self.cur = 1
            try:
                r = self.do(op[1])
            finally:
                self.cur = 0
            if r is None:
                return None
            return [wrap_l1(p) for p in r[0]], r[1], r[2]
        if op[0] in ("hold", "release", "disable", "enable"):
            return self.do_hold(op[0], op[1])
        if self.held_any():
            # domain of the hold model: while the user holds or disables anything, only requests, cache calls and
            # the inner mutators (no object changes its glyph, no base name or glyph name changes)
            if op[0] in self.STRUCTURAL:
                return None
            if op[0] == "k" and op[2] == "baseGlyph":
                return None
            if op[0] == "g" and op[2] in ("clear", "clearContours", "clearComponents", "decomposeAll", "decompose", "copyFrom"):
                return None
        return self._do(op)

    def do_hold(self, what, oref):
        obj, c = self.res_obj(oref)
        if obj is None:
            return None
        key = self.key_of(obj)
        book = self.uholds if what in ("hold", "release") else self.udis
        i = id(obj)
        if what in ("release", "enable"):
            if i not in book:
                return None                      # releasing what is not held raises KeyError in the centre: not requested
            if obj.dispatcher is None:
                return None
            n = book[i][1] - 1
            if n:
                book[i] = (obj, n)
            else:
                del book[i]
            if what == "release":
                obj.releaseHeldNotifications()
            else:
                obj.enableNotifications()
            self.bump("user." + what)
            return [[Atom(what), enc_obj(key[:2])]], [OK], True
        if obj.dispatcher is None:
            return None
        if sum(n for _, n in book.values()) >= 3:
            return None
        book[i] = (obj, book.get(i, (obj, 0))[1] + 1)
        if what == "hold":
            obj.holdNotifications(note="held by the C03 harness")
        else:
            obj.disableNotifications()
            self.ever_disabled = True
        self.bump("user." + what)
        return [[Atom(what), enc_obj(key[:2])]], [OK], True

    def _do(self, op):
        k = op[0]
        L = self.layer
        if k == "getall":
            prims, res = [], []
            for key, obj in self.tracked(only_cur=True):
                c = {"contour": "Contour", "comp": "Component", "glyph": "Glyph", "groups": "Groups"}[key[0]]
                for name in REPS[c]:
                    if not self.flatten_ok(obj, c, name):
                        continue
                    p, r = self.do_get(obj, c, name, {}, "getall")
                    prims.append(p)
                    res.append(r)
            return prims, res, False
        if k == "get":
            obj, c = self.res_obj(op[1])
            if obj is None or op[2] not in REPS[c] or not self.flatten_ok(obj, c, op[2], dict(op[3])):
                return None
            p, r = self.do_get(obj, c, op[2], dict(op[3]), "get")
            return [p], [r], False
        if k == "prop":
            obj, c = self.res_obj(op[1])
            if obj is None:
                return None
            return self.do_prop(obj, c, op[2])
        if k in ("has", "keys", "destroy", "destroyAll"):
            obj, c = self.res_obj(op[1])
            if obj is None:
                return None
            key = self.key_of(obj)
            if k == "has":
                b = obj.hasCachedRepresentation(op[2], **dict(op[3]))
                return [[Atom("has"), enc_obj(key[:2]), op[2], enc_kw(op[3])]], [bool(b)], False
            if k == "keys":
                ks = obj.representationKeys()
                return [[Atom("keys"), enc_obj(key[:2])]], [[Atom("set")] + [[n, enc_subkey(kw)] for n, kw in ks]], False
            # explicit destruction legitimately makes the next request recompute: it ends the interval
            if k == "destroy":
                obj.destroyRepresentation(op[2], **dict(op[3]))
                return [[Atom("destroy"), enc_obj(key[:2]), op[2], enc_kw(op[3])]], [OK], True
            obj.destroyAllRepresentations()
            return [[Atom("destroyAll"), enc_obj(key[:2])]], [OK], True
        # ------------------------------------------------------------------ layer level
        if k == "newGlyph":
            if op[1] in L:
                return None                     # domain: never replace a present glyph (F16)
            g = L.newGlyph(op[1])
            gid = self.fresh_id()
            self.keep.append(g)
            self.gobj[gid] = g
            self.gidof[id(g)] = gid
            return [[Atom("newGlyph"), op[1]]], [OK], True
        if k == "delGlyph":
            if op[1] not in L:
                return None
            g = L[op[1]]
            for c in g:
                self.cobj.pop(self.cidof[id(c)], None)
            for kk in g.components:
                self.kobj.pop(self.kidof[id(kk)], None)
            self.gobj.pop(self.gidof[id(g)], None)
            del L[op[1]]
            return [[Atom("delGlyph"), op[1]]], [OK], True
        if k == "rename":
            if op[1] not in L or op[2] in L or op[1] == op[2]:
                return None
            if not self.acyclic(self.graph(rename=(op[1], op[2]))):
                return None
            g = L[op[1]]
            g.name = op[2]
            return [[Atom("rename"), op[1], op[2]]], [OK], True
        # ------------------------------------------------------------------ contours in / out
        if k in ("pen", "instc"):
            g = self.res_glyph(op[1])
            if g is None:
                return None
            before = self.snap(g)
            if k == "pen":
                pen = g.getPointPen()
                pen.beginPath()
                for p in op[2]:
                    pen.addPoint((p[0], p[1]), segmentType=p[2], smooth=bool(p[3]))
                pen.endPath()
            else:
                c = g.instantiateContour()
                self.fill(c, op[2])
                g.appendContour(c)
            prims = self.diff_prims(g, before)
            return prims, [OK] * len(prims), True
        if k == "mkc":
            from defcon import Contour
            c = Contour()
            self.fill(c, op[1])
            cid = self.adopt_contour(c)
            self.looseC.append(cid)
            self.pool[id(c)] = self.cur
            return [[Atom("mkContour"), cid]], [OK], True
        if k == "insc":
            g = self.res_glyph(op[1])
            if g is None or not self.looseC:
                return None
            cid = self.looseC[op[3] % len(self.looseC)]
            c = self.cobj[cid]
            ids = g.identifiers
            if (c.identifier is not None and c.identifier in ids) or any(
                    p.identifier is not None and p.identifier in ids for p in c):
                return None                     # identifier clash: C10's business
            idx = op[2] % (len(g) + 1)
            g.insertContour(idx, c)
            self.looseC.remove(cid)
            return [[Atom("insContour"), g.name, cid, idx]], [OK], True
        if k == "remc":
            c = self.res_contour(op[1])
            if c is None or c.glyph is None:
                return None
            g = c.glyph
            g.removeContour(c)
            cid = self.let_go_c(c)
            return [[Atom("remContour"), g.name, cid]], [OK], True
        # ------------------------------------------------------------------ components in / out
        if k == "instk":
            g = self.res_glyph(op[1])
            if g is None:
                return None
            if not self.acyclic(self.graph(extra=[(g.name, op[2])])):
                return None
            before = self.snap(g)
            comp = g.instantiateComponent()
            comp.baseGlyph = op[2]
            comp.transformation = tuple(op[3])
            g.appendComponent(comp)
            prims = self.diff_prims(g, before)
            return prims, [OK] * len(prims), True
        if k == "mkk":
            from defcon import Component
            comp = Component()
            comp.baseGlyph = op[1]
            comp.transformation = tuple(op[2])
            kid = self.adopt_comp(comp)
            self.looseK.append(kid)
            self.pool[id(comp)] = self.cur
            return [[Atom("mkComp"), kid, opt(op[1])]], [OK], True
        if k == "insk":
            g = self.res_glyph(op[1])
            if g is None or not self.looseK:
                return None
            kid = self.looseK[op[3] % len(self.looseK)]
            comp = self.kobj[kid]
            if comp.identifier is not None and comp.identifier in g.identifiers:
                return None
            if comp.baseGlyph is not None and not self.acyclic(self.graph(extra=[(g.name, comp.baseGlyph)])):
                return None
            idx = op[2] % (len(g.components) + 1)
            g.insertComponent(idx, comp)
            self.looseK.remove(kid)
            return [[Atom("insComp"), g.name, kid, idx]], [OK], True
        if k == "remk":
            comp = self.res_comp(op[1])
            if comp is None or comp.glyph is None:
                return None
            g = comp.glyph
            g.removeComponent(comp)
            kid = self.let_go_k(comp)
            return [[Atom("remComp"), g.name, kid]], [OK], True
        if k == "c":
            c = self.res_contour(op[1])
            if c is None:
                return None
            return self.do_contour(c, op[2], op[3:])
        if k == "k":
            comp = self.res_comp(op[1])
            if comp is None:
                return None
            return self.do_comp(comp, op[2], op[3:])
        if k == "g":
            g = self.res_glyph(op[1])
            if g is None:
                return None
            return self.do_glyph(g, op[2], op[3:])
        if k == "groups":
            return self.do_groups(op[1], op[2:])
        if k == "x":
            return self.do_unmodelled(op[1], op[2], op[3])
        raise ValueError(op)

    # ---- property reads -----------------------------------------------------------------------
    def do_prop(self, obj, c, pname):
        key = self.key_of(obj)
        if c in ("Contour", "Component"):
            nm = {"bounds": "bounds", "controlPointBounds": "controlPointBounds", "area": "area", "clockwise": "area"}[pname]
            if not self.flatten_ok(obj, c, "defcon.%s.%s" % (c.lower(), nm)):
                return None
        if c in ("Contour", "Component"):
            name = "defcon.%s.%s" % (c.lower(), "area" if pname == "clockwise" else pname)
            want = self.last_want[0]
            before = len(self.log)
            got = getattr(obj, pname)
            n = len(self.log) - before
            if pname == "area":
                want = abs(want)
            if pname == "clockwise":
                want = want < 0
            if self.judge and obj.dispatcher is not None and not self.exempt(obj) and not same_value(
                    canon_value(got), canon_value(want)):
                self.viol.append(dict(clause="C03/stale", signature="C03/stale/%s/prop.%s" % (name, pname), step=self.step,
                                      op=self.opname, object=list(key), cached=repr(got)[:200], fresh=repr(want)[:200]))
            if obj.dispatcher is not None and self.touched_cached:
                self.nontrivial = True
            self.bump("prop.%s.%s" % (c.lower(), pname))
            return [[Atom("get"), enc_obj(key[:2]), name, []]], [[Atom("got"), n]], False
        if c == "Glyph":
            if pname == "area":
                if not self.flatten_ok(obj, c, "defcon.glyph.area"):
                    return None
                p, r = self.do_get(obj, c, "defcon.glyph.area", {}, "prop.area")
                return [p], [r], False
            # bounds / controlPointBounds: the union over every contour's and component's representation
            from fontTools.misc.arrayTools import unionRect
            kids = [(x, "Contour", "defcon.contour." + pname) for x in obj] + \
                   [(x, "Component", "defcon.component." + pname) for x in obj.components]
            if not all(self.flatten_ok(x, xc, xn) for x, xc, xn in kids):
                return None
            before = len(self.log)
            got = getattr(obj, pname)
            entries = self.log[before:]
            want = None
            prims, res = [], []
            for x, xc, xn in kids:
                kx = self.key_of(x)
                if self.judge:
                    b = self.fresh(x, xc, xn, {})
                    if b is not None:
                        want = b if want is None else unionRect(want, b)
                prims.append([Atom("get"), enc_obj(kx[:2]), xn, []])
                res.append([Atom("got"), sum(1 for e in entries if e[0] == kx and e[1] == xn)])
            if self.judge and not self.exempt(obj) and not same_value(canon_value(got), canon_value(want)):
                self.viol.append(dict(clause="C03/stale", signature="C03/stale/glyph.%s/prop" % pname, step=self.step,
                                      op=self.opname, object=list(key), cached=repr(got)[:200], fresh=repr(want)[:200]))
            self.bump("prop.glyph." + pname)
            return prims, res, False
        return None

    # ---- public calls: (receiver, mutator, eff | same) -------------------------------------------------
    # `same` = the condition of the method's no-op guard holds in the state before the call (equal value, open
    # contour, empty dict ...), evaluated here on the real objects; what a `same` call does - nothing, or everything
    # but a rewrite - and which cells an effective call rewrites is decided by the table in lean/DefconModel/ReprCells.lean
    # methods that compare first and return: called with what is already there they change nothing and must not cost a
    # cached value (oracle clause runs-once: such a call is not a change).  The other mutators post whatever they are given.
    COMPARES_FIRST = {"setStartPoint", "_set_clockwise", "_set_identifier", "generateIdentifier", "generateIdentifierForPoint",
                      "_set_baseGlyph", "_set_transformation", "_set_width", "_set_height", "_set_note", "_set_unicodes",
                      "decomposeAllComponents", "__setitem__", "pop", "setdefault"}

    def call(self, obj, meth, eff=True, arg=None):
        if not eff and (meth in self.COMPARES_FIRST or (meth in ("move", "clear") and obj is not None and
                                                        type(obj).__name__ in ("Component", "Groups"))):
            self.noop_calls += 1
        else:
            self.real_calls += 1
        item = [Atom("call"), enc_obj(self.key_of(obj)[:2]), meth, Atom("eff" if eff else "same")]
        if arg is not None:
            item.append(arg)
        return item

    # ---- contour mutators -------------------------------------------------------------------
    def do_contour(self, c, meth, args):
        from defcon import Point
        cid = self.cidof[id(c)]
        n = len(c)

        def cm(m, eff=True):
            return self.call(c, m, eff)
        self.bump("c." + meth)
        try:
            if meth in ("appendPoint", "addPoint"):
                p = args[0]
                if meth == "appendPoint":
                    c.appendPoint(self.make_pt(p))
                else:
                    c.addPoint((p[0], p[1]), segmentType=p[2], smooth=bool(p[3]))
                return [cm(meth)], [OK], True
            if meth == "insertPoint":
                c.insertPoint(args[0] % (n + 1), self.make_pt(args[1]))
                return [cm(meth)], [OK], True
            if meth == "removePoint":
                if n == 0:
                    return None
                pt = c[args[0] % n]
                if pt.identifier is not None and c.glyph is None:
                    return None     # removePoint on a glyph-less contour raises KeyError for an identified point
                                    # (identifier bookkeeping, C10's slice) - not requested here
                c.removePoint(pt)
                return [cm(meth)], [OK], True
            if meth == "setStartPoint":
                if n == 0:
                    return None
                idx = args[0] % n
                on = [i for i, p in enumerate(c) if p.segmentType is not None]
                if len(on) < 2 or c.open:
                    c.setStartPoint(idx)
                    return [cm(meth, False)], [OK], True
                idx = on[args[0] % len(on)]
                c.setStartPoint(idx)
                return [cm(meth)], [OK], True
            if meth == "setStartOff":
                on = [i for i, p in enumerate(c) if p.segmentType is not None]
                off = [i for i, p in enumerate(c) if p.segmentType is None]
                if len(on) < 2 or c.open or not off:
                    return None
                c.setStartPoint(off[args[0] % len(off)])       # AssertionError
                return [cm("setStartPoint")], [OK], True
            if meth == "insertSame":
                if n == 0:
                    return None
                c.insertPoint(0, c[args[0] % n])               # AssertionError
                return [cm("insertPoint")], [OK], True
            if meth == "removeForeign":
                c.removePoint(Point((0, 0)))                   # ValueError
                return [cm("removePoint")], [OK], True
            if meth == "clear":
                c.clear()
                return [cm(meth, n > 0)], [OK], True
            if meth == "reverse":
                if n == 0 or not self.flatten_ok(c, "Contour", "defcon.contour.area"):
                    return None             # reverse() reads self.clockwise first: the area factory must be able to run
                c.reverse()
                return [cm(meth)], [OK], True
            if meth == "removeSegment":
                segs = c.segments
                if len(segs) < 2:
                    return None
                i = args[0] % len(segs)
                c.removeSegment(i, preserveCurve=bool(args[1]))
                return [cm(meth)], [OK], True
            if meth == "split":
                segs = c.segments
                if len(segs) < 2:
                    return None
                i = args[0] % len(segs)
                if segs[i][-1].segmentType not in ("line", "curve"):
                    return None
                if segs[i][-1].segmentType == "curve" and len(segs[i]) != 3:
                    return None
                c.splitAndInsertPointAtSegmentAndT(i, args[1] / 4.0)
                return [cm("splitAndInsertPointAtSegmentAndT")], [OK], True
            if meth == "move":
                c.move((args[0], args[1]))
                return [self.call(c, "move", (args[0], args[1]) != (0, 0) and n > 0, [Atom("delta"), args[0], args[1]])], [OK], True
            if meth == "clockwise":
                if n == 0 or not self.flatten_ok(c, "Contour", "defcon.contour.area"):
                    return None
                before = len(self.log)
                cur = c.clockwise
                nn = len(self.log) - before
                prims = [[Atom("get"), enc_obj(("contour", cid)), "defcon.contour.area", []]]
                res = [[Atom("got"), nn]]
                c.clockwise = bool(args[0])
                prims.append(cm("_set_clockwise", cur != bool(args[0])))
                res.append(OK)
                return prims, res, True
            if meth == "identifier":
                if c.identifier is not None or args[0] is None:
                    c.identifier = args[0]
                    return [cm("_set_identifier", False)], [OK], True
                if args[0] in c.identifiers:
                    c.identifier = args[0]                     # AssertionError
                c.identifier = args[0]
                return [cm("_set_identifier")], [OK], True
            if meth == "genId":
                eff = c.identifier is None
                c.generateIdentifier()
                return [cm("generateIdentifier", eff)], [OK], True
            if meth == "genPointId":
                if n == 0:
                    return None
                pt = c[args[0] % n]
                eff = pt.identifier is None
                c.generateIdentifierForPoint(pt)
                return [cm("generateIdentifierForPoint", eff)], [OK], True
            if meth == "setData":
                pen = [("beginPath", (), {"identifier": None})]
                for p in args[0]:
                    pen.append(("addPoint", ((p[0], p[1]),), dict(segmentType=p[2], smooth=bool(p[3]))))
                pen.append(("endPath", (), {}))
                c.setDataFromSerialization({"pen": pen})
                return [cm("setDataFromSerialization")], [OK], True
            if meth == "dirty":
                c.dirty = True
                return [cm("_set_dirty")], [OK], True
        except (AssertionError, ValueError, IndexError, NotImplementedError) as e:
            self.bump("err." + type(e).__name__)
            return [], [], True
        raise ValueError(meth)

    # ---- component mutators -----------------------------------------------------------------
    def do_comp(self, comp, meth, args):
        self.bump("k." + meth)

        def km(m, eff=True):
            return self.call(comp, m, eff)
        try:
            if meth == "baseGlyph":
                new = args[0]
                if new == "same":
                    new = comp.baseGlyph
                if new == comp.baseGlyph:
                    comp.baseGlyph = new
                    return [self.call(comp, "_set_baseGlyph", False, [Atom("base"), opt(new)])], [OK], True
                g = comp.glyph
                if g is not None and new is not None and g.name in self.layer:
                    rest = [(g.name, k.baseGlyph) for k in g.components if k is not comp and k.baseGlyph is not None]
                    edges = self.graph()
                    edges[g.name] = set(b for _, b in rest) | {new}
                    if not self.acyclic(edges):
                        return None
                comp.baseGlyph = new
                return [self.call(comp, "_set_baseGlyph", True, [Atom("base"), opt(new)])], [OK], True
            if meth == "transformation":
                new = comp.transformation if args[0] == "same" else tuple(args[0])
                eff = new != comp.transformation
                comp.transformation = new
                return [km("_set_transformation", eff)], [OK], True
            if meth == "move":
                eff = (args[0], args[1]) != (0, 0)
                comp.move((args[0], args[1]))
                return [km("move", eff)], [OK], True
            if meth == "identifier":
                if comp.identifier is not None or args[0] is None:
                    comp.identifier = args[0]
                    return [km("_set_identifier", False)], [OK], True
                comp.identifier = args[0]
                return [km("_set_identifier")], [OK], True
            if meth == "genId":
                eff = comp.identifier is None
                comp.generateIdentifier()
                return [km("generateIdentifier", eff)], [OK], True
            if meth == "dirty":
                comp.dirty = True
                return [km("_set_dirty")], [OK], True
        except (AssertionError, ValueError) as e:
            self.bump("err." + type(e).__name__)
            return [], [], True
        raise ValueError(meth)

    # ---- glyph mutators -----------------------------------------------------------------------
    def do_glyph(self, g, meth, args):
        self.bump("g." + meth)

        def gm(m, eff=True, arg=None):
            return self.call(g, m, eff, arg)
        if meth in ("width", "height", "note", "unicodes"):
            if args[0] == "same":
                args = [getattr(g, meth)]
            eff = getattr(g, meth) != args[0]
            setattr(g, meth, args[0])
            return [gm("_set_" + meth, eff)], [OK], True
        if meth == "dirty":
            g.dirty = True
            return [gm("_set_dirty")], [OK], True
        if meth == "move":
            dx, dy = args
            g.move((dx, dy))
            return [gm("move", True, [Atom("delta"), dx, dy])], [OK], True
        had_image = g._image is not None
        if meth in ("clear", "clearContours", "clearComponents"):
            for c in list(g) if meth != "clearComponents" else []:
                self.let_go_c(c)
            for k in list(g.components) if meth != "clearContours" else []:
                self.let_go_k(k)
            getattr(g, meth)()
            items = [gm(meth)]
            if meth == "clear" and had_image:
                items.append(gm("clearImage"))        # `self.image = None` posts when an Image object exists
            return items, [OK] * len(items), True
        before = self.snap(g)
        if meth == "decomposeAll":
            if not g.components:
                g.decomposeAllComponents()
                return [gm("decomposeAllComponents", False)], [OK], True
            g.decomposeAllComponents()
        elif meth == "decompose":
            if not g.components:
                return None
            g.decomposeComponent(g.components[args[0] % len(g.components)])
        elif meth == "copyFrom":
            src = self.res_glyph(args[0])
            if src is None or src is g:
                return None
            extra = [(g.name, k.baseGlyph) for k in src.components if k.baseGlyph is not None]
            if not self.acyclic(self.graph(extra=extra)):
                return None
            ids = g.identifiers
            if any(c.identifier in ids for c in src if c.identifier) or any(
                    p.identifier in ids for c in src for p in c if p.identifier) or any(
                    k.identifier in ids for k in src.components if k.identifier):
                return None
            g.copyDataFromGlyph(src)
        else:
            raise ValueError(meth)
        # the structural effect of these three (new objects with new ids) is read off the implementation
        prims = self.diff_prims(g, before)
        if meth in ("decomposeAll", "decompose"):
            prims.append(gm("decomposeComponent" if meth == "decompose" else "decomposeAllComponents"))
        if meth == "copyFrom":
            prims.append(gm("copyDataFromGlyph"))
        return prims, [OK] * len(prims), True

    # ---- groups -----------------------------------------------------------------------------------
    def do_groups(self, meth, args):
        if self.cur:
            return None
        G = self.groups
        self.bump("groups." + meth)

        def gs(m, eff=True):
            return self.call(G, m, eff)
        try:
            if meth == "set":
                k, v = args
                if v == "same":
                    if k not in G:
                        return None
                    v = list(G[k])
                eff = not (k in G and v is not None and G[k] == v)
                G[k] = list(v)
                return [gs("__setitem__", eff)], [OK], True
            if meth == "del":
                if args[0] not in G:
                    return None
                del G[args[0]]
                return [gs("__delitem__")], [OK], True
            if meth == "clear":
                eff = len(G) > 0
                G.clear()
                return [gs("clear", eff)], [OK], True
            if meth == "update":
                G.update({k: list(v) for k, v in args[0].items()})
                return [gs("update")], [OK], True
            if meth == "pop":
                eff = args[0] in G
                G.pop(args[0], None)
                return [gs("pop", eff)], [OK], True
            if meth == "popitem":
                if not len(G):
                    return None
                G.popitem()
                return [gs("popitem")], [OK], True
            if meth == "setdefault":
                eff = args[0] not in G
                G.setdefault(args[0], list(args[1]))
                return [gs("setdefault", eff)], [OK], True
            if meth == "ior":
                G |= {k: list(v) for k, v in args[0].items()}
                return [gs("__ior__")], [OK], True
        except KeyError as e:
            self.bump("err.KeyError")
            return [], [], True
        raise ValueError(meth)

    # ---- public calls outside the model (oracle only) ----------------------------------------------------
    def do_unmodelled(self, what, gname, other):
        g = self.res_glyph(gname)
        if g is None:
            return None
        self.bump("x." + what)
        try:
            if what == "correctDirection":
                if any(self.quadratic(c) or len(c) == 0 for c in g):
                    return None
                g.correctContourDirection()
            elif what == "contourInside":
                if len(g) < 2 or any(self.quadratic(c) or len(c) == 0 for c in g):
                    return None
                g[0].contourInside(g[1])
            elif what == "insertGlyph":
                if other in self.layer:
                    return None
                extra = [(other, k.baseGlyph) for k in g.components if k.baseGlyph is not None]
                if not self.acyclic(self.graph(extra=extra)):
                    return None
                new = self.layer.insertGlyph(g, name=other)
                gid = self.fresh_id()
                self.keep.append(new)
                self.gobj[gid] = new
                self.gidof[id(new)] = gid
            elif what == "deserializeGlyph":
                src = self.res_glyph(other)
                if src is None or src is g:
                    return None
                extra = [(g.name, k.baseGlyph) for k in src.components if k.baseGlyph is not None]
                rest = self.graph()
                rest[g.name] = set(b for _, b in extra)
                if not self.acyclic(rest):
                    return None
                data = src.getDataForSerialization()
                data.pop("name", None)
                data.pop("unicodes", None)
                for c in g:
                    self.let_go_c(c)
                for k in g.components:
                    self.let_go_k(k)
                g.setDataFromSerialization(data)
            elif what in ("newGlyphOver", "insertGlyphOver", "renameOver"):
                # another glyph object takes the name of an existing glyph (the one that components may reference)
                tgt = self.res_glyph(other)
                if tgt is None or tgt is g:
                    return None
                rest = self.graph()
                if what == "newGlyphOver":
                    rest[other] = set()
                elif what == "insertGlyphOver":
                    rest[other] = set(rest.get(gname, ()))
                else:
                    rest[other] = rest.pop(gname)
                if not self.acyclic(rest):
                    return None
                # what the replaced glyph held is let go
                for c in tgt:
                    self.let_go_c(c)
                for k in tgt.components:
                    self.let_go_k(k)
                if what == "newGlyphOver":
                    new = self.layer.newGlyph(other)
                elif what == "insertGlyphOver":
                    new = self.layer.insertGlyph(g, name=other)
                else:
                    g.name = other
                    new = g
                self.keep.append(new)
                if id(new) not in self.gidof:
                    gid = self.fresh_id()
                    self.gobj[gid] = new
                    self.gidof[id(new)] = gid
            elif what == "layerBounds":
                # only when every factory involved can run: a request whose factory raises (an outline the segment pens
                # refuse) leaves an empty sub-dict behind in getRepresentation, and Contour.move then raises KeyError(None)
                # - outside the property (it says nothing about failing factories), so such requests are not made
                for name in self.glyph_names():
                    gg = self.layer[name]
                    for x in gg:
                        if not (self.flatten_ok(x, "Contour", "defcon.contour.bounds") and
                                self.flatten_ok(x, "Contour", "defcon.contour.controlPointBounds")):
                            return None
                    for x in gg.components:
                        if not (self.flatten_ok(x, "Component", "defcon.component.bounds") and
                                self.flatten_ok(x, "Component", "defcon.component.controlPointBounds")):
                            return None
                self.layer.bounds
                self.layer.controlPointBounds
        except Exception as e:
            self.bump("err.x." + type(e).__name__)
        # adopt whatever appeared
        for name in self.glyph_names():
            gg = self.layer[name]
            for c in gg:
                if id(c) not in self.cidof:
                    self.adopt_contour(c)
            for k in gg.components:
                if id(k) not in self.kidof:
                    self.adopt_comp(k)
        return [], [], True


def _site(op):
    if op[0] in ("c", "k", "g"):
        return "after-%s.%s" % ({"c": "contour", "k": "component", "g": "glyph"}[op[0]], op[2])
    if op[0] in ("groups", "x"):
        return "after-%s.%s" % (op[0], op[1])
    return "after-" + op[0]


def trace(case, judge=True):
    """runs the case on the real defcon; returns the Impl (lines, outs, viol, stats)"""
    with_model = case.get("model", True)
    im = Impl(with_model)
    im.judge = judge
    im.install()
    reader = _Reader(im) if case.get("reader") else None
    im.no_runs_clause = reader is not None
    im.keep.append(reader)
    try:
        for line in _prelude():
            im.lines.append(line)
            im.outs.append([[OK], [Atom("set")], True, Atom("unobserved")])
        pre = len(im.lines)
        for i, op in enumerate(case["ops"]):
            im.step = pre + i
            im.opname = repr(op)[:200]
            composite = op[0] == "x"
            if composite:
                # a composition of several changes that requests representations in between (e.g.
                # correctContourDirection): 'once between two changes' is judged up to its start only
                im.check_runs(_site(op))
                im.interval = {}
            im.begin_op()
            if reader is not None:
                reader.sync()
            fp_before = im.fingerprints() if with_model else None
            im.noop_calls = im.real_calls = 0
            try:
                r = im.do(op)
            except Exception as e:
                # defcon raised where the adaptor expects no error (never on the unchanged tree): reported, with the
                # history as replay; nothing after it is executed (both streams are padded alike)
                im.viol.append(dict(clause="C03/unexpected-exception",
                                    signature="C03/unexpected-exception/%s/%s" % (type(e).__name__, _site(op)),
                                    step=im.step, op=im.opname, error=repr(e)[:300]))
                for _ in case["ops"][i:]:
                    im.lines.append([Atom("skip")])
                    im.outs.append(Atom("skip"))
                break
            if composite:
                im.interval = {}
            if r is None:
                im.bump("skipped")
                im.lines.append([Atom("skip")])
                im.outs.append(Atom("skip"))
                continue
            prims, res, mutating = r
            if mutating and im.noop_calls and not im.real_calls and op[0] in ("c", "k", "g", "groups", "L2"):
                mutating = False           # same value given to a method that compares first: not a change
                im.bump("call.same-value")
            site = _site(op)
            # runs inside a mutator count for the interval that ends with it
            im.check_runs(site, mutating)
            if mutating:
                im.interval = {}
                if prims and im.had_cached:
                    im.touched_cached = True
                im.sweep(site)
            if im.viol:
                im.judge = False          # one violation per case; the streams stay aligned
            im.had_cached = any(obj.representationKeys() for _, obj in im.tracked())
            im.bump("op." + op[0])
            if with_model:
                im.lines.append([Atom("seq")] + prims + [im.observed(fp_before)])
                im.outs.append([list(res), im.digest(), True, NO_CELLS])
            else:
                im.lines.append([Atom("skip")])
                im.outs.append(Atom("skip"))
    finally:
        im.uninstall()
    return im


Impl.had_cached = False
Impl.noop_calls = 0
Impl.real_calls = 0
Impl.no_runs_clause = False
Impl.interval_before = {}
Impl.cached_before = set()


def model_lines(case):
    return trace(case, judge=False).lines


def run_impl(case):
    import sys
    sys.unraisablehook = lambda *a: None      # BaseObject.__del__ at interpreter teardown
    im = trace(case)
    st = dict(im.stats)
    st["len"] = len(case["ops"])
    st["cases.modelled" if case.get("model", True) else "cases.oracle-only"] = 1
    return dict(out=im.outs, viol=im.viol, info=dict(nontrivial=bool(im.nontrivial), stats=st))
