"""C19 - kerning lookup through groups: correspondence with M-Kern + brute-force oracle.

Implementation adaptor drives a real `defcon.Font` (new, or opened from a generated temp UFO) through
`font.groups[...] = [...]`, `del`, `clear`, `update`, the same on `font.kerning`, `font.reloadGroups()` /
`font.reloadKerning()` after external edits of groups.plist / kerning.plist, and observes
`font.kerning.find(pair, default)`, the four cached group tables and which of them are cached.
"""
import os
import shutil
import tempfile

from sexp import Atom

MODEL = "kern"
SHRINKABLE = True
RULE = ("edit/lookup histories over 6 glyph names x 3 side-1 + 3 side-2 kerning groups (+ non-kerning groups and "
        "edge names); streams: valid (every edit keeps the UFO kerning-group rules), load (font opened from a temp "
        "UFO, external edits + reload), invalid (glyphs in several groups, wrong-side names: model=code only). "
        "non-trivial = some group edit happens after the tables were cached and is followed by a lookup or table "
        "read; distinct = distinct case dicts")
ASSUMPTIONS = [
    "edits are the BaseDictObject mutators the property lists: item assignment, del, clear, update, and "
    "Font.reloadGroups/reloadKerning; dict methods defcon does not override (pop, popitem, setdefault, |=) and "
    "in-place mutation of a member list post no notification and are outside the quantified domain",
    "notifications of the Groups object are neither held nor disabled by the caller while it is edited",
    "kerning values and defaults are ints; group members are lists of str; UFO format 3 on disk",
    "the oracle accepts either value when glyph/group and group/glyph are both defined (the property orders "
    "them in one tier); the Lean theorem states the order the code uses",
]
TRUSTED = ["fontTools plistlib/UFOReader byte-level reading of groups.plist and kerning.plist (document order kept)",
           "CPython dict insertion order"]

K1 = "public.kern1."
K2 = "public.kern2."
GLYPHS = ["A", "B", "C", "D", "E", "F"]
G1 = [K1 + "X", K1 + "Y", K1 + "Z"]
G2 = [K2 + "X", K2 + "Y", K2 + "Z"]
OTHER = ["other", "public.other", "kern1.X"]
EDGE1 = [K1, K2 + "X", "public.kern1", K1 + "X.alt"]     # odd names on side 1
EDGE2 = [K2, K1 + "X", "public.kern2", K2 + "X.alt"]
TABLES = ["side1", "side2", "g2g1", "g2g2"]
REPR = {
    "side1": "defcon.groups.kerningSide1Groups",
    "side2": "defcon.groups.kerningSide2Groups",
    "g2g1": "defcon.groups.kerningGlyphToSide1Group",
    "g2g2": "defcon.groups.kerningGlyphToSide2Group",
}
FIRSTS = GLYPHS + G1
SECONDS = GLYPHS + G2
ALL_PAIRS = [[a, b] for a in FIRSTS for b in SECONDS]
GROUP_EDITS = ("gset", "gdel", "gclear", "gupdate", "reloadgroups")
LOOKUPS = ("find", "findall", "table")


# ---------------------------------------------------------------------------------------
# generation
# ---------------------------------------------------------------------------------------

class Shadow(object):
    """what the generator believes the font holds (only used to steer generation)"""

    def __init__(self):
        self.groups = {}
        self.kerning = {}
        self.disk_groups = {}
        self.disk_kerning = {}
        self.path = False

    def free(self, side_groups, but=()):
        used = set()
        for g in side_groups:
            if g not in but:
                used.update(self.groups.get(g, []))
        return [x for x in GLYPHS if x not in used]


def _members(rng, pool, dup_p=0.06):
    n = rng.choice([0, 1, 1, 2, 2, 3, 4])
    ms = rng.sample(pool, min(n, len(pool)))
    if ms and rng.random() < dup_p:
        ms.append(rng.choice(ms))
    return ms


def _partition(rng, names, pool):
    """members for each of `names`, pairwise disjoint, drawn from pool"""
    pool = list(pool)
    rng.shuffle(pool)
    res = {}
    for n in names:
        k = rng.choice([0, 1, 2, 2, 3])
        res[n], pool = pool[:k], pool[k:]
        if res[n] and rng.random() < 0.05:
            res[n] = res[n] + [res[n][0]]
    return res


def _valid_groups(rng):
    g = {}
    for side in (G1, G2):
        names = [n for n in side if rng.random() < 0.8]
        g.update(_partition(rng, names, GLYPHS))
    if rng.random() < 0.4:
        g[rng.choice(OTHER)] = _members(rng, GLYPHS)
    items = list(g.items())
    rng.shuffle(items)
    return dict(items)


def _any_groups(rng):
    g = {}
    for n in G1 + G2:
        if rng.random() < 0.7:
            g[n] = _members(rng, GLYPHS + (G1 if rng.random() < 0.1 else []))
    for n in OTHER + EDGE1[:1] + EDGE2[:1]:
        if rng.random() < 0.2:
            g[n] = _members(rng, GLYPHS)
    items = list(g.items())
    rng.shuffle(items)
    return dict(items)


def _kerning(rng, groups, invalid):
    """clusters of candidate pairs around a glyph pair, so that several precedence levels are defined"""
    k = {}
    firsts = FIRSTS + (EDGE1 if invalid else [])
    seconds = SECONDS + (EDGE2 if invalid else [])
    for _ in range(rng.randint(1, 5)):
        a, b = rng.choice(GLYPHS), rng.choice(GLYPHS)
        ga = [g for g in G1 if a in groups.get(g, [])] or [rng.choice(G1)]
        gb = [g for g in G2 if b in groups.get(g, [])] or [rng.choice(G2)]
        cands = [(a, b), (a, rng.choice(gb)), (rng.choice(ga), b), (rng.choice(ga), rng.choice(gb))]
        for c in cands:
            if rng.random() < 0.5:
                k[c] = rng.randint(-99, 99)
    for _ in range(rng.randint(0, 3)):
        k[(rng.choice(firsts), rng.choice(seconds))] = rng.randint(-99, 99)
    return k


def _glist(g):
    return [[n, list(ms)] for n, ms in g.items()]


def _klist(k, sort=False):
    items = [[a, b, v] for (a, b), v in k.items()]
    return sorted(items) if sort else items


def _lookup_pair(rng, sh, invalid):
    r = rng.random()
    if sh.kerning and r < 0.55:
        # a pair that some defined kerning pair could serve
        (ka, kb) = rng.choice(list(sh.kerning))
        a = rng.choice(sh.groups.get(ka) or [ka]) if ka.startswith(K1) and rng.random() < 0.8 else ka
        b = rng.choice(sh.groups.get(kb) or [kb]) if kb.startswith(K2) and rng.random() < 0.8 else kb
        return a, b
    firsts = FIRSTS + (EDGE1 if invalid else [])
    seconds = SECONDS + (EDGE2 if invalid else [])
    return rng.choice(firsts), rng.choice(seconds)


def gen_case(rng, maxlen, stream):
    invalid = stream == "invalid"
    sh = Shadow()
    ops = []

    def mk_groups():
        return _any_groups(rng) if invalid else _valid_groups(rng)

    def apply_groups_update(o):
        sh.groups.update(o)

    # --- initial content
    if stream == "load" or (invalid and rng.random() < 0.3):
        g = mk_groups()
        k = _kerning(rng, g, invalid)
        ops.append(["open", _glist(g), _klist(k, True)])
        sh.path = True
        sh.disk_groups, sh.disk_kerning = dict(g), dict(k)
        sh.groups, sh.kerning = dict(g), dict(k)
        if rng.random() < 0.25:
            # external edit before anything was loaded
            g2 = mk_groups()
            ops.append(["extgroups", _glist(g2)])
            sh.disk_groups = dict(g2)
            sh.groups = dict(g2)
    else:
        g = mk_groups()
        if rng.random() < 0.5:
            ops.append(["gupdate", _glist(g)])
        else:
            for n, ms in g.items():
                ops.append(["gset", n, list(ms)])
        sh.groups = dict(g)
        k = _kerning(rng, g, invalid)
        if rng.random() < 0.5:
            ops.append(["kupdate", _klist(k)])
        else:
            for (a, b), v in k.items():
                ops.append(["kset", a, b, v])
        sh.kerning = dict(k)

    # --- history
    for _ in range(rng.randint(4, maxlen)):
        r = rng.random()
        if r < 0.30:
            a, b = _lookup_pair(rng, sh, invalid)
            ops.append(["find", a, b, rng.choice([0, 0, 7, -1, 1000])])
        elif r < 0.36:
            ops.append(["findall", [list(p) for p in rng.sample(ALL_PAIRS, rng.randint(0, 12))], rng.choice([0, 5])])
        elif r < 0.47:
            ops.append(["table", rng.choice(TABLES)])
        elif r < 0.53:
            ops.append([rng.choice(["gdump", "kdump"])])
        elif r < 0.66:
            # set one group
            side = rng.choice([G1, G2])
            if invalid:
                n = rng.choice(side + OTHER + EDGE1[:1])
                ms = _members(rng, GLYPHS)
            else:
                n = rng.choice(side + side + OTHER)
                pool = sh.free(side, but=(n,)) if n in side else GLYPHS
                ms = _members(rng, pool)
                if n in sh.groups and rng.random() < 0.12:
                    ms = list(sh.groups[n])          # assignment of an equal value: silent
            ops.append(["gset", n, ms])
            sh.groups[n] = ms
        elif r < 0.72:
            names = list(sh.groups) or G1
            n = rng.choice(names) if rng.random() < 0.9 else rng.choice(G1 + G2)
            ops.append(["gdel", n])
            sh.groups.pop(n, None)
        elif r < 0.74:
            ops.append(["gclear"])
            sh.groups.clear()
        elif r < 0.80:
            if invalid:
                o = dict(rng.sample(list(_any_groups(rng).items()) or [("other", [])], 1))
                for n in rng.sample(G1 + G2, 2):
                    o[n] = _members(rng, GLYPHS)
            else:
                o = {}
                for side in (G1, G2):
                    names = rng.sample(side, rng.randint(0, 2))
                    o.update(_partition(rng, names, sh.free(side, but=names)))
            ops.append(["gupdate", _glist(o)])
            sh.groups.update(o)
        elif r < 0.88:
            if sh.kerning and rng.random() < 0.3:
                a, b = rng.choice(list(sh.kerning))
                v = sh.kerning[(a, b)] if rng.random() < 0.3 else rng.randint(-99, 99)
            else:
                k = _kerning(rng, sh.groups, invalid)
                (a, b), v = rng.choice(list(k.items())) if k else (("A", "B"), 3)
            ops.append(["kset", a, b, v])
            sh.kerning[(a, b)] = v
        elif r < 0.92:
            if sh.kerning and rng.random() < 0.9:
                a, b = rng.choice(list(sh.kerning))
            else:
                a, b = rng.choice(FIRSTS), rng.choice(SECONDS)
            ops.append(["kdel", a, b])
            sh.kerning.pop((a, b), None)
        elif r < 0.93:
            ops.append(["kclear"])
            sh.kerning.clear()
        elif r < 0.96:
            k = _kerning(rng, sh.groups, invalid)
            ops.append(["kupdate", _klist(k)])
            sh.kerning.update(k)
        elif sh.path:
            r2 = rng.random()
            if r2 < 0.3:
                g = mk_groups()
                if not invalid and stream == "load" and rng.random() < 0.12:
                    g = _any_groups(rng)        # an external edit that breaks the rules: reload must refuse it
                ops.append(["extgroups", _glist(g)])
                sh.disk_groups = dict(g)
                ops.append(["reloadgroups"])
                sh.groups = dict(g)
            elif r2 < 0.5:
                k = {} if rng.random() < 0.25 else _kerning(rng, sh.groups, invalid)
                ops.append(["extkerning", _klist(k, True)])
                sh.disk_kerning = dict(k)
                ops.append(["reloadkerning"])
                sh.kerning = dict(k)
            elif r2 < 0.75:
                ops.append(["reloadgroups"])
                sh.groups = dict(sh.disk_groups)
            else:
                ops.append(["reloadkerning"])
                sh.kerning = dict(sh.disk_kerning)
        else:
            ops.append([rng.choice(["reloadgroups", "reloadkerning"])] if rng.random() < 0.1 else ["table", rng.choice(TABLES)])
    # --- closing sweep: every pair, every table
    ops.append(["findall", ALL_PAIRS, 0])
    for t in rng.sample(TABLES, 2):
        ops.append(["table", t])
    preview = rng.random() < 0.35
    if not preview:
        # some group edits are WATCHED: an observer of every notification of that edit looks a few pairs up inside each
        # callback (model: Kern.stepWatched / announce).  Only once groups and kerning are loaded (any earlier use
        # since the last open has loaded them).
        loaded = True
        for i, op in enumerate(ops):
            if op[0] == "open":
                loaded = False
            elif op[0] in ("gset", "gdel", "gclear", "gupdate") and loaded and rng.random() < 0.3:
                ops[i] = ["watch", op, [list(p) for p in rng.sample(ALL_PAIRS, rng.randint(1, 4))], rng.choice([0, 0, 7])]
            elif op[0] in ("find", "findall", "table", "gset", "gdel", "gclear", "gupdate", "kset", "kdel", "kclear",
                           "kupdate", "gdump", "kdump"):
                loaded = True
    return dict(ops=ops, stream=stream, preview=preview)


def generate(rng, tier):
    n, maxlen = (2500, 22) if tier == "quick" else (30000, 60)
    for i in range(n):
        r = rng.random()
        stream = "valid" if r < 0.55 else ("load" if r < 0.8 else "invalid")
        yield gen_case(rng, maxlen, stream)


def neighbourhood(case, step, rng):
    """variants around a diverging step: fill the caches before it, look everything up after it"""
    ops = case["ops"]
    sweep = [["findall", ALL_PAIRS, 0]] + [["table", t] for t in TABLES]
    yield dict(case, ops=ops[:step + 1] + sweep)
    yield dict(case, ops=ops[:step] + sweep + [ops[step]] + sweep)
    yield dict(case, ops=ops[:step] + [["table", "g2g1"], ["table", "g2g2"]] + [ops[step]] + sweep)
    yield dict(case, ops=ops[:step] + [["table", "side1"], ["table", "side2"]] + [ops[step]] + sweep)
    for i in range(max(0, step - 3), step + 1):
        yield dict(case, ops=ops[:i] + sweep + ops[i:step + 1] + sweep)
    yield dict(case, ops=ops + sweep)


# ---------------------------------------------------------------------------------------
# model side
# ---------------------------------------------------------------------------------------

def _eg(g):
    return [[n, list(ms)] for n, ms in g]


def _ek(k):
    return [[a, b, v] for a, b, v in k]


def enc_op(op):
    k = op[0]
    if k == "gset":
        return [Atom("gset"), op[1], list(op[2])]
    if k == "gdel":
        return [Atom("gdel"), op[1]]
    if k in ("gclear", "kclear", "cached", "gdump", "kdump", "reloadgroups", "reloadkerning"):
        return [Atom(k)]
    if k == "gupdate":
        return [Atom("gupdate"), _eg(op[1])]
    if k == "kset":
        return [Atom("kset"), op[1], op[2], op[3]]
    if k == "kdel":
        return [Atom("kdel"), op[1], op[2]]
    if k == "kupdate":
        return [Atom("kupdate"), _ek(op[1])]
    if k == "find":
        return [Atom("find"), op[1], op[2], op[3]]
    if k == "findall":
        return [Atom("findall"), [list(p) for p in op[1]], op[2]]
    if k == "table":
        return [Atom("table"), Atom(op[1])]
    if k == "open":
        return [Atom("open"), _eg(op[1]), _ek(op[2])]
    if k == "extgroups":
        return [Atom("extgroups"), _eg(op[1])]
    if k == "extkerning":
        return [Atom("extkerning"), _ek(op[1])]
    if k == "watch":
        return [Atom("watch"), enc_op(op[1]), [list(p) for p in op[2]], op[3]]
    raise ValueError(op)


def model_lines(case):
    return [enc_op(op) for op in case["ops"]]


# ---------------------------------------------------------------------------------------
# implementation side
# ---------------------------------------------------------------------------------------

def _write_plist(path, data):
    from fontTools.misc import plistlib
    with open(path, "wb") as f:
        plistlib.dump(data, f, sort_keys=False)


def _nest(kitems):
    nested = {}
    for a, b, v in kitems:
        nested.setdefault(a, {})[b] = v
    return nested


class _Preview(object):
    """an observer that looks kerning up from inside its callbacks (what a kerning preview does): it is called back for
    every notification Groups / Kerning post once their contents have changed, by name and for any sender.  By the
    cache-transparency theorem its reading must not change any later answer - and what it reads must itself be the
    answer for the CURRENT contents (the contents are already the new ones when these notifications are posted)."""

    NAMES = ("Groups.Changed", "Groups.GroupSet", "Groups.GroupDeleted", "Groups.Cleared", "Groups.Updated",
             "Kerning.Changed", "Kerning.PairSet", "Kerning.PairDeleted", "Kerning.Cleared", "Kerning.Updated")

    def __init__(self, font, world):
        self.font = font
        self.world = world
        self.calls = 0
        for n in self.NAMES:
            font.dispatcher.addObserver(self, "changed", n, None)

    def changed(self, notification):
        self.calls += 1
        font = self.font
        if font._kerning is None or font._groups is None or font is not self.world.font:
            return
        groups = dict((n, list(ms)) for n, ms in font.groups.items())
        kerning = dict(font.kerning.items())
        names = sorted(set(m for ms in groups.values() for m in ms) | set(["A", "B", "C", "D"]))[:5]
        pairs = [(a, b) for a in names[:3] for b in names]
        got = [font.kerning.find(pair, 7) for pair in pairs]
        tables = dict((t, font.groups.getRepresentation(REPR[t])) for t in TABLES)
        w = self.world
        w.stats["callback-lookups"] = w.stats.get("callback-lookups", 0) + len(pairs)
        if w.cbviol or not rules_hold(groups):
            return
        for (a, b), v in zip(pairs, got):
            allowed, tier, both = ref_find(kerning, groups, a, b, 7)
            if v not in allowed:
                w.cbviol.append(dict(clause="C19/find", signature="C19/find/%s/inside-callback/%s" % (tier, notification.name),
                                     pair=[a, b], expected=sorted(allowed), observed=v, groups=groups,
                                     kerning=[[x, y, z] for (x, y), z in kerning.items()]))
                return
        for t in TABLES:
            exp = ref_table(groups, t)
            if dict(tables[t]) != exp:
                w.cbviol.append(dict(clause="C19/table", signature="C19/table/%s/inside-callback/%s" % (t, notification.name),
                                     expected=exp, observed=dict(tables[t]), groups=groups))
                return


class World(object):
    def __init__(self, preview=False):
        from defcon import Font
        self.Font = Font
        self.preview = preview
        self.font = Font()
        self.keep = [self.font]     # BaseObject.__del__ unregisters observers: keep everything alive
        self.stats = {}
        self.cbviol = []
        # shadow content: what the in-memory edits made so far amount to by plain dict semantics, starting from what the
        # font held when the first of them came (None = not known: nothing edited since the last open / reload)
        self.sg = None
        self.sk = None
        if preview:
            self.keep.append(_Preview(self.font, self))
        self.tmp = None
        self.path = None
        self.n = 0
        self.nops = 0

    def close(self):
        if self.tmp is not None:
            shutil.rmtree(self.tmp, ignore_errors=True)

    def open(self, groups, kerning):
        from fontTools.ufoLib import UFOWriter
        if self.tmp is None:
            self.tmp = tempfile.mkdtemp(prefix="c19_")
        self.n += 1
        path = os.path.join(self.tmp, "f%d.ufo" % self.n)
        w = UFOWriter(path)
        gs = w.getGlyphSet()
        gs.writeContents()
        w.writeLayerContents()
        w.close()
        self.path = path
        self.ext_groups(groups)
        self.ext_kerning(kerning)
        self.font = self.Font(path)
        self.keep.append(self.font)
        if self.preview:
            self.keep.append(_Preview(self.font, self))

    def ext_groups(self, groups):
        if self.path is None:
            raise ValueError("external edit without a UFO")
        _write_plist(os.path.join(self.path, "groups.plist"), dict((n, list(ms)) for n, ms in groups))

    def ext_kerning(self, kerning):
        if self.path is None:
            raise ValueError("external edit without a UFO")
        _write_plist(os.path.join(self.path, "kerning.plist"), _nest(kerning))

    EDITS = ("gset", "gdel", "gclear", "gupdate", "kset", "kdel", "kclear", "kupdate")

    def do(self, op):
        k = op[0]
        if k in self.EDITS:
            # the contents the edit starts from - read only when they are loaded already (a peek: the harness must not
            # be the one that triggers, or fails, the lazy load); the first edit of a freshly opened font is judged
            # against the font's own contents
            if self.font._groups is not None and self.font._kerning is not None:
                if self.sg is None:
                    self.sg = dict((n, list(ms)) for n, ms in self.font._groups.items())
                if self.sk is None:
                    self.sk = dict(self.font._kerning.items())
            else:
                self.sg = self.sk = None
        try:
            out = self._do(op)
        except (ValueError,):
            raise
        except Exception as e:
            if k in self.EDITS and not isinstance(e, KeyError):
                self.sg = self.sk = None
            return [Atom("err"), Atom(type(e).__name__)]
        if k == "open":
            self.sg = self.sk = None
        elif k == "reloadgroups":
            # what a reload has to install is what the UFO holds, read here with ufoLib alone (not through defcon)
            self.sg = self._disk("readGroups")
            if self.sg is not None and self.sk is None and self.font._kerning is not None:
                self.sk = dict(self.font._kerning.items())
        elif k == "reloadkerning":
            self.sk = self._disk("readKerning")
            if self.sk is not None and self.sg is None and self.font._groups is not None:
                self.sg = dict((n, list(ms)) for n, ms in self.font._groups.items())
        elif k in self.EDITS:
            if self.sg is not None and self.sk is not None:
                self._shadow(op)
            else:
                self.sg = self.sk = None
        return out

    def _disk(self, what):
        from fontTools.ufoLib import UFOReader
        try:
            reader = UFOReader(self.path, validate=True)
            try:
                data = getattr(reader, what)(validate=True)
            finally:
                reader.close()
        except Exception:
            return None
        if what == "readGroups":
            return dict((n, list(ms)) for n, ms in data.items())
        return dict(data)

    def _shadow(self, op):
        k = op[0]
        if k == "gset":
            self.sg[op[1]] = list(op[2])
        elif k == "gdel":
            del self.sg[op[1]]
        elif k == "gclear":
            self.sg.clear()
        elif k == "gupdate":
            self.sg.update(dict((n, list(ms)) for n, ms in op[1]))
        elif k == "kset":
            self.sk[(op[1], op[2])] = op[3]
        elif k == "kdel":
            del self.sk[(op[1], op[2])]
        elif k == "kclear":
            self.sk.clear()
        elif k == "kupdate":
            self.sk.update(dict(((a, b), v) for a, b, v in op[1]))

    def _int(self, v):
        if isinstance(v, bool) or not isinstance(v, int):
            raise ValueError("non-int kerning value %r" % (v,))
        return v

    def _do(self, op):
        k = op[0]
        ok = Atom("ok")
        if k == "open":
            self.open(op[1], op[2])
            return ok
        if k == "extgroups":
            self.ext_groups(op[1])
            return ok
        if k == "extkerning":
            self.ext_kerning(op[1])
            return ok
        f = self.font
        if k == "watch":
            inner, pairs, d = op[1], op[2], op[3]
            rec = []

            class _W(object):
                def cb(self_, notification):
                    rec.append([notification.name, [self._int(f.kerning.find((a, b), d)) for a, b in pairs]])
            wt = _W()
            names = ("Groups.GroupSet", "Groups.GroupDeleted", "Groups.Cleared", "Groups.Updated", "Groups.Changed")
            for n in names:
                f.dispatcher.addObserver(wt, "cb", n, None)
            self.plain = True
            try:
                out = self.do(inner)
            finally:
                self.plain = False
                for n in names:
                    f.dispatcher.removeObserver(wt, n, None)
            return [Atom("watched"), out, rec]
        # the same edit in the different spellings the dict API offers (the model sees one operation): every one of
        # them must announce the change, or the derived tables go stale
        v = 0 if getattr(self, "plain", False) else self.nops % 4
        self.nops += 1
        if k == "gset":
            g = f.groups
            if op[1] not in g and v == 1:
                g.setdefault(op[1], list(op[2]))
            else:
                g[op[1]] = list(op[2])
            return ok
        if k == "gdel":
            g = f.groups
            if op[1] in g and v == 1:
                g.pop(op[1])
            elif op[1] in g and v == 2:
                g.pop(op[1], None)
            elif op[1] in g and v == 3:
                g.pop(op[1], ["fallback"])
            else:
                del g[op[1]]
            return ok
        if k == "gclear":
            g = f.groups
            if v == 1 and len(g):
                while len(g):
                    g.popitem()
            else:
                g.clear()
            return ok
        if k == "gupdate":
            g = f.groups
            d = dict((n, list(ms)) for n, ms in op[1])
            if v == 1:
                g |= d
            else:
                g.update(d)
            return ok
        if k == "kset":
            kn = f.kerning
            if (op[1], op[2]) not in kn and v == 1:
                kn.setdefault((op[1], op[2]), op[3])
            else:
                kn[(op[1], op[2])] = op[3]
            return ok
        if k == "kdel":
            kn = f.kerning
            key = (op[1], op[2])
            if key in kn and v == 1:
                kn.pop(key)
            elif key in kn and v == 2:
                kn.pop(key, None)
            elif key in kn and v == 3:
                kn.pop(key, 5)
            else:
                del kn[key]
            return ok
        if k == "kclear":
            f.kerning.clear()
            return ok
        if k == "kupdate":
            f.kerning.update(dict(((a, b), v) for a, b, v in op[1]))
            return ok
        if k == "find":
            return [Atom("int"), self._int(f.kerning.find((op[1], op[2]), op[3]))]
        if k == "findall":
            kerning = f.kerning
            return [Atom("ints")] + [self._int(kerning.find((a, b), op[2])) for a, b in op[1]]
        if k == "table":
            t = f.groups.getRepresentation(REPR[op[1]])
            # the property speaks of the tables' content, not of their iteration order
            if op[1].startswith("side"):
                return [Atom("groups"), [Atom("set")] + [[n, list(ms)] for n, ms in t.items()]]
            return [Atom("g2g"), [Atom("set")] + [[x, g] for x, g in t.items()]]
        if k == "cached":
            g = f.groups
            return [Atom("bools")] + [bool(g.hasCachedRepresentation(REPR[t])) for t in TABLES]
        if k == "gdump":
            return [Atom("dump"), [[n, list(ms)] for n, ms in f.groups.items()]]
        if k == "kdump":
            return [Atom("kern"), [[a, b, self._int(v)] for (a, b), v in f.kerning.items()]]
        if k == "reloadgroups":
            f.reloadGroups()
            return ok
        if k == "reloadkerning":
            f.reloadKerning()
            return ok
        raise ValueError(op)


# ---------------------------------------------------------------------------------------
# direct oracle: brute-force reference lookup over the font's current groups and kerning
# ---------------------------------------------------------------------------------------

def rules_hold(groups):
    """UFO kerning-group rule: a glyph is in at most one group per side"""
    for prefix in (K1, K2):
        seen = {}
        for n, ms in groups.items():
            if n.startswith(prefix):
                for m in set(ms):
                    if m in seen:
                        return False
                    seen[m] = n
    return True


def ref_find(kerning, groups, a, b, default):
    """(allowed values, tier) by the UFO precedence rules, scanning all groups"""
    if a.startswith(K1):
        glyph_a, groups_a = None, [a]
    else:
        glyph_a, groups_a = a, [n for n, ms in groups.items() if n.startswith(K1) and a in ms]
    if b.startswith(K2):
        glyph_b, groups_b = None, [b]
    else:
        glyph_b, groups_b = b, [n for n, ms in groups.items() if n.startswith(K2) and b in ms]
    ga = groups_a[0] if groups_a else None
    gb = groups_b[0] if groups_b else None
    tiers = [("pair", [(glyph_a, glyph_b)]),
             ("glyph+group", [(glyph_a, gb), (ga, glyph_b)]),
             ("group+group", [(ga, gb)])]
    for name, cands in tiers:
        vals = [kerning[c] for c in cands if c[0] is not None and c[1] is not None and c in kerning]
        if vals:
            return set(vals), name, bool(groups_a and groups_b and glyph_a and glyph_b)
    return {default}, "default", bool(groups_a and groups_b and glyph_a and glyph_b)


def ref_table(groups, t):
    prefix = K1 if t.endswith("1") else K2
    side = dict((n, list(ms)) for n, ms in groups.items() if n.startswith(prefix))
    if t.startswith("side"):
        return side
    return dict((m, n) for n, ms in side.items() for m in ms)


KERNING_EDITS = ("kset", "kdel", "kclear", "kupdate", "reloadkerning")


def _last_edit(ops, i, kinds):
    """call-site part of a signature: the most recent edit of one of these kinds before step i"""
    for j in range(i - 1, -1, -1):
        if ops[j][0] in kinds:
            return ops[j][0]
    return "start"


def check_step(w, ops, i, out, stats):
    """the property on one observation of the implementation; returns a violation record or None"""
    op = ops[i]
    k = op[0]
    if k == "watch" and isinstance(out, list) and out and out[0] == "watched":
        # what the watcher read inside the callbacks of the edit: the contents were already the new ones
        shadow = w.sg is not None and w.sk is not None
        f = w.font
        groups = dict((n, list(ms)) for n, ms in (w.sg if shadow else f.groups).items())
        kerning = dict((w.sk if shadow else f.kerning).items())
        if not rules_hold(groups):
            return None
        for name, vals in out[2]:
            stats["watched-reads"] = stats.get("watched-reads", 0) + len(vals)
            for (a, b), v in zip(op[2], vals):
                allowed, tier, both = ref_find(kerning, groups, a, b, op[3])
                if v not in allowed:
                    return dict(clause="C19/find", signature="C19/find/%s/inside-callback/%s" % (tier, name), step=i, op=op,
                                pair=[a, b], expected=sorted(allowed), observed=v, groups=groups,
                                kerning=[[x, y, z] for (x, y), z in kerning.items()])
        return None
    if k not in LOOKUPS or (isinstance(out, list) and out and out[0] == "err"):
        return None
    f = w.font
    # judged against what the edits made so far amount to (an edit that was silently dropped must not hide itself by
    # also being absent from the contents the font reports); the font's own contents where nothing was edited
    shadow = w.sg is not None and w.sk is not None
    groups = dict((n, list(ms)) for n, ms in (w.sg if shadow else f.groups).items())
    kerning = dict((w.sk if shadow else f.kerning).items())
    stats["oracle.shadow" if shadow else "oracle.font-contents"] = stats.get("oracle.shadow" if shadow else "oracle.font-contents", 0) + 1
    if not rules_hold(groups):
        stats["oracle.skipped-rules-broken"] = stats.get("oracle.skipped-rules-broken", 0) + 1
        return None
    if k in ("find", "findall"):
        pairs = [(op[1], op[2])] if k == "find" else [tuple(p) for p in op[1]]
        got = [out[1]] if k == "find" else list(out[1:])
        d = op[3] if k == "find" else op[2]
        for (a, b), v in zip(pairs, got):
            allowed, tier, both = ref_find(kerning, groups, a, b, d)
            stats["tier." + tier] = stats.get("tier." + tier, 0) + 1
            if both:
                stats["lookup.both-sides-grouped"] = stats.get("lookup.both-sides-grouped", 0) + 1
            if v not in allowed:
                return dict(clause="C19/find", signature="C19/find/%s/after-%s" % (tier, _last_edit(ops, i, GROUP_EDITS + KERNING_EDITS + ("open",))),
                            step=i, op=op, pair=[a, b], expected=sorted(allowed), observed=v,
                            groups=groups, kerning=[[x, y, z] for (x, y), z in kerning.items()])
        return None
    t = op[1]
    items = out[1][1:]
    got = dict((x[0], x[1]) for x in items)
    if len(got) != len(items):
        return dict(clause="C19/table", signature="C19/table/%s/duplicate-key" % t, step=i, op=op, observed=repr(out))
    exp = ref_table(groups, t)
    stats["table.checked"] = stats.get("table.checked", 0) + 1
    if got != exp:
        return dict(clause="C19/table", signature="C19/table/%s/after-%s" % (t, _last_edit(ops, i, GROUP_EDITS + ("open",))),
                    step=i, op=op, expected=exp, observed=got, groups=groups)
    return None


def run_impl(case):
    w = World(preview=bool(case.get("preview")))
    outs = []
    viol = []
    stats = w.stats
    ops = case["ops"]
    try:
        filled = edited_after_fill = observed_after_edit = False
        for i, op in enumerate(ops):
            k = op[0]
            if k == "watch":
                stats["op.watch"] = stats.get("op.watch", 0) + 1
                k = op[1][0]
            if k in GROUP_EDITS:
                # statistics only (peeks without triggering the lazy load): was anything cached when the edit came?
                g = w.font._groups
                if g is not None and any(g.hasCachedRepresentation(REPR[t]) for t in TABLES):
                    stats["edit-with-tables-cached." + k] = stats.get("edit-with-tables-cached." + k, 0) + 1
            out = w.do(op)
            outs.append(out)
            stats["op." + k] = stats.get("op." + k, 0) + 1
            if isinstance(out, list) and out and out[0] == "err":
                stats["err.%s.%s" % (k, out[1])] = stats.get("err.%s.%s" % (k, out[1]), 0) + 1
            if not viol and w.cbviol:
                viol.append(dict(w.cbviol[0], step=i, op=op))
            if not viol:
                v = check_step(w, ops, i, out, stats)
                if v is not None:
                    viol.append(v)
            if k in LOOKUPS and not (isinstance(out, list) and out and out[0] == "err"):
                if edited_after_fill:
                    observed_after_edit = True
                filled = True
            elif k in GROUP_EDITS and filled:
                edited_after_fill = True
        stats["len"] = len(ops)
        stats["stream." + case.get("stream", "?")] = 1
        return dict(out=outs, viol=viol, info=dict(nontrivial=observed_after_edit, stats=stats))
    finally:
        w.close()


# ---------------------------------------------------------------------------------------
# regenerated table: the registration data of Groups / Kerning (class-level dicts and names)
# ---------------------------------------------------------------------------------------

GEN_FILE = os.path.join("DefconModel", "Gen", "KernTables.lean")


def _class_attrs(path, cls):
    import ast
    tree = ast.parse(open(path).read())
    for node in tree.body:
        if isinstance(node, ast.ClassDef) and node.name == cls:
            attrs = {}
            for st in node.body:
                if isinstance(st, ast.Assign) and len(st.targets) == 1 and isinstance(st.targets[0], ast.Name):
                    attrs[st.targets[0].id] = st.value
            return attrs
    raise ValueError("class %s not found in %s" % (cls, path))


def _lean_str(s):
    return '"' + s.replace("\\", "\\\\").replace('"', '\\"') + '"'


def _factories(value, where):
    """[(name, factory function name, ('str', s) | ('coll', [s...]))] from a representationFactories dict literal"""
    import ast
    if not isinstance(value, ast.Dict):
        raise ValueError("%s.representationFactories is not a dict literal" % where)
    res = []
    for k, v in zip(value.keys, value.values):
        if not (isinstance(k, ast.Constant) and isinstance(k.value, str)):
            raise ValueError("%s: non-literal representation name" % where)
        if not (isinstance(v, ast.Call) and isinstance(v.func, ast.Name) and v.func.id == "dict" and not v.args):
            raise ValueError("%s[%s]: not a dict(...) call" % (where, k.value))
        kw = dict((x.arg, x.value) for x in v.keywords)
        if set(kw) != {"factory", "destructiveNotifications"}:
            raise ValueError("%s[%s]: unexpected keywords %s" % (where, k.value, sorted(kw)))
        if not isinstance(kw["factory"], ast.Name):
            raise ValueError("%s[%s]: factory is not a name" % (where, k.value))
        d = kw["destructiveNotifications"]
        if isinstance(d, ast.Constant) and isinstance(d.value, str):
            destr = ("str", d.value)
        elif isinstance(d, (ast.Tuple, ast.List, ast.Set)) and all(
                isinstance(e, ast.Constant) and isinstance(e.value, str) for e in d.elts):
            destr = ("coll", [e.value for e in d.elts])
        else:
            raise ValueError("%s[%s]: destructiveNotifications of unrecognised shape" % (where, k.value))
        res.append((k.value, kw["factory"].id, destr))
    return res


def extract(repo, lean_dir):
    import ast
    gpath = os.path.join(repo, "Lib", "defcon", "objects", "groups.py")
    kpath = os.path.join(repo, "Lib", "defcon", "objects", "kerning.py")
    g = _class_attrs(gpath, "Groups")
    k = _class_attrs(kpath, "Kerning")
    gf = _factories(g["representationFactories"], "Groups")
    kf = _factories(k["representationFactories"], "Kerning")
    posts = []
    for attr in ("changeNotificationName", "setItemNotificationName", "deleteItemNotificationName",
                 "clearNotificationName", "updateNotificationName"):
        v = g.get(attr)
        if not (isinstance(v, ast.Constant) and isinstance(v.value, str)):
            raise ValueError("Groups.%s is not a string literal" % attr)
        posts.append(v.value)

    def destr(d):
        if d[0] == "str":
            return ".str " + _lean_str(d[1])
        return ".coll [" + ", ".join(_lean_str(x) for x in d[1]) + "]"

    def table(rows):
        if not rows:
            return "[]"
        return "[\n" + ",\n".join("  (%s, %s, %s)" % (_lean_str(n), _lean_str(f), destr(d)) for n, f, d in rows) + "]"

    text = (
        "/-\nGENERATED by harness/props/c19.py (extract) from Lib/defcon/objects/groups.py and kerning.py.\n"
        "Do not edit: regenerated on every run of ./check C19; Props/C19.lean proves by `decide` that this data is\n"
        "what M-Kern models (all four tables destroyed by Groups.Changed and by nothing else Groups posts).\n-/\n"
        "import DefconModel.Kern\n\nnamespace DefconModel.Gen.KernTables\nopen DefconModel.Kern\n\n"
        "/-- `Groups.representationFactories`: (name, factory function, destructiveNotifications) -/\n"
        "def groupsFactories : List (String × String × Destr) := %s\n\n"
        "/-- `Kerning.representationFactories` -/\n"
        "def kerningFactories : List (String × String × Destr) := %s\n\n"
        "/-- what a `Groups` object posts: change, set-item, delete-item, clear, update -/\n"
        "def groupsPosts : List String := [%s]\n\n"
        "end DefconModel.Gen.KernTables\n" % (table(gf), table(kf), ", ".join(_lean_str(x) for x in posts)))
    path = os.path.join(lean_dir, GEN_FILE)
    old = open(path).read() if os.path.exists(path) else None
    changed = []
    if old != text:
        os.makedirs(os.path.dirname(path), exist_ok=True)
        with open(path, "w") as f:
            f.write(text)
        changed.append(GEN_FILE)
    return changed, dict(obligations=0, tables={"Groups.representationFactories": len(gf),
                                                 "Kerning.representationFactories": len(kf),
                                                 "Groups notification names": len(posts)})


def search(rng, tier, broken):
    """directed search after a broken table obligation: cache-filling lookups around every kind of group edit"""
    for i in range(400 if tier == "quick" else 4000):
        yield gen_case(rng, 14, "valid" if i % 3 else "load")
